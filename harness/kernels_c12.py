"""Kernel specifications for C12 (rex/artificial.py: generated / augmented graphs).

Parameter lists are supersets of the names an expression uses today (e.g. `ts_start` for `ts_next`), so that a
realistic edit (ts_end -> ts_start, dropping the `skip` test) still extracts and it is a *theorem* that stops checking.

Every arithmetic expression, comparison and masking `where` of the per-node scan (`step`), of the carried while-loop
(`_scan_body_seq`) and of the edge post-processing in `episode` is regenerated into lean/RexModel/Gen/Generator.lean."""

ART = "rex/artificial.py"
STEP = "_generate_graphs.step"
BODY = "_generate_graphs._scan_body_seq"
COND = "_generate_graphs._scan_body_seq._while_cond"
WBODY = "_generate_graphs._scan_body_seq._while_body"
EP = "_generate_graphs.episode"

P = ["C12"]
_SAMPLE_COMP = "comp_delay.replace(rng=rng_comp).sample()[1]"
_SAMPLE_COMM = "communication_delays[output_name, input_name].replace(rng=_rng).sample(shape=ts_end.shape)[1]"

KERNELS = {
    "Generator": [
        # ---- per-node scan
        dict(name="step_ts_start", file=ART, func=STEP, loc=("assign_unique", "ts_start"), params=["ts_prev"], props=P),
        dict(name="step_ts_end", file=ART, func=STEP, loc=("assign_unique", "ts_end"), opaque={_SAMPLE_COMP: "delay"}, params=["ts_prev", "ts_start", "delay"], props=P),
        dict(name="step_ts_next", file=ART, func=STEP, loc=("assign_unique", "ts_next"), params=["ts_start", "ts_end", "ts_prev", "rate"], props=P),
        dict(name="step_seq", file=ART, func=STEP, loc=("assign_unique", "seq"), result="IntSel", rename={"__ts_max": "ts_max"}, params=["ts_start", "ts_end", "ts_max", "i"], props=P),
        # ---- carried while loop of _scan_body_seq
        dict(name="while_seq_mod", file=ART, func=COND, loc=("assign_unique", "_seq_mod"), ty="Int", rename={"_seq": "seq_", "ts_start.shape[0]": "n"}, params=["seq_", "n"], props=P),
        dict(name="while_is_larger", file=ART, func=COND, loc=("assign_unique", "is_larger"), result="Bool", rename={"ts_start[_seq_mod]": "t"}, bools=["skip"],
             params=["skip", "t", "ts_recv"], props=P),
        dict(name="while_is_last", file=ART, func=COND, loc=("assign_unique", "is_last"), result="Bool", ty="Int", rename={"_seq": "seq_", "ts_start.shape[0]": "n"},
             params=["n", "seq_"], props=P),
        dict(name="while_cond", file=ART, func=COND, loc=("return", 0), result="Bool", params=["is_larger", "is_last"], props=P),
        dict(name="while_body", file=ART, func=WBODY, loc=("return", 0), ty="Int", rename={"_seq": "seq_"}, params=["seq_"], props=P),
        dict(name="post_is_larger", file=ART, func=BODY, loc=("assign", "is_larger", 1), result="Bool", rename={"ts_start[seq]": "t"}, bools=["skip"], params=["skip", "t", "ts_recv"], props=P),
        dict(name="post_seq_clipped", file=ART, func=BODY, loc=("assign_unique", "seq_clipped"), ty="Int", rename={"seq": "seq_"}, bools=["is_larger"],
             params=["is_larger", "seq_"], props=P),
        # ---- edge construction in `episode`
        dict(name="ep_unsent", file=ART, func=EP, loc=("call_arg", "jnp.where", 0, 0), result="Bool", ty="Int", params=["seq_out"], props=P),
        dict(name="ep_ts_end_masked", file=ART, func=EP, loc=("assign_unique", "ts_end"), opaque={"seq_out == -1": "unsent"},
             rename={"jnp.inf": "inf", "vertices[output_name].ts_end": "ts_end"}, params=["unsent", "inf", "ts_end"], props=P),
        dict(name="ep_ts_recv_raw", file=ART, func=EP, loc=("assign", "ts_recv", 0), opaque={_SAMPLE_COMM: "delay"}, params=["ts_end", "delay"], props=P),
        dict(name="ep_ts_recv_fifo", file=ART, func=EP, loc=("assign", "ts_recv", 1), result="List", elem="α", params=["ts_recv"], props=P),
        dict(name="ep_ts_recv_masked", file=ART, func=EP, loc=("assign", "ts_recv", 2), opaque={"seq_out == -1": "unsent"}, params=["unsent", "ts_recv"], props=P),
        dict(name="ep_seq_out_masked", file=ART, func=EP, loc=("assign", "seq_out", 1), result="IntSel", rename={"_ts_max": "ts_max"}, params=["ts_end", "ts_max", "seq_out"], props=P),
        dict(name="ep_seq_in_horizon", file=ART, func=EP, loc=("assign", "seq_in", 0), result="IntSel", rename={"_ts_max": "ts_max"}, params=["ts_end", "ts_max", "seqs_clipped"], props=P),
        dict(name="ep_seq_in_valid", file=ART, func=EP, loc=("assign", "seq_in", 1), ty="Int", opaque={"vertices[input_name].seq.max()": "seq_max"},
             params=["seqs_clipped", "seq_max", "seq_in"], props=P),
        dict(name="ep_scan_init", file=ART, func=EP, loc=("call_arg", "jax.lax.scan", 1, 1), ty="Int", params=[], props=P),
        # ---- augmenting: existing vertices / edges are skipped (reused verbatim)
        dict(name="aug_vertex_exists", file=ART, func=EP, loc=("iftest_containing", "in vertices"), result="Bool", opaque={"n in vertices": "present"}, params=["present"], props=P),
        dict(name="aug_edge_exists", file=ART, func=EP, loc=("iftest_containing", "in edges"), result="Bool", opaque={"(output_name, input_name) in edges": "present"},
             params=["present"], props=P),
    ],
}
