"""Worker-side functions for C12: build nodes from a JSON spec, run the REAL rex.artificial.generate_graphs /
augment_graphs, evaluate the property's statements on every vertex and edge of every episode, and prepare the
commands for the Lean model (Driver/C12Main.lean).

Times in generated graphs are float32. Statements that the implementation decides by comparing stored float32 values
(no overlap, receive-after-send, FIFO, horizon, first-step assignment, potential) are evaluated EXACTLY on the stored
values; statements that re-do arithmetic (next-start law, duration, deterministic arrival) use a tolerance, except in
the `exact` (dyadic) family where every operation is exact in float32 and the tolerance is 0."""
import math
import os
import sys

REPO = os.environ.get("REX_REPO", "/repo")
if REPO not in sys.path:
    sys.path.insert(0, REPO)

_NODE_CLS = None


def _node_cls():
    global _NODE_CLS
    if _NODE_CLS is None:
        import jax.numpy as jnp
        from flax import struct
        from rex.base import Base
        from rex.node import BaseNode

        @struct.dataclass
        class Out(Base):
            a: jnp.ndarray

        class GenNode(BaseNode):
            def init_output(self, rng=None, graph_state=None):
                return Out(jnp.array([1.0]))

            def step(self, step_state):
                return step_state, Out(jnp.array([1.0]))

        _NODE_CLS = GenNode
    return _NODE_CLS


def _dist(d):
    import distrax
    import jax.numpy as jnp
    from rex.base import TrainableDist

    k = d["kind"]
    if k == "det":
        return distrax.Deterministic(d["v"])
    if k == "normal":
        return distrax.Normal(loc=d["loc"], scale=d["scale"])
    if k == "mix":
        return distrax.MixtureSameFamily(
            mixture_distribution=distrax.Categorical(probs=jnp.array(d["probs"])),
            components_distribution=distrax.Normal(loc=jnp.array(d["locs"]), scale=jnp.array(d["scales"])),
        )
    if k == "train":
        return TrainableDist.create(d["v"], d["min"], d["max"])
    raise ValueError(k)


def _expected(d):
    """the `delay` argument (only used by rex to compute phases)"""
    k = d["kind"]
    if k == "det":
        return d["v"]
    if k == "normal":
        return max(0.0, d["loc"] + d["scale"])
    if k == "mix":
        return max(0.0, max(l + s for l, s in zip(d["locs"], d["scales"])))
    return d["v"]


def det_value(d):
    """the delay artificial.py must use when it is not random (trainable -> its minimum), else None"""
    if d["kind"] == "det":
        return d["v"]
    if d["kind"] == "train":
        return d["min"]
    if d["kind"] == "normal" and d["scale"] == 0:
        return max(0.0, d["loc"])
    return None


def build_nodes(spec, names=None):
    Node = _node_cls()
    nodes = {}
    for n in spec["nodes"]:
        if names is not None and n["name"] not in names:
            continue
        nodes[n["name"]] = Node(name=n["name"], rate=n["rate"], delay_dist=_dist(n["comp"]), delay=_expected(n["comp"]), advance=False)
    for c in spec["conns"]:
        if c["out"] in nodes and c["in"] in nodes:
            nodes[c["in"]].connect(nodes[c["out"]], window=c.get("window", 1), delay_dist=_dist(c["comm"]), delay=_expected(c["comm"]), blocking=False, skip=c["skip"])
    return nodes


def _np_graph(g):
    import numpy as onp

    V = {n: (onp.asarray(v.seq), onp.asarray(v.ts_start), onp.asarray(v.ts_end)) for n, v in g.vertices.items()}
    E = {tuple(k): (onp.asarray(e.seq_out), onp.asarray(e.seq_in), onp.asarray(e.ts_recv)) for k, e in g.edges.items()}
    return V, E


def _tol(exact, t):
    return 0.0 if exact else 3e-6 * max(1.0, abs(float(t)))


class Mon:
    def __init__(self, spec, where):
        self.fails = []
        self.stats = {}
        self.where = where
        self.exact = bool(spec.get("exact"))

    def fail(self, key, msg):
        if len(self.fails) < 40:
            self.fails.append([key, f"{self.where}: {msg}"])

    def count(self, k, n=1):
        self.stats[k] = self.stats.get(k, 0) + int(n)


def check_vertices(m, name, v, rate, phase, ts_max32, comp):
    """statements about one node's vertices in one episode"""
    import numpy as onp

    seq, s, e = v
    s64, e64 = s.astype(onp.float64), e.astype(onp.float64)
    n = len(seq)
    valid = seq >= 0
    nv = int(valid.sum())
    m.count("vertices", n)
    m.count("vertices_valid", nv)
    if not (valid[:nv].all() and onp.array_equal(seq[:nv], onp.arange(nv))):
        m.fail("valid_prefix", f"node {name}: valid vertices are not a prefix numbered 0..n-1: seq={seq.tolist()}")
    if not onp.all(seq[~valid] == -1):
        m.fail("valid_prefix", f"node {name}: masked vertices must have seq=-1: seq={seq.tolist()}")
    late = valid & (e > ts_max32)
    if late.any():
        k = int(onp.argmax(late))
        m.fail("horizon", f"node {name}: valid vertex {k} ends at {float(e[k])!r} after the horizon {float(ts_max32)!r}")
    lost = (~valid) & ~(e > ts_max32)
    if lost.any():
        k = int(onp.argmax(lost))
        m.fail("horizon_mask", f"node {name}: vertex {k} ends at {float(e[k])!r} <= horizon {float(ts_max32)!r} but is masked (seq=-1)")
    if (valid & (e == ts_max32)).any():
        m.count("tie_horizon")
    if ((s <= ts_max32) & (e > ts_max32)).any():
        m.count("horizon_cuts_step")
    if n and abs(s64[0] - phase) > _tol(m.exact, phase):
        m.fail("starts_at_phase", f"node {name}: first vertex starts at {float(s[0])!r}, phase is {phase!r}")
    period = 1.0 / rate
    for k in range(n - 1):
        want = max(e64[k], s64[k] + period)
        tol = _tol(m.exact, want)
        if s[k + 1] < e[k]:  # exact on stored values
            m.fail("no_overlap", f"node {name} (rate {rate}): vertex {k + 1} starts at {float(s[k + 1])!r} before vertex {k} ended at {float(e[k])!r}")
            break
        if s64[k + 1] - s64[k] < period - tol:
            m.fail("spacing", f"node {name} (rate {rate}): vertices {k},{k + 1} start {s64[k + 1] - s64[k]!r} apart, less than the period {period!r}")
            break
        if abs(s64[k + 1] - want) > tol:
            m.fail("next_start", f"node {name} (rate {rate}): vertex {k + 1} starts at {float(s[k + 1])!r}, expected max(end, start + period) = {want!r}")
            break
    if (e < s).any():
        k = int(onp.argmax(e < s))
        m.fail("duration", f"node {name}: vertex {k} ends at {float(e[k])!r} before it starts at {float(s[k])!r} (negative computation delay)")
    d = det_value(comp)
    if d is not None:
        bad = [k for k in range(n) if abs(e64[k] - s64[k] - d) > _tol(m.exact, e64[k])]
        if bad:
            k = bad[0]
            m.fail("duration", f"node {name}: vertex {k} lasts {e64[k] - s64[k]!r}, the computation delay is {d!r}")
    if n > 1 and ((e64[:-1] - s64[:-1]) > period).any():
        m.count("overrun_steps", int(((e64[:-1] - s64[:-1]) > period).sum()))


def first_step(skip, starts, rseq, r):
    """specification: first receiver step starting at or after (strictly after if skip) r, if that is a real step"""
    import numpy as onp

    cand = onp.nonzero(starts > r if skip else starts >= r)[0]
    if cand.size and rseq[cand[0]] >= 0:
        return int(cand[0])
    return -1


def check_edge(m, key, e, vo, vi, skip, comm, ts_max32):
    import numpy as onp

    o, i = key
    seq_out, seq_in, ts_recv = e
    oseq, ostart, oend = vo
    iseq, istart, iend = vi
    tag = f"edge {o}->{i} (skip={skip})"
    if not (len(seq_out) == len(seq_in) == len(ts_recv) == len(oseq)):
        m.fail("edge_shape", f"{tag}: edge arrays have lengths {len(seq_out)},{len(seq_in)},{len(ts_recv)}, the sender has {len(oseq)} vertices")
        return
    sent = oseq >= 0
    ns = int(sent.sum())
    m.count("messages", ns)
    if not onp.array_equal(seq_out[sent], oseq[sent]) or not onp.all(seq_out[~sent] == -1):
        m.fail("seq_out", f"{tag}: seq_out={seq_out.tolist()} does not repeat the sender's valid sequence numbers {oseq.tolist()}")
    if not (onp.all(seq_in[~sent] == -1) and onp.all(ts_recv[~sent] == -1)):
        k = int(onp.argmax(~sent & ((seq_in != -1) | (ts_recv != -1))))
        m.fail("unsent", f"{tag}: message {k} was never sent (sender vertex masked) but has seq_in={int(seq_in[k])}, ts_recv={float(ts_recv[k])!r}")
    early = sent & (ts_recv < oend)
    if early.any():
        k = int(onp.argmax(early))
        m.fail("recv_after_send", f"{tag}: message {k} received at {float(ts_recv[k])!r} before its sender finished at {float(oend[k])!r}")
    rs = ts_recv[sent]
    if (onp.diff(rs) < 0).any():
        k = int(onp.argmax(onp.diff(rs) < 0))
        m.fail("recv_fifo", f"{tag}: arrival times go backwards: message {k} at {float(rs[k])!r}, message {k + 1} at {float(rs[k + 1])!r}")
    d = det_value(comm)
    if d is not None and ns:
        want = onp.maximum.accumulate(oend.astype(onp.float64)[sent] + d)
        bad = [k for k in range(ns) if abs(float(rs[k]) - want[k]) > _tol(m.exact, want[k])]
        if bad:
            k = bad[0]
            m.fail("recv_delay", f"{tag}: message {k} sent at {float(oend[k])!r} arrives at {float(rs[k])!r}, expected sender end + delay {d!r} = {want[k]!r}")
    for k in onp.nonzero(sent)[0]:
        r = ts_recv[k]
        want = first_step(skip, istart, iseq, r)
        got = int(seq_in[k])
        if got >= 0:
            m.count("assigned")
            if 0 <= got < len(istart) and istart[got] == r:
                m.count("tie_arrival_eq_start")
        elif want == -1:
            m.count("unassigned_ok")
        if ((istart == r) & (iseq >= 0)).any():
            m.count("tie_candidates" + ("_skip" if skip else ""))
        if got != want:
            ws = float(istart[want]) if want >= 0 else None
            gs = float(istart[got]) if 0 <= got < len(istart) else None
            m.fail(
                "assign_first",
                f"{tag}: message {int(k)} arriving at {float(r)!r} is assigned to receiver step {got} (start {gs!r}); the first step starting "
                f"{'strictly after' if skip else 'at or after'} the arrival is {want} (start {ws!r})",
            )
            break
        if got >= 0:
            if istart[got] < ostart[k] or (skip and not istart[got] > ostart[k]):
                m.fail("potential", f"{tag}: message {int(k)}: receiver step {got} starts at {float(istart[got])!r}, not after the sender step start {float(ostart[k])!r}")
                break


def check_acyclic(m, V, E):
    succ, indeg = {}, {}
    nv = {n: int((v[0] >= 0).sum()) for n, v in V.items()}
    for n, c in nv.items():
        for k in range(c):
            succ[(n, k)] = []
            indeg[(n, k)] = 0
    edges = []
    for n, c in nv.items():
        edges += [((n, k), (n, k + 1)) for k in range(c - 1)]
    for (o, i), (seq_out, seq_in, _) in E.items():
        if o not in V or i not in V:
            continue
        for k in range(len(seq_out)):
            if seq_out[k] >= 0 and seq_in[k] >= 0:
                edges.append(((o, int(seq_out[k])), (i, int(seq_in[k]))))
    for a, b in edges:
        if a in succ and b in succ:
            succ[a].append(b)
            indeg[b] += 1
    todo = [x for x, d in indeg.items() if d == 0]
    seen = 0
    while todo:
        x = todo.pop()
        seen += 1
        for y in succ[x]:
            indeg[y] -= 1
            if indeg[y] == 0:
                todo.append(y)
    m.count("graph_edges", len(edges))
    if seen != len(succ):
        left = sorted(x for x, d in indeg.items() if d > 0)[:6]
        m.fail("acyclic", f"the graph has a cycle (vertices that cannot be ordered: {left})")


def _f(x):
    return float(x)


def _cmds_for_episode(spec, V, E, ts_max32, phases, only_nodes=None, only_edges=None, limit=10):
    """commands + expected answers for the Lean model, from one episode of real data"""
    import numpy as onp

    cmds = []
    rates = {n["name"]: n["rate"] for n in spec["nodes"]}
    skips = {(c["out"], c["in"]): c["skip"] for c in spec["conns"]}
    for n, (seq, s, e) in V.items():
        if only_nodes is not None and n not in only_nodes:
            continue
        if len(cmds) >= limit:
            break
        s64, e64 = s.astype(onp.float64), e.astype(onp.float64)
        cmds.append(
            dict(
                cmd=dict(cmd="c12.scan", rate=float(rates[n]), tsMax=_f(ts_max32), phase=_f(s64[0]), delays=[_f(x) for x in (e64 - s64)]),
                expect=dict(kind="scan", node=n, seq=[int(x) for x in seq], start=[_f(x) for x in s64], end=[_f(x) for x in e64], tsMax=_f(ts_max32)),
            )
        )
    ne = 0
    for (o, i), (seq_out, seq_in, ts_recv) in E.items():
        if only_edges is not None and (o, i) not in only_edges:
            continue
        if ne >= limit or (o, i) not in skips:
            continue
        oseq, ostart, oend = V[o]
        iseq, istart, iend = V[i]
        sent = oseq >= 0
        e64, r64 = oend.astype(onp.float64), ts_recv.astype(onp.float64)
        d = onp.where(sent, r64 - e64, 0.0)
        if not onp.all(onp.where(sent, e64 + d == r64, True)) or (d < 0).any():
            continue  # delay not recoverable exactly from the stored float32 values: no correspondence for this edge
        ne += 1
        cmds.append(
            dict(
                cmd=dict(cmd="c12.edge", skip=bool(skips[(o, i)]), tsMax=_f(ts_max32), senderSeq=[int(x) for x in oseq], senderEnd=[_f(x) for x in e64],
                         delays=[_f(x) for x in d], recvStart=[_f(x) for x in istart.astype(onp.float64)], recvSeq=[int(x) for x in iseq]),
                expect=dict(kind="edge", edge=[o, i], seqOut=[int(x) for x in seq_out], seqIn=[int(x) for x in seq_in], tsRecv=[_f(x) for x in r64]),
            )
        )
    return cmds


def _episode(G, ep, single=False):
    V, E = G
    if single:
        return V, E
    return {n: tuple(a[ep] for a in v) for n, v in V.items()}, {k: tuple(a[ep] for a in e) for k, e in E.items()}


def run_case(spec, want_cmds=True):
    """One graph set: generate, check every episode, then augment sub-graphs of it in several ways and check again."""
    import jax
    import numpy as onp
    from rex.artificial import augment_graphs, generate_graphs
    from rex.base import Edge, Graph, Vertex

    out = dict(fails=[], stats={}, cmds=[], feats=[])

    def merge(m):
        out["fails"] += m.fails
        for k, v in m.stats.items():
            out["stats"][k] = out["stats"].get(k, 0) + v

    nodes = build_nodes(spec)
    phases = {n: float(nodes[n].phase) for n in nodes}
    rates = {n["name"]: n["rate"] for n in spec["nodes"]}
    comps = {n["name"]: n["comp"] for n in spec["nodes"]}
    conns = {(c["out"], c["in"]): c for c in spec["conns"]}
    ts_max, eps = spec["ts_max"], spec["eps"]
    ts_max32 = onp.float32(ts_max)
    try:
        g = generate_graphs(nodes, ts_max, rng=jax.random.PRNGKey(spec["seed"]), num_episodes=eps)
    except Exception as ex:  # the implementation raised on a valid configuration
        out["impl_error"] = f"generate_graphs raised {type(ex).__name__}: {str(ex)[:300]}"
        return out
    G = _np_graph(g)
    m = Mon(spec, "generate")
    if set(G[0]) != set(nodes) or set(G[1]) != set(conns):
        m.fail("keys", f"generated graph has vertices {sorted(G[0])} / edges {sorted(G[1])}, the nodes are {sorted(nodes)} / connections {sorted(conns)}")
    for n, v in G[0].items():
        if v[0].shape[0] != eps or v[0].dtype.kind != "i":
            m.fail("shape", f"node {n}: seq has shape {v[0].shape} dtype {v[0].dtype}, expected {eps} episodes of integers")
    merge(m)
    for ep in range(eps):
        m = Mon(spec, f"generate/episode {ep}")
        V, E = _episode(G, ep)
        for n in V:
            check_vertices(m, n, V[n], rates[n], phases[n], ts_max32, comps[n])
        for k in E:
            if k in conns and k[0] in V and k[1] in V:
                check_edge(m, k, E[k], V[k[0]], V[k[1]], conns[k]["skip"], conns[k]["comm"], ts_max32)
        check_acyclic(m, V, E)
        merge(m)
        if ep == 0 and want_cmds:
            out["cmds"] += _cmds_for_episode(spec, V, E, ts_max32, phases)

    # ---------------- augment
    for var in spec.get("augment", []):
        keep_n = var["keep_nodes"]
        keep_e = [tuple(x) for x in var["keep_edges"]]
        where = f"augment[{var['kind']} keep={keep_n}]"
        m = Mon(spec, where)
        if var["kind"] == "ragged":
            # existing graph = padded stack (Graph.stack pads with -1) of single episodes generated with different horizons
            parts = [g[0]]
            for j, tm in enumerate(var["ts_maxs"][1:]):
                gj = generate_graphs(nodes, tm, rng=jax.random.PRNGKey(spec["seed"] + 17 + j), num_episodes=1)
                parts.append(gj[0])
            base = Graph.stack(parts)
        else:
            base = g
        sub = Graph(vertices={n: base.vertices[n] for n in keep_n}, edges={k: base.edges[k] for k in keep_e})
        if var["kind"] == "single":
            sub = sub[var.get("episode", 0)]
        single = var["kind"] == "single"
        try:
            aug = augment_graphs(sub, nodes, rng=jax.random.PRNGKey(var["seed"]))
        except Exception as ex:
            out["impl_error"] = f"{where}: augment_graphs raised {type(ex).__name__}: {str(ex)[:300]}"
            return out
        S, A = _np_graph(sub), _np_graph(aug)
        # existing vertices / edges are returned unchanged; exactly the missing keys are added
        if set(A[0]) != set(S[0]) | set(nodes):
            m.fail("augment_keys", f"vertices after augmenting: {sorted(A[0])}, expected existing {sorted(S[0])} + nodes {sorted(nodes)}")
        if set(A[1]) != set(S[1]) | set(conns):
            m.fail("augment_keys", f"edges after augmenting: {sorted(A[1])}, expected existing {sorted(S[1])} + connections {sorted(conns)}")
        for n in S[0]:
            if n in A[0] and not all(a.shape == b.shape and a.dtype == b.dtype and onp.array_equal(a, b) for a, b in zip(S[0][n], A[0][n])):
                m.fail("augment_keeps", f"existing vertices of node {n} were changed by augmenting")
        for k in S[1]:
            if k in A[1] and not all(a.shape == b.shape and a.dtype == b.dtype and onp.array_equal(a, b) for a, b in zip(S[1][k], A[1][k])):
                m.fail("augment_keeps", f"existing edge {k} was changed by augmenting")
        m.count("augment_kept_vertices", len(S[0]))
        m.count("augment_new_vertices", len(set(nodes) - set(S[0])))
        m.count("augment_new_edges", len(set(conns) - set(S[1])))
        merge(m)
        n_eps = 1 if single else next(iter(S[0].values()))[0].shape[0]
        for ep in range(n_eps):
            m = Mon(spec, f"{where}/episode {ep}")
            SV, SE = _episode(S, ep, single)
            AV, AE = _episode(A, ep, single)
            tmx = onp.float32(max(float(v[2].max()) for v in SV.values()))  # horizon of an augmented graph = latest end among existing vertices
            for n in AV:
                if n not in SV and n in rates:
                    check_vertices(m, n, AV[n], rates[n], phases[n], tmx, comps[n])
            for k in AE:
                if k not in SE and k in conns and k[0] in AV and k[1] in AV:
                    check_edge(m, k, AE[k], AV[k[0]], AV[k[1]], conns[k]["skip"], conns[k]["comm"], tmx)
            check_acyclic(m, AV, AE)
            merge(m)
            if ep == 0 and want_cmds:
                out["cmds"] += _cmds_for_episode(spec, AV, AE, tmx, phases, only_nodes=set(AV) - set(SV), only_edges=set(AE) - set(SE), limit=4)
    out["feats"] = sorted(k for k, v in out["stats"].items() if v)
    return out

