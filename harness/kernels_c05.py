"""Static operation-order kernels of the stop() handshake (C05)."""
ASYNC = "rex/asynchronous.py"

KERNELS = {
    "Lifecycle": [
        # supervisor side: publish the action future, publish the observation, re-check the running state, only then wait
        dict(name="sync_checks_state_after_publish", file=ASYNC, func="_Synchronizer._async_step",
             loc=("stmt_order", ["self._q_act.append(self._f_act)", "self._f_obs.set_result(step_state)", "if self._supervisor._state not in [Async.RUNNING]", "if not self._must_reset"]), props=["C05"]),
        # user side: flip every node to STOPPING (and queue its stopping task) before looking for the pending action future
        dict(name="stop_flips_before_cancel", file=ASYNC, func="AsyncGraph.stop",
             loc=("stmt_order", ["fs = [n._stop(timeout=timeout) for n in self._async_nodes.values()]", "try:", "[f.result() for f in fs]"]), props=["C05"]),
        # a wrapper flips to STOPPING before it queues its stopping task (which ends by setting STOPPED): the other order lets the task
        # finish first and the flip overwrite STOPPED
        dict(name="node_flips_before_stopping_task", file=ASYNC, func="_AsyncNodeWrapper._stop",
             loc=("stmt_order", ["with self._lock:", "self._state = Async.STOPPING", "f = self._submit(_stopping, stopping=True)"]), props=["C05"]),
        dict(name="conn_flips_before_stopping_task", file=ASYNC, func="_AsyncConnectionWrapper.stop",
             loc=("stmt_order", ["with self._lock:", "self._state = Async.STOPPING", "f = self._submit(_stopping, stopping=True)"]), props=["C05"]),
        # a node is RUNNING before it hands its first task to its worker (the worker drops the first output timestamp otherwise)
        dict(name="node_running_before_first_task", file=ASYNC, func="_AsyncNodeWrapper._start",
             loc=("stmt_order", ["self._state = Async.RUNNING", "_f = self._submit(self.push_scheduled_ts)"]), props=["C05"]),
        # the read of the pending-action deque is a single indexing operation guarded by IndexError (no separate length check)
        dict(name="stop_cancel_atomic", file=ASYNC, func="AsyncGraph.stop",
             loc=("stmt_order", ["try:", "self._synchronizer.action[-1].cancel()"], ["if len(self._synchronizer.action) > 0"]), props=["C05"]),
        # _submit refuses tasks once the state has flipped (unless stopping=True)
        dict(name="node_submit_allowed", file=ASYNC, func="_AsyncNodeWrapper._submit", loc=("iftest", 0), result="Bool", rename={"self._state": "state"},
             consts={"Async.READY": "1", "Async.STARTING": "2", "Async.READY_TO_START": "3", "Async.RUNNING": "4", "Async.STOPPING": "5", "Async.STOPPED": "0"}, bools=["stopping"], params=["state", "stopping"], props=["C05"]),
        dict(name="conn_submit_allowed", file=ASYNC, func="_AsyncConnectionWrapper._submit", loc=("iftest", 0), result="Bool", rename={"self._state": "state"},
             consts={"Async.READY": "1", "Async.STARTING": "2", "Async.READY_TO_START": "3", "Async.RUNNING": "4", "Async.STOPPING": "5", "Async.STOPPED": "0"}, bools=["stopping"], params=["state", "stopping"], props=["C05"]),
        # messages of an earlier episode are filtered by the episode number
        dict(name="ts_input_prev_eps", file=ASYNC, func="_AsyncConnectionWrapper.push_ts_input", loc=("iftest", 1), result="Bool", ty="Int",
             rename={"header.eps": "msg_eps", "self.input_node.eps": "node_eps"}, params=["msg_eps", "node_eps"], props=["C05"]),
        dict(name="input_prev_eps", file=ASYNC, func="_AsyncConnectionWrapper.push_input", loc=("iftest", 1), result="Bool", ty="Int",
             rename={"header_sent.eps": "msg_eps", "self.input_node.eps": "node_eps"}, params=["msg_eps", "node_eps"], props=["C05"]),
        # ---- trigger discipline of the connection handlers (no lost wake-up): a handler that served an item checks again ...
        dict(name="selection_rechecks", file=ASYNC, func="_AsyncConnectionWrapper.push_selection",
             loc=("stmt_order", ["self.input_node._submit(self.input_node.push_step)", "self.push_selection()"]), props=["C05"]),
        dict(name="ts_max_rechecks", file=ASYNC, func="_AsyncConnectionWrapper.push_ts_max",
             loc=("stmt_order", ["self.input_node._submit(self.input_node.push_phase_shift)", "self.push_ts_max()"]), props=["C05"]),
        dict(name="expected_nonblocking_rechecks", file=ASYNC, func="_AsyncConnectionWrapper.push_expected_nonblocking",
             loc=("stmt_order", ["self.q_expected_select.append((ts_step, num_msgs))", "self.push_selection()", "self.push_expected_nonblocking()"]), props=["C05"]),
        # ... and whoever appends to a queue such a handler reads calls the handler afterwards
        dict(name="expected_blocking_triggers", file=ASYNC, func="_AsyncConnectionWrapper.push_expected_blocking",
             loc=("stmt_order", ["self.q_expected_ts_max.append(num_msgs)", "self.push_ts_max()", "self.q_expected_select.append((scheduled_ts, num_msgs))", "self.push_selection()"]), props=["C05"]),
        dict(name="ts_input_triggers", file=ASYNC, func="_AsyncConnectionWrapper.push_ts_input",
             loc=("stmt_order", ["self.q_ts_input.append((seq, recv_sc))", "self.push_ts_max()", "self.push_expected_nonblocking()"]), props=["C05"]),
        dict(name="zip_triggers_selection", file=ASYNC, func="_AsyncConnectionWrapper.push_zip",
             loc=("stmt_order", ["self.q_msgs.append((record_msg, msg))", "self.push_selection()"]), props=["C05"]),
        # handlers that join one item from each of several queues (one unit per call): every append is followed by a call
        dict(name="zip_called_after_delay", file=ASYNC, func="_AsyncConnectionWrapper.push_ts_input",
             loc=("stmt_order", ["self.q_zip_delay.append(delay_sc)", "self.push_zip()"]), props=["C05"]),
        dict(name="zip_called_after_msg", file=ASYNC, func="_AsyncConnectionWrapper.push_input",
             loc=("stmt_order", ["self.q_zip_msgs.append((msg, header_sent))", "self.push_zip()"]), props=["C05"]),
        dict(name="step_called_after_grouped", file=ASYNC, func="_AsyncConnectionWrapper.push_selection",
             loc=("stmt_order", ["self.q_grouped.append(grouped[-self.connection.window:])", "self.input_node._submit(self.input_node.push_step)"]), props=["C05"]),
        dict(name="step_called_after_start", file=ASYNC, func="_AsyncNodeWrapper.push_phase_shift",
             loc=("stmt_order", ["self.q_ts_start.append((tick, ts_start, delay, record_step))", "self.push_step()"]), props=["C05"]),
        # push_phase_shift: the scheduled tick and every blocking arrival are followed by a call; the previous end time is appended by the
        # success itself (after it has been popped) and once at start-up
        dict(name="shift_called_after_scheduled", file=ASYNC, func="_AsyncNodeWrapper.push_scheduled_ts",
             loc=("stmt_order", ["self.q_ts_scheduled.append((tick, scheduled_ts))", "self.push_phase_shift()"]), props=["C05"]),
        dict(name="shift_called_after_ts_max", file=ASYNC, func="_AsyncConnectionWrapper.push_ts_max",
             loc=("stmt_order", ["self.q_ts_max.append(ts_max)", "self.input_node._submit(self.input_node.push_phase_shift)"]), props=["C05"]),
        dict(name="shift_success_provides_end_prev", file=ASYNC, func="_AsyncNodeWrapper.push_phase_shift",
             loc=("stmt_order", ["ts_end_prev = self.q_ts_end_prev.popleft()", "self.q_ts_end_prev.append(ts_output)"]), props=["C05"]),
        dict(name="start_provides_end_prev", file=ASYNC, func="_AsyncNodeWrapper._start",
             loc=("stmt_order", ["self.q_ts_end_prev.append(0.0)", "_f = self._submit(self.push_scheduled_ts)"]), props=["C05"]),
        dict(name="expected_blocking_called_after_next_step", file=ASYNC, func="_AsyncNodeWrapper.push_scheduled_ts",
             loc=("stmt_order", ["i.q_ts_next_step.append((tick, scheduled_ts))", "i._submit(i.push_expected_blocking)"]), props=["C05"]),
        dict(name="next_step_triggers_expected_nonblocking", file=ASYNC, func="_AsyncNodeWrapper.push_phase_shift",
             loc=("stmt_order", ["i.q_ts_next_step.append((tick, ts_start))", "i._submit(i.push_expected_nonblocking)"]), props=["C05"]),
    ],
}
