"""Static operation-order kernels of the stop() handshake (C05)."""
ASYNC = "rex/asynchronous.py"

KERNELS = {
    "Lifecycle": [
        # supervisor side: publish the action future, publish the observation, re-check the running state, only then wait
        dict(name="sync_checks_state_after_publish", file=ASYNC, func="_Synchronizer._async_step",
             loc=("stmt_order", ["self._q_act.append(self._f_act)", "self._f_obs.set_result(step_state)", "if self._supervisor._state not in [Async.RUNNING]", "if not self._must_reset"]), props=["C05"]),
        # user side: flip every node to STOPPING (and queue its stopping task) before looking for the pending action future
        dict(name="stop_flips_before_cancel", file=ASYNC, func="AsyncGraph.stop",
             loc=("stmt_order", ["fs = [n._stop(timeout=timeout) for n in self._async_nodes.values()]", "try:", "[f.result() for f in fs]"]), props=["C05"]),
        # the read of the pending-action deque is a single indexing operation guarded by IndexError (no separate length check)
        dict(name="stop_cancel_atomic", file=ASYNC, func="AsyncGraph.stop",
             loc=("stmt_order", ["try:", "self._synchronizer.action[-1].cancel()"], ["if len(self._synchronizer.action) > 0"]), props=["C05"]),
        # _submit refuses tasks once the state has flipped (unless stopping=True)
        dict(name="node_submit_allowed", file=ASYNC, func="_AsyncNodeWrapper._submit", loc=("iftest", 0), result="Bool", rename={"self._state": "state"},
             consts={"Async.READY": "1", "Async.STARTING": "2", "Async.READY_TO_START": "3", "Async.RUNNING": "4", "Async.STOPPING": "5", "Async.STOPPED": "0"}, bools=["stopping"], params=["state", "stopping"], props=["C05"]),
        dict(name="conn_submit_allowed", file=ASYNC, func="_AsyncConnectionWrapper._submit", loc=("iftest", 0), result="Bool", rename={"self._state": "state"},
             consts={"Async.READY": "1", "Async.STARTING": "2", "Async.READY_TO_START": "3", "Async.RUNNING": "4", "Async.STOPPING": "5", "Async.STOPPED": "0"}, bools=["stopping"], params=["state", "stopping"], props=["C05"]),
        # messages of an earlier episode are filtered by the episode number
        dict(name="ts_input_prev_eps", file=ASYNC, func="_AsyncConnectionWrapper.push_ts_input", loc=("iftest", 1), result="Bool", ty="Int",
             rename={"header.eps": "msg_eps", "self.input_node.eps": "node_eps"}, params=["msg_eps", "node_eps"], props=["C05"]),
        dict(name="input_prev_eps", file=ASYNC, func="_AsyncConnectionWrapper.push_input", loc=("iftest", 1), result="Bool", ty="Int",
             rename={"header_sent.eps": "msg_eps", "self.input_node.eps": "node_eps"}, params=["msg_eps", "node_eps"], props=["C05"]),
    ],
}
