"""Worker-side task functions for the runtime checks."""
import random
import time

import rt


def pilot_async(seed, nsteps=12, tie=False):
    rng = random.Random(seed)
    spec = rt.rand_spec(rng, tie_stream=tie)
    t0 = time.time()
    run = rt.AsyncRun(spec)
    t1 = time.time()
    rec, obs, gs = run.episode(nsteps, eps=0, api=rng.choice(["run", "step"]))
    d = rt.episode_record_to_dict(rec)
    t2 = time.time()
    return dict(spec=spec, feats=sorted(rt.spec_features(spec)), warm=t1 - t0, ep=t2 - t1, nsteps={k: v["n"] for k, v in d.items()})


def async_case(seed, nsteps=10, tie=False, api=None, neps=1):
    """One random graph: run `neps` async episodes, return the real records + the machine cfg for the Lean model."""
    rng = random.Random(seed)
    spec = rt.rand_spec(rng, tie_stream=tie)
    run = rt.AsyncRun(spec)
    out = dict(spec=spec, feats=sorted(rt.spec_features(spec)), episodes=[])
    for e in range(neps):
        a = api or rng.choice(["run", "step"])
        rec, obs, gs = run.episode(nsteps, eps=e, api=a)
        d = rt.episode_record_to_dict(rec)
        counts = {k: v["n"] for k, v in d.items()}
        cfg = rt.machine_cfg(run, counts, user_steps=nsteps)
        out["episodes"].append(dict(api=a, record=d, cfg=cfg, obs=obs))
    return out


class Perturb:
    """Controller for the REX_VERIF gates: delays tasks at their start according to a policy (seeded)."""

    def __init__(self, policy, seed, target=None):
        import threading

        self.policy, self.target = policy, target
        self.rnd = random.Random(seed)
        self.lock = threading.Lock()
        self.n = 0

    def __call__(self, name, ctx):
        if name != "task_start":
            return
        owner = ctx["owner"]
        is_conn = hasattr(owner, "connection")
        label = (owner.connection.output_node.name + "->" + owner.connection.input_node.name) if is_conn else owner.node.name
        fn = ctx["fn"]
        p = self.policy
        d = 0.0
        if p == "random":
            with self.lock:
                d = self.rnd.random() * 0.002 if self.rnd.random() < 0.5 else 0.0
        elif p == "slow_conns":
            d = 0.0015 if is_conn else 0.0
        elif p == "slow_nodes":
            d = 0.0015 if not is_conn else 0.0
        elif p == "starve":
            d = 0.004 if label == self.target else 0.0
        elif p == "slow_ts_input":
            d = 0.003 if fn == "push_ts_input" else 0.0
        elif p == "slow_step":
            d = 0.003 if fn == "push_step" else 0.0
        elif p == "slow_sched":
            d = 0.003 if fn in ("push_scheduled_ts", "push_phase_shift") else 0.0
        self.n += 1
        if d > 0:
            time.sleep(d)


def async_schedules(seed, nsteps=10, tie=False, variants=None):
    """One graph state, several executions of the same episode under different thread schedules, real-time factors
    and driving APIs. Returns all records and the machine configuration."""
    import sys

    from rex import _verif

    rng = random.Random(seed)
    spec = rt.rand_spec(rng, tie_stream=tie)
    run = rt.AsyncRun(spec)
    labels = [n["name"] for n in spec["nodes"]] + [f"{c['src']}->{c['dst']}" for c in spec["conns"]]
    if variants is None:
        variants = [dict(policy="none", rtf=0, api="run"), dict(policy="random", rtf=0, api="step"), dict(policy="slow_conns", rtf=0, api="run"),
                    dict(policy="slow_nodes", rtf=0, api="step"), dict(policy="starve", rtf=0, api="run", target=rng.choice(labels)),
                    dict(policy="slow_ts_input", rtf=0, api="run"), dict(policy="none", rtf=20, api="step"), dict(policy="switch", rtf=0, api="run")]
    out = dict(spec=spec, feats=sorted(rt.spec_features(spec)), variants=[], cfg=None)
    old_si = sys.getswitchinterval()
    counts = {n["name"]: 0 for n in spec["nodes"]}
    for e, v in enumerate(variants):
        ctl = Perturb(v["policy"], seed * 1000 + e, v.get("target"))
        _verif.set_controller(ctl if v["policy"] not in ("none", "switch") else None)
        sys.setswitchinterval(1e-6 if v["policy"] == "switch" else old_si)
        run.graph.real_time_factor = v["rtf"]
        try:
            rec, obs, gs = run.episode(nsteps, eps=0, api=v["api"])
        finally:
            _verif.set_controller(None)
            sys.setswitchinterval(old_si)
        d = rt.episode_record_to_dict(rec)
        out["variants"].append(dict(variant=v, record=d, obs=obs, gated=ctl.n))
        for k in d:
            counts[k] = max(counts[k], d[k]["n"])
    out["cfg"] = rt.machine_cfg(run, counts, user_steps=nsteps)
    return out
