"""Worker-side task functions for the runtime checks."""
import random
import time

import rt


def pilot_async(seed, nsteps=12, tie=False):
    rng = random.Random(seed)
    spec = rt.rand_spec(rng, tie_stream=tie)
    t0 = time.time()
    run = rt.AsyncRun(spec)
    t1 = time.time()
    rec, obs, gs = run.episode(nsteps, eps=0, api=rng.choice(["run", "step"]))
    d = rt.episode_record_to_dict(rec)
    t2 = time.time()
    return dict(spec=spec, feats=sorted(rt.spec_features(spec)), warm=t1 - t0, ep=t2 - t1, nsteps={k: v["n"] for k, v in d.items()})
