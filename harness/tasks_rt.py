"""Worker-side task functions for the runtime checks."""
import random
import time

import rt


def pilot_async(seed, nsteps=12, tie=False):
    rng = random.Random(seed)
    spec = rt.rand_spec(rng, tie_stream=tie)
    t0 = time.time()
    run = rt.AsyncRun(spec)
    t1 = time.time()
    rec, obs, gs = run.episode(nsteps, eps=0, api=rng.choice(["run", "step"]))
    d = rt.episode_record_to_dict(rec)
    t2 = time.time()
    return dict(spec=spec, feats=sorted(rt.spec_features(spec)), warm=t1 - t0, ep=t2 - t1, nsteps={k: v["n"] for k, v in d.items()})


def async_case(seed, nsteps=10, tie=False, api=None, neps=1):
    """One random graph: run `neps` async episodes, return the real records + the machine cfg for the Lean model."""
    rng = random.Random(seed)
    spec = rt.rand_spec(rng, tie_stream=tie)
    run = rt.AsyncRun(spec)
    out = dict(spec=spec, feats=sorted(rt.spec_features(spec)), episodes=[])
    from tasks_c05 import CallWatchdog

    wd = CallWatchdog(120, dict(spec=spec, seed=seed))  # an episode that does not finish (token starvation of the graph, see C05) ends the task at once
    for e in range(neps):
        a = api or rng.choice(["run", "step"])
        rec, obs, gs = wd(f"episode {e} ({a})", run.episode, nsteps, e, a)
        d = rt.episode_record_to_dict(rec)
        counts = {k: v["n"] for k, v in d.items()}
        cfg = rt.machine_cfg(run, counts, user_steps=nsteps)
        out["episodes"].append(dict(api=a, record=d, cfg=cfg, obs=obs))
    return out


class Perturb:
    """Controller for the REX_VERIF gates: delays tasks at their start according to a policy (seeded)."""

    def __init__(self, policy, seed, target=None):
        import threading

        self.policy, self.target = policy, target
        self.rnd = random.Random(seed)
        self.lock = threading.Lock()
        self.n = 0
        self.slept = 0.0
        self.stopping = False
        self.budget = 1.5  # seconds of injected delay per episode: a free-running source queues thousands of connection tasks

    def new_episode(self):
        self.slept = 0.0
        self.stopping = False

    def __call__(self, name, ctx):
        if name == "stop_flipped":
            self.stopping = True  # let the backlog drain at full speed once stop() has begun
            return
        if name == "submitted" and self.policy == "slow_start":
            # ... and right after it has handed a node its first task, before the rest of `_start` runs
            import threading

            if ctx["fn"] == "push_scheduled_ts" and threading.current_thread() is threading.main_thread():
                self.n += 1
                time.sleep(0.02)
            return
        if name == "submit" and self.policy == "slow_start":
            # AsyncGraph.start() starts the nodes one after another from the user's thread; pausing it before a node's first tick lets the
            # nodes started earlier run ahead into connections whose receiver has not been started yet
            import threading

            if ctx["fn"] == "push_scheduled_ts" and threading.current_thread() is threading.main_thread():
                self.n += 1
                time.sleep(0.03)
            return
        if name != "task_start" or self.stopping or self.slept >= self.budget:
            return
        owner = ctx["owner"]
        is_conn = hasattr(owner, "connection")
        label = (owner.connection.output_node.name + "->" + owner.connection.input_node.name) if is_conn else owner.node.name
        fn = ctx["fn"]
        p = self.policy
        d = 0.0
        if p == "random":
            with self.lock:
                d = self.rnd.random() * 0.002 if self.rnd.random() < 0.5 else 0.0
        elif p == "slow_conns":
            d = 0.0015 if is_conn else 0.0
        elif p == "slow_nodes":
            d = 0.0015 if not is_conn else 0.0
        elif p == "starve":
            d = 0.004 if label == self.target else 0.0
        elif p == "slow_ts_input":
            d = 0.003 if fn == "push_ts_input" else 0.0
        elif p == "slow_step":
            d = 0.003 if fn == "push_step" else 0.0
        elif p == "slow_sched":
            d = 0.003 if fn in ("push_scheduled_ts", "push_phase_shift") else 0.0
        self.n += 1
        if d > 0:
            self.slept += d
            time.sleep(d)


def async_schedules(seed, nsteps=10, tie=False, variants=None, family="random"):
    """One graph state, several executions of the same episode under different thread schedules, real-time factors
    and driving APIs. Returns all records and the machine configuration."""
    import sys

    from rex import _verif

    rng = random.Random(seed)
    spec = rt.spec_tie_advance(rng) if family == "tie_advance" else (rt.spec_fifo_blocking(rng) if family == "fifo_blocking" else rt.rand_spec(rng, tie_stream=tie))
    run = rt.AsyncRun(spec)
    labels = [n["name"] for n in spec["nodes"]] + [f"{c['src']}->{c['dst']}" for c in spec["conns"]]
    if family == "tie_advance" and variants is None:
        variants = [dict(policy="none", rtf=0, api="run"), dict(policy="starve", rtf=0, api="run", target="n1"), dict(policy="starve", rtf=0, api="step", target="n2"),
                    dict(policy="starve", rtf=0, api="run", target="n1->n2"), dict(policy="slow_ts_input", rtf=0, api="step"), dict(policy="slow_conns", rtf=0, api="run"),
                    dict(policy="slow_nodes", rtf=0, api="run"), dict(policy="random", rtf=0, api="step"), dict(policy="slow_start", rtf=0, api="run")]
    if family == "fifo_blocking" and variants is None:
        variants = [dict(policy="none", rtf=0, api="run"), dict(policy="starve", rtf=0, api="run", target="n0"), dict(policy="starve", rtf=0, api="step", target="n0->n1"),
                    dict(policy="slow_ts_input", rtf=0, api="run"), dict(policy="slow_nodes", rtf=0, api="step"), dict(policy="slow_sched", rtf=0, api="run"),
                    dict(policy="random", rtf=0, api="step"), dict(policy="slow_start", rtf=0, api="run")]
    if variants is None:
        variants = [dict(policy="none", rtf=0, api="run"), dict(policy="random", rtf=0, api="step"), dict(policy="slow_conns", rtf=0, api="run"),
                    dict(policy="slow_nodes", rtf=0, api="step"), dict(policy="starve", rtf=0, api="run", target=rng.choice(labels)),
                    dict(policy="slow_ts_input", rtf=0, api="run"), dict(policy="none", rtf=20, api="step"), dict(policy="switch", rtf=0, api="run"), dict(policy="slow_start", rtf=0, api="step"),
                    dict(policy="slow_start", rtf=0, api="run")]
    out = dict(spec=spec, feats=sorted(rt.spec_features(spec)), variants=[], cfg=None)
    old_si = sys.getswitchinterval()
    counts = {n["name"]: 0 for n in spec["nodes"]}
    from tasks_c05 import CallWatchdog

    wd = CallWatchdog(120, dict(spec=spec, seed=seed))
    for e, v in enumerate(variants):
        ctl = Perturb(v["policy"], seed * 1000 + e, v.get("target"))
        _verif.set_controller(ctl if v["policy"] not in ("none", "switch") else None)
        sys.setswitchinterval(1e-6 if v["policy"] == "switch" else old_si)
        run.graph.real_time_factor = v["rtf"]
        try:
            rec, obs, gs = wd(f"variant {v}", run.episode, nsteps, 0, v["api"])
        finally:
            _verif.set_controller(None)
            sys.setswitchinterval(old_si)
        d = rt.episode_record_to_dict(rec)
        out["variants"].append(dict(variant=v, record=d, obs=obs, gated=ctl.n))
        for k in d:
            counts[k] = max(counts[k], d[k]["n"])
    out["cfg"] = rt.machine_cfg(run, counts, user_steps=nsteps)
    return out


# ------------------------------------------------------------------------------------------------
# compiled runtime


def _async_experiment(rng, spec, lengths, count_calls=False, jit_step=True):
    """Run one async episode per entry of `lengths`; returns (run, [EpisodeRecord], [record dict]) or None if some
    node/connection stayed empty (get_record cannot represent that)."""
    run = rt.AsyncRun(spec, count_calls=count_calls, jit_step=jit_step)
    recs, dicts = [], []
    for e, n in enumerate(lengths):
        gs = run.gs0.replace(eps=__import__("numpy").int32(e))
        for _ in range(n):
            gs = run.graph.run(gs)
        run.graph.stop()
        try:
            rec = run.graph.get_record()
        except TypeError:
            return None
        recs.append(rec)
        dicts.append(rt.episode_record_to_dict(rec))
    return run, recs, dicts


def compiled_record_dict(gs):
    rec = gs.aux["record"]
    return {n: rt.node_record_to_dict(r) for n, r in rec.nodes.items()}


def _spec_of(rng, kind):
    if kind == "equal_rates":
        return rt.rand_spec_equal_rates(rng)
    if kind == "high_ratio":
        return rt.rand_spec_high_ratio(rng)
    if kind == "trainable":
        return rt.rand_spec_trainable(rng)
    if kind == "sink_tie":
        return rt.spec_sink_tie(rng)
    if kind == "raw_sinks":
        return rt.spec_raw_sinks(rng)
    return rt.rand_spec(rng)


def compiled_case(seed, nsteps=9, modes=("MCS", "GENERATIONAL", "TOPOLOGICAL"), prunes=(True, False), export=False, neps=2, spec_kind="random", exec_export=False):
    """async recording -> graph -> compiled rollouts for every (mode, prune); returns async + compiled records."""
    import jax
    import numpy as onp
    from rex import base

    rng = random.Random(seed)
    spec = _spec_of(rng, spec_kind)
    if spec_kind == "high_ratio":
        nsteps = min(nsteps, 5)
    lengths = [nsteps - (e % 2) * rng.randint(1, 3) for e in range(neps)]
    exp = _async_experiment(rng, spec, lengths)
    if exp is None:
        return dict(skipped="empty record", spec=spec)
    run, recs, dicts = exp
    graphs_raw = base.ExperimentRecord(episodes=recs).to_graph()
    out = dict(spec=spec, feats=sorted(rt.spec_features(spec)), lengths=lengths, async_records=dicts, compiled=[])
    for mode in modes:
        for prune in prunes:
            t0 = time.time()
            try:
                g = rt.compile_graph(run.nodes, run.sup, graphs_raw, mode=mode, prune=prune)
            except rt.CompileUnsupported as ex:
                out.setdefault("unsupported", []).append(f"{mode}/prune={prune}: {ex}")
                continue
            entry = dict(mode=mode, prune=prune, compile_s=round(time.time() - t0, 1), max_steps=int(g.max_steps), episodes=[])
            if export:
                entry["timings"] = rt.timings_to_dict(g.timings)
                entry["buffer_sizes"] = {k: [int(x) for x in v] for k, v in g._buffer_sizes.items()}
            for e in range(len(lengths)):
                gs = g.init(rng=jax.random.PRNGKey(spec["seed"]), starting_eps=e)
                gs = gs.replace(rng=run.gs0.rng, state=run.gs0.state, params=run.gs0.params)
                gs = g.init_record(gs, params=True, rng=True, inputs=True, state=True, output=True)
                gs = g.rollout(gs, carry_only=True)
                entry["episodes"].append(compiled_record_dict(gs))
            if exec_export:
                # the instance for the abstract executor of the Lean model (Compiled/Exec.lean): cells only, no vertex rows
                names = [n["name"] for n in spec["nodes"]]
                entry["exec"] = []
                for e in range(len(lengths)):
                    inst = rt.sched_instance(g, names, spec["supervisor"], prune, e)
                    inst["verts"] = []
                    entry["exec"].append(dict(inst=inst, sizes=rt.buffer_sizes_list(g, names)))
            out["compiled"].append(entry)
    if exec_export:
        names = [n["name"] for n in spec["nodes"]]
        nmax = max(lengths) * 40 + 20
        out["probe"] = dict(names=names, w=[int(run.gs0.params[n].w) for n in names], s0=[int(run.gs0.state[n].s) for n in names],
                            y0=[int(run.nodes[n].init_output().y) for n in names], draws=[rt.probe_draws(run.gs0.rng[n], nmax) for n in names])
    if export:
        out["graphs_raw"] = rt.graph_to_dict(graphs_raw)
    return out


def _calls_snapshot():
    import jax

    jax.effects_barrier()
    with rt.CALL_LOCK:
        snap = {k: list(v) for k, v in rt.CALLS.items()}
        rt.CALLS.clear()
    return snap


def calls_case(seed, nsteps=8, spec_kind="random"):
    """C06: host-side call counters of the probe nodes in both runtimes."""
    import jax
    import numpy as onp
    from rex import base

    rng = random.Random(seed)
    spec = _spec_of(rng, spec_kind)
    jit_step = rng.random() < 0.6
    out = dict(spec=spec, feats=sorted(rt.spec_features(spec)), jit_step=jit_step, async_eps=[], compiled=[])
    run = rt.AsyncRun(spec, count_calls=True, jit_step=jit_step)
    _calls_snapshot()
    Probe, PParams, PState, POut = None, None, None, None
    recs = []
    gs_prev = None
    for e, api in enumerate(["run", "step_override", "run_carried_over", "run_short"]):
        overridden = []
        ep_steps = nsteps
        if api == "run":
            rec, obs, gs = run.episode(nsteps, eps=e, api="run")
            gs_prev = gs
        elif api == "run_short":
            # a second, shorter recorded episode: the compiled horizon is the shorter one's
            ep_steps = max(2, nsteps - rng.randint(2, 3))
            rec, obs, gs = run.episode(ep_steps, eps=1, api="run")
        elif api == "run_carried_over":
            # a new episode started from the graph state the previous episode returned (sequence numbers != 0)
            rec, obs, gs = run.episode(nsteps, eps=e, api="run", gs0=gs_prev)
        else:
            def ov(k, ss):
                if k % 2 == 1:
                    overridden.append(int(ss.seq))
                    return ss, rt.make_out(run.sup, 7 + k)
                return None

            # reset/step with every second supervisor step overridden by the user
            gs0 = run.gs0.replace(eps=onp.int32(e))
            gsx, ss = run.graph.reset(gs0)
            for k in range(nsteps):
                o = ov(k, ss)
                if o is None:
                    gsx, ss = run.graph.step(gsx)
                else:
                    gsx, ss = run.graph.step(gsx, o[0], o[1])
            run.graph.stop()
            rec = rt.safe_get_record(run.graph)
        calls = _calls_snapshot()
        d = rt.episode_record_to_dict(rec)
        out["async_eps"].append(dict(api=api, calls=calls, seqs={n: d[n]["seq"] for n in d}, outputs_len={n: len(d[n].get("output", [])) for n in d}, overridden=overridden, nsteps=ep_steps))
        if api in ("run", "run_short"):
            try:
                recs.append(run.graph.get_record())
            except TypeError:
                pass
    if not recs:
        return out
    graphs_raw = base.ExperimentRecord(episodes=recs).to_graph()
    for mode in ("MCS", "GENERATIONAL"):
        try:
            g = rt.compile_graph(run.nodes, run.sup, graphs_raw, mode=mode, prune=True)
        except rt.CompileUnsupported as ex:
            out.setdefault("unsupported", []).append(f"{mode}: {ex}")
            continue
        tim = rt.timings_to_dict(g.timings)
        gs = g.init(rng=jax.random.PRNGKey(spec["seed"]), starting_eps=0)
        nrun = min(g.max_steps, 5)
        _calls_snapshot()
        # (a) run() x nrun, un-jitted driver (the partition itself is traced by lax.cond / scan)
        s = gs
        for _ in range(nrun):
            s = g.run(s)
        calls_run = _calls_snapshot()
        # (b) jitted rollout
        s2 = jax.jit(lambda x: g.rollout(x, max_steps=nrun, carry_only=True))(gs)
        jax.block_until_ready(s2.seq)
        calls_roll = _calls_snapshot()
        # (c) reset + step with overrides on odd steps
        s3, ss = g.reset(gs)
        ov = []
        for k in range(nrun):
            if k % 2 == 1:
                ov.append(int(ss.seq))
                s3, ss = g.step(s3, ss, rt.make_out(run.sup, 5 + k))
            else:
                s3, ss = g.step(s3)
        calls_step = _calls_snapshot()
        # (d) step() straight after init (step == 0): the supervisor must not run
        s4, _ = g.step(gs)
        calls_first = _calls_snapshot()
        # (e) an episode that starts at partition k0 > 0
        k0 = min(2, max(0, g.max_steps - 2))
        n_e = max(1, min(3, g.max_steps - k0))
        s5 = g.init(rng=jax.random.PRNGKey(spec["seed"]), starting_eps=0, starting_step=k0)
        for _ in range(n_e):
            s5 = g.run(s5)
        calls_late = _calls_snapshot()
        # (f) a used graph state rewound to step 0 and run again
        s6 = s.replace_step(g.timings, 0)
        for _ in range(nrun):
            s6 = g.run(s6)
        calls_reused = _calls_snapshot()
        # (g) the whole horizon on the second (shorter) recorded episode
        calls_short = None
        if len(recs) >= 2:
            s7 = g.init(rng=jax.random.PRNGKey(spec["seed"]), starting_eps=1)
            for _ in range(g.max_steps):
                s7 = g.run(s7)
            calls_short = _calls_snapshot()
        # (h) an episode number beyond the compiled episodes is clipped to the last one: that episode's schedule is what must run
        s8 = g.init(rng=jax.random.PRNGKey(spec["seed"]), starting_eps=int(g.max_eps) + 1)
        for _ in range(nrun):
            s8 = g.run(s8)
        calls_oob = _calls_snapshot()
        out["compiled"].append(dict(mode=mode, calls_short=calls_short, horizon=int(g.max_steps), calls_oob=calls_oob, last_eps=int(g.max_eps) - 1, timings=tim, nrun=nrun, calls_run=calls_run, calls_rollout=calls_roll, calls_step=calls_step, overridden=ov, calls_first=calls_first,
                                    k0=k0, n_late=n_e, calls_late=calls_late, calls_reused=calls_reused, sup=spec["supervisor"]))
    return out


def _gs_fingerprint(gs, names):
    """execution-relevant content of a GraphState (no aux/record): per node seq, ts, rng, state + input windows"""
    import numpy as onp

    out = {}
    for n in names:
        ss = gs.step_state[n]
        out[n] = dict(seq=int(ss.seq), ts=float(ss.ts), rng=[int(x) for x in onp.asarray(ss.rng).reshape(-1)], state=int(ss.state.s),
                      inputs={k: dict(seq=onp.asarray(v.seq).astype(int).tolist(), data=onp.asarray(v.data.y).astype(int).tolist()) for k, v in ss.inputs.items()})
    return out


def record_case(seed, nsteps=8):
    """C13: the same episode under different record settings, both runtimes."""
    import itertools

    import jax
    import numpy as onp
    from rex import base

    rng = random.Random(seed)
    spec = rt.rand_spec(rng)
    names = [n["name"] for n in spec["nodes"]]
    run = rt.AsyncRun(spec)
    ws = {n: int(run.gs0.params[n].w) for n in names}
    out = dict(spec=spec, feats=sorted(rt.spec_features(spec)), w=ws, async_runs=[], compiled=[])
    fields = ["params", "rng", "inputs", "state", "output"]
    combos = [dict(zip(fields, [True] * 5))]
    for _ in range(3):
        combos.append({f: rng.random() < 0.5 for f in fields})
    combos.append({f: False for f in fields})
    full_rec = None
    for ci, combo in enumerate(combos):
        mr = None if ci == 0 else rng.choice([None, 3, 0])
        run.graph.set_record_settings(**combo, max_records=mr if mr is not None else 20000)
        rec, obs, gs = run.episode(nsteps, eps=0, api="step")
        d = rt.episode_record_to_dict(rec)
        out["async_runs"].append(dict(settings=combo, max_records=mr, record=d, obs=obs, executed=run.last_executed))
        if ci == 0:
            try:
                full_rec = run.graph.get_record()
            except TypeError:
                full_rec = None
    run.graph.set_record_settings(**combos[0], max_records=20000)
    if full_rec is None:
        return out
    graphs_raw = base.ExperimentRecord(episodes=[full_rec]).to_graph()
    mode = rng.choice(["MCS", "GENERATIONAL", "TOPOLOGICAL"])
    try:
        g = rt.compile_graph(run.nodes, run.sup, graphs_raw, mode=mode, prune=rng.random() < 0.7)
    except rt.CompileUnsupported:
        try:
            g = rt.compile_graph(run.nodes, run.sup, graphs_raw, mode=mode, prune=True)
        except rt.CompileUnsupported as ex:
            out["unsupported"] = str(ex)
            return out
    tim = rt.timings_to_dict(g.timings)
    gs0 = g.init(rng=jax.random.PRNGKey(spec["seed"]), starting_eps=0)
    gs0 = gs0.replace(rng=run.gs0.rng, state=run.gs0.state, params=run.gs0.params)
    nfull = g.max_steps
    variants = [("none", None, nfull, "step")] + [("rec", combos[0], nfull, "step"), ("rec", combos[0], nfull, "rollout"), ("rec", combos[0], max(1, nfull // 2), "run")] + \
               [("rec", c, nfull, "step") for c in combos[1:3]]
    for kind, combo, nrun, api in variants:
        gs = gs0 if kind == "none" else g.init_record(gs0, **combo)
        if api == "run":
            for _ in range(nrun):
                gs = g.run(gs)
        elif api == "rollout":
            gs = g.rollout(gs, max_steps=nrun, carry_only=True)
        else:  # gym style: reset + max_steps x step -> executes the last partition too
            gs, ss = g.reset(gs)
            for _ in range(nrun):
                gs, ss = g.step(gs)
        entry = dict(settings=combo, nrun=nrun, api=api, final=_gs_fingerprint(gs, names), step=int(gs.step))
        if kind != "none":
            recd = {}
            for n, r in gs.aux["record"].nodes.items():
                recd[n] = rt.node_record_to_dict(r)
            entry["record"] = recd
        out["compiled"].append(entry)
    out["timings"] = tim
    out["mode"] = mode
    out["sup"] = spec["supervisor"]
    return out


def wallclock_ts_case(seed):
    """C13 (wall clock): a node that moves its own step_state.ts forward; the recorded delay must be ts_end - ts_start."""
    import jax.numpy as jnp
    import numpy as onp
    import rex.constants as const
    from rex.asynchronous import AsyncGraph

    Probe = rt.make_probe_class()[0]

    class Shifter(Probe):
        def step(self, step_state):
            ss, out = super().step(step_state)
            return ss.replace(ts=step_state.ts + jnp.float32(0.004)), out

    a = Shifter(name="a", rate=40, delay_dist=rt.make_dist(dict(kind="det", loc=0.002, scale=0)))
    b = Probe(name="b", rate=20, delay_dist=rt.make_dist(dict(kind="det", loc=0.002, scale=0)))
    b.connect(a, window=2, blocking=False, delay_dist=rt.make_dist(dict(kind="det", loc=0.001, scale=0)))
    a.connect(b, window=1, blocking=False, skip=True, delay_dist=rt.make_dist(dict(kind="det", loc=0.001, scale=0)))
    g = AsyncGraph(nodes={"a": a, "b": b}, supervisor=b, clock=const.Clock.WALL_CLOCK, real_time_factor=const.RealTimeFactor.REAL_TIME)
    g.set_record_settings(params=True, rng=True, inputs=True, state=True, output=True)
    gs = g.init()
    g.warmup(gs, jit_step=False)
    for _ in range(8):
        gs = g.run(gs)
    g.stop()
    rec = rt.safe_get_record(g)
    d = rt.episode_record_to_dict(rec)
    return dict(record={k: {f: v[f] for f in ("seq", "ts_start", "ts_end", "delay")} for k, v in d.items()})


def _leaves(gs):
    """flatten a GraphState (without aux) to comparable python lists"""
    import jax
    import numpy as onp

    gs = gs.replace(aux=type(gs.aux)({}))
    return [onp.asarray(x).tolist() for x in jax.tree_util.tree_leaves(gs)]


def _same(a, b, tol=0.0):
    import numpy as onp

    if len(a) != len(b):
        return f"different number of leaves {len(a)} vs {len(b)}"
    for i, (x, y) in enumerate(zip(a, b)):
        xa, ya = onp.asarray(x), onp.asarray(y)
        if xa.shape != ya.shape:
            return f"leaf {i}: shape {xa.shape} vs {ya.shape}"
        if xa.dtype.kind == "f" or ya.dtype.kind == "f":
            if not onp.allclose(xa, ya, rtol=tol, atol=tol, equal_nan=True):
                return f"leaf {i}: {xa.reshape(-1)[:4]} vs {ya.reshape(-1)[:4]}"
        elif not onp.array_equal(xa, ya):
            return f"leaf {i}: {xa.reshape(-1)[:6]} vs {ya.reshape(-1)[:6]}"
    return None


def api_case(seed, nsteps=8):
    """C09: compositions of the compiled driving API from the same graph state."""
    import jax
    import jax.numpy as jnp
    import numpy as onp
    from rex import base

    rng = random.Random(seed)
    spec = rt.rand_spec(rng)
    exp = _async_experiment(rng, spec, [nsteps, nsteps - rng.randint(1, 3), nsteps - 1])
    if exp is None:
        return dict(skipped="empty record", spec=spec)
    run, recs, dicts = exp
    graphs_raw = base.ExperimentRecord(episodes=recs).to_graph()
    mode = rng.choice(["MCS", "GENERATIONAL", "TOPOLOGICAL"])
    try:
        g = rt.compile_graph(run.nodes, run.sup, graphs_raw, mode=mode, prune=rng.random() < 0.7)
    except rt.CompileUnsupported:
        try:
            g = rt.compile_graph(run.nodes, run.sup, graphs_raw, mode=mode, prune=True)
        except rt.CompileUnsupported as ex:
            return dict(skipped=f"unsupported: {ex}", spec=spec)
    sup = run.sup.name
    out = dict(spec=spec, feats=sorted(rt.spec_features(spec)), mode=mode, max_eps=int(g.max_eps), max_steps=int(g.max_steps), diffs=[], checks=0)
    key = jax.random.PRNGKey(spec["seed"])

    def chk(label, a, b, tol=0.0):
        out["checks"] += 1
        d = _same(_leaves(a), _leaves(b), tol)
        if d is not None:
            out["diffs"].append(f"{label}: {d}")

    jr = jax.jit(g.run)
    jreset = jax.jit(g.reset)
    jstep = jax.jit(lambda x: g.step(x))
    jstep_ov = jax.jit(lambda x, ss, o: g.step(x, ss, o))
    jU = jax.jit(g.run_until_supervisor)
    for trial in range(2):
        e = rng.randrange(g.max_eps)
        k0 = rng.choice([0, 0, 1, 2])
        n = rng.randint(1, max(1, g.max_steps - k0))
        tag = f"eps={e} start={k0} n={n}"
        gs = g.init(rng=key, starting_eps=e, starting_step=k0)
        # A: run^n (jit-compiled run applied n times)
        a = gs
        states = []
        for _ in range(n):
            a = jr(a)
            states.append(a)
        # eager (un-jitted) run once vs jitted run once
        chk(f"[{tag}] eager run vs jit(run)", g.run(gs), jr(gs))
        # B: reset + step^n  ==  U(run^n)
        b, ss = jreset(gs)
        for _ in range(n):
            b, ss = jstep(b)
        chk(f"[{tag}] reset+step^n vs run_until_supervisor(run^n)", b, jU(a))
        # C/D: rollout
        c = g.rollout(gs, max_steps=n, carry_only=True)
        chk(f"[{tag}] rollout(carry_only) vs run^n", c, a)
        traj = g.rollout(gs, max_steps=n, carry_only=False)
        last = jax.tree_util.tree_map(lambda x: x[-1], traj)
        chk(f"[{tag}] last element of rollout trajectory vs run^n", last, a)
        # every element of the trajectory is the state after k + 1 runs (Props/C09 rolloutTraj_eq_map)
        for k_ in range(1, n - 1):
            chk(f"[{tag}] element {k_} of the rollout trajectory vs run^{k_ + 1}", jax.tree_util.tree_map(lambda x: x[k_], traj), states[k_])
        if n >= 2:
            mid = jax.tree_util.tree_map(lambda x: x[0], traj)
            chk(f"[{tag}] first element of rollout trajectory vs run^1", mid, jr(gs))
        chk(f"[{tag}] jit(rollout) vs run^n", jax.jit(lambda x: g.rollout(x, max_steps=n, carry_only=True))(gs), a)
        # rollout of zero steps is run^0: the state it was given, and an empty trajectory
        chk(f"[{tag}] rollout(max_steps=0, carry_only) vs run^0", g.rollout(gs, max_steps=0, carry_only=True), gs)
        t0 = g.rollout(gs, max_steps=0, carry_only=False)
        lens = {int(onp.asarray(x).shape[0]) for x in jax.tree_util.tree_leaves(t0.replace(aux=type(t0.aux)({})))}
        out["checks"] += 1
        if lens != {0}:
            out["diffs"].append(f"[{tag}] rollout(max_steps=0, carry_only=False) returns a trajectory of length {sorted(lens)} instead of 0")
        # G: override with the supervisor's own step result == default
        b1, ss1 = jreset(gs)
        own_ss, own_out = run.sup.step(ss1)
        o1, _ = jstep_ov(b1, own_ss, own_out)
        d1, _ = jstep(b1)
        chk(f"[{tag}] step(override = supervisor's own result) vs step()", o1, d1)
        # J: switching the driving API in the middle (Props/C09 runs_then_reset_steps): run^m ; reset ; step^(n-m)  ==  reset ; step^n
        m = rng.randint(0, n)
        j = gs
        for _ in range(m):
            j = jr(j)
        j, _ = jreset(j)
        for _ in range(n - m):
            j, _ = jstep(j)
        chk(f"[{tag}] run^{m};reset;step^{n - m} vs reset;step^{n}", j, b)
        # K: a rollout cut in two (rollout_split, rolloutTraj_append)
        c1 = g.rollout(gs, max_steps=m, carry_only=True)
        c2 = g.rollout(c1, max_steps=n - m, carry_only=True)
        chk(f"[{tag}] rollout({m});rollout({n - m}) vs rollout({n})", c2, c)
        if 0 < m < n:
            t2 = g.rollout(c1, max_steps=n - m, carry_only=False)
            chk(f"[{tag}] trajectory of the second part vs tail of the full trajectory", t2, jax.tree_util.tree_map(lambda x: x[m:], traj))
        # L: finishing the supervisor after reset;step^(n-1) is run^n (reset_steps_supervisor_eq_runs)
        l, _ = jreset(gs)
        for _ in range(n - 1):
            l, _ = jstep(l)
        chk(f"[{tag}] run_supervisor(reset;step^{n - 1}) vs run^{n}", g.run_supervisor(l), a)
    # F: vmap over starting episodes
    es = [rng.randrange(g.max_eps) for _ in range(3)]
    n = max(1, g.max_steps // 2)
    singles = [g.rollout(g.init(rng=key, starting_eps=e), max_steps=n, carry_only=True) for e in es]
    batched = jax.vmap(lambda e: g.rollout(g.init(rng=key, starting_eps=e), max_steps=n, carry_only=True))(jnp.array(es))
    for i, e in enumerate(es):
        chk(f"[vmap eps={es} n={n}] batch element {i} vs single rollout", jax.tree_util.tree_map(lambda x: x[i], batched), singles[i], tol=1e-6)
    # H: clipping of out-of-range episode / step indices
    for e_req in (-3, -1, g.max_eps, g.max_eps + 4):
        e_clip = min(max(e_req, 0), g.max_eps - 1)
        x = g.init(rng=key, starting_eps=e_req)
        y = g.init(rng=key, starting_eps=e_clip)
        if int(x.eps) != e_clip:
            out["diffs"].append(f"[clip] init(starting_eps={e_req}) gives eps={int(x.eps)}, expected clipped {e_clip}")
        chk(f"[clip] init(starting_eps={e_req}) vs init(starting_eps={e_clip})", x, y)
        chk(f"[clip] run after init(starting_eps={e_req})", jr(x), jr(y))
        chk(f"[clip] rollout after gs.replace(eps={e_req})", g.rollout(y.replace(eps=jnp.int32(e_req)), max_steps=2), g.rollout(y, max_steps=2))
    for k_req in (-2, g.max_steps + 1, g.max_steps + 7):
        k_clip = min(max(k_req, 0), g.max_steps)
        x = g.init(rng=key, starting_step=k_req)
        if int(x.step) != k_clip:
            out["diffs"].append(f"[clip] init(starting_step={k_req}) gives step={int(x.step)}, expected clipped {k_clip}")
    # I: params given to init are what the steps see
    P = type(run.gs0.params[sup])
    other = [n_ for n_ in run.nodes if n_ != sup][0]
    pv = P(w=jnp.array(11, dtype=jnp.int32))
    x = g.init(rng=key, params={other: pv})
    y = g.init(rng=key)
    y = y.replace(params=y.params.copy({other: pv}))
    if int(x.params[other].w) != 11:
        out["diffs"].append("[params] init(params=...) did not install the given params")
    chk("[params] rollout with init(params=...) vs params replaced by hand", g.rollout(x, max_steps=3), g.rollout(y, max_steps=3))
    z = g.rollout(g.init(rng=key), max_steps=3)
    if _same(_leaves(z), _leaves(g.rollout(x, max_steps=3))) is None:
        out["note_params_irrelevant"] = True
    return out


def sched_case(seed, nsteps=8, spec_kind="random", modes=("MCS", "GENERATIONAL", "TOPOLOGICAL"), prunes=(True, False), dynamic=False, trunc=None, graph_file=None):
    """C07 / C08: export every compiled instance (timings + windowed graph) for the Lean checker / ring replay;
    with dynamic=True also run the compiled graph with user buffer sizes / padding / late starts and check payloads."""
    import jax
    import numpy as onp
    from rex import base

    rng = random.Random(seed)
    spec = _spec_of(rng, spec_kind)
    names = [n["name"] for n in spec["nodes"]]
    if spec_kind == "high_ratio":
        nsteps = min(nsteps, 5)
    lengths = [nsteps, max(2, nsteps - rng.randint(1, 3))]
    if spec_kind == "sink_tie":
        # generated graphs (rex.artificial): every node has all its vertices up to the horizon, also a sink that lags behind in a
        # recording; the horizon is chosen so that a sink vertex ends exactly when the last supervisor step starts
        from rex.artificial import generate_graphs

        class _Run:
            pass

        run = _Run()
        run.nodes = rt.build_nodes(spec)
        run.sup = run.nodes[spec["supervisor"]]
        r_sup = spec["nodes"][0]["rate"]
        ts_max = rng.choice([6, 8]) / r_sup
        graphs_raw = generate_graphs(run.nodes, ts_max, rng=jax.random.PRNGKey(spec["seed"] % 1000), num_episodes=rng.choice([1, 2]))
        lengths = list(range(int(onp.asarray(graphs_raw.vertices[spec["supervisor"]].seq).shape[0])))
        dynamic = False
    elif graph_file is not None:
        # a recorded graph stored with the harness (the witness of a known finding): no recording, no schedule dependence
        class _Run:
            pass

        import json as _json
        import os as _os

        run = _Run()
        run.nodes = rt.build_nodes(spec)
        run.sup = run.nodes[spec["supervisor"]]
        stored = _json.load(open(_os.path.join(_os.path.dirname(_os.path.abspath(__file__)), "data", graph_file)))
        assert stored["spec"] == _json.loads(_json.dumps(spec)), "stored graph belongs to another specification"
        graphs_raw = rt.graph_from_dict(stored["graph"])
        lengths = list(range(len(stored["graph"]["vertices"][spec["supervisor"]]["seq"])))
        dynamic = False
    elif spec_kind == "raw_sinks":
        class _Run:
            pass

        run = _Run()
        run.nodes = rt.build_nodes(spec)
        run.sup = run.nodes[spec["supervisor"]]
        graphs_raw = rt.raw_graph_of(spec)
        lengths = [0]
        dynamic = False
    else:
        exp = _async_experiment(rng, spec, lengths)
        if exp is None:
            return dict(skipped="empty record", spec=spec)
        run, recs, dicts = exp
        graphs_raw = base.ExperimentRecord(episodes=recs).to_graph()
        if trunc is not None:
            # a fixed record length per node and episode (never longer than what was recorded): removes the schedule dependence of how
            # far the non-supervisor nodes have got at the moment the episode is stopped
            have = {n: [int((onp.asarray(graphs_raw.vertices[n].seq)[e] >= 0).sum()) for e in range(len(lengths))] for n in names}
            if any(trunc[n][e] > have[n][e] for n in names for e in range(len(lengths))):
                return dict(skipped=f"record shorter than the requested truncation: {have} < {trunc}", spec=spec)
            graphs_raw = rt.truncate_graph(graphs_raw, trunc)
    out = dict(spec=spec, feats=sorted(rt.spec_features(spec)), instances=[], dynamic=[])
    init_out = {n: int(run.nodes[n].init_output().y) for n in names}
    for mode in modes:
        for prune in prunes:
            try:
                g = rt.compile_graph(run.nodes, run.sup, graphs_raw, mode=mode, prune=prune)
            except rt.CompileUnsupported as ex:
                out.setdefault("unsupported", []).append(f"{mode}/prune={prune}: {ex}")
                continue
            auto = rt.buffer_sizes_list(g, names)
            for e in range(len(lengths)):
                inst = rt.sched_instance(g, names, spec["supervisor"], prune, e)
                # independent window oracle: the windowed graph must hold, for every vertex, the last W consumed messages of the raw graph
                wbad = []
                exp = rt.expected_windows(spec, graphs_raw, e)
                wg = g._windowed_graphs
                for (dst, src), per in exp.items():
                    got = onp.asarray(wg.vertices[dst].windows[src].seq)[e]
                    for k, want in per.items():
                        have = [max(int(x), -1) for x in got[k]]
                        if have != want:
                            wbad.append(f"vertex {dst}[{k}]: window of {src} is {have}, the last {len(want)} consumed messages of the recorded graph are {want}")
                            break
                out["instances"].append(dict(mode=mode, prune=prune, episode=e, inst=inst, sizes=auto, raw_sizes={k: [int(x) for x in v] for k, v in g._buffer_sizes.items()},
                                             window_mismatches=wbad[:4]))
            if dynamic:
                extra = {n: int(max(g._buffer_sizes[n]) + rng.randint(0, 3)) for n in g._buffer_sizes if len(g._buffer_sizes[n]) > 0 and rng.random() < 0.6}
                pad = rng.choice([0, 1, 3])
                g2 = rt.compile_graph(run.nodes, run.sup, graphs_raw, mode=mode, prune=prune, buffer_sizes=extra or None, extra_padding=pad)
                for gg, label in ((g, "auto sizes"), (g2, f"buffer_sizes={extra} extra_padding={pad}")):
                    for e, k0 in ((0, 0), (rng.randrange(len(lengths)), rng.choice([1, 2, 3]))):
                        k0 = max(0, min(k0, gg.max_steps - 1))
                        gs = gg.init(rng=jax.random.PRNGKey(spec["seed"]), starting_eps=e, starting_step=k0)
                        gs = gs.replace(rng=run.gs0.rng, state=run.gs0.state, params=run.gs0.params)
                        gs = gg.init_record(gs, params=False, rng=False, inputs=True, state=False, output=True)
                        k0 = min(k0, gg.max_steps - 1)
                        gs = gg.rollout(gs, max_steps=gg.max_steps - k0, carry_only=True)  # never re-run the (clipped) last partition
                        rec = {n: rt.node_record_to_dict(r) for n, r in gs.aux["record"].nodes.items()}
                        bad = []
                        nreads = 0
                        for n in names:
                            r = rec[n]
                            for i, q in enumerate(r["seq"]):
                                if q < 0:
                                    continue
                                for src, w in r.get("inputs", {}).items():
                                    for sq, d in zip(w["seq"][i], w["data"][i]):
                                        nreads += 1
                                        srow = rec[src]
                                        if sq >= 0 and sq < len(srow["seq"]) and srow["seq"][sq] >= 0 and sq < len(srow.get("output", [])):
                                            # producer ran in this execution: its recorded output (the supervisor's row may still be unwritten)
                                            exp_d = srow["output"][sq]
                                            if src == spec["supervisor"] and exp_d == -1:
                                                continue
                                        elif sq < 0 or k0 > 0:
                                            exp_d = init_out[src]
                                        else:
                                            exp_d = None
                                        if exp_d is None or d != exp_d:
                                            bad.append(f"node {n} step {q}: window entry seq {sq} of {src} holds payload {d}, expected {exp_d}")
                        out["dynamic"].append(dict(mode=mode, prune=prune, label=label, episode=e, start=k0, reads=nreads, bad=bad[:5], sizes=rt.buffer_sizes_list(gg, names, extra_padding=pad if gg is g2 else 0,
                                                                                                                                             sizes=({**gg._buffer_sizes}))))
    return out


def wallclock_policy_case(seed, nsteps=10, neps=2):
    """C03 on the wall clock: short real-time episodes of a small graph with non-blocking connections (a fast sender into a slower
    supervisor, the feedback skipped); returns the records for the wall-clock monitor."""
    import rex.constants as const
    from rex.asynchronous import AsyncGraph

    rng = random.Random(seed)
    r_fast = rng.choice([20, 30, 40])
    r_sup = rng.choice([8, 10])
    nodes = [dict(name="n0", rate=r_fast, comp=dict(kind="det", loc=0.002, scale=0.0), advance=False, scheduling="FREQUENCY"),
             dict(name="n1", rate=r_sup, comp=dict(kind="det", loc=0.002, scale=0.0), advance=False, scheduling=rng.choice(["FREQUENCY", "PHASE"]))]
    conns = [dict(src="n0", dst="n1", blocking=False, skip=False, jitter="LATEST", window=rng.randint(1, 4), comm=dict(kind="det", loc=0.002, scale=0.0)),
             dict(src="n1", dst="n0", blocking=False, skip=True, jitter="LATEST", window=1, comm=dict(kind="det", loc=0.002, scale=0.0))]
    if rng.random() < 0.5:
        nodes.insert(1, dict(name="nm", rate=rng.choice([15, 25]), comp=dict(kind="det", loc=0.003, scale=0.0), advance=False, scheduling="FREQUENCY"))
        conns += [dict(src="n0", dst="nm", blocking=False, skip=False, jitter="LATEST", window=2, comm=dict(kind="det", loc=0.001, scale=0.0)),
                  dict(src="nm", dst="n1", blocking=False, skip=False, jitter="LATEST", window=rng.randint(1, 3), comm=dict(kind="det", loc=0.001, scale=0.0))]
    spec = dict(nodes=nodes, conns=conns, supervisor="n1", seed=rng.randrange(1 << 30))
    run = rt.AsyncRun(spec, clock="WALL_CLOCK", jit_step=True)
    out = dict(spec=spec, episodes=[])
    for e in range(neps):
        rec, obs, gs = run.episode(nsteps, eps=e, api=["step", "run"][e % 2])
        out["episodes"].append(rt.episode_record_to_dict(rec))
    return out
