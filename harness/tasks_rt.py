"""Worker-side task functions for the runtime checks."""
import random
import time

import rt


def pilot_async(seed, nsteps=12, tie=False):
    rng = random.Random(seed)
    spec = rt.rand_spec(rng, tie_stream=tie)
    t0 = time.time()
    run = rt.AsyncRun(spec)
    t1 = time.time()
    rec, obs, gs = run.episode(nsteps, eps=0, api=rng.choice(["run", "step"]))
    d = rt.episode_record_to_dict(rec)
    t2 = time.time()
    return dict(spec=spec, feats=sorted(rt.spec_features(spec)), warm=t1 - t0, ep=t2 - t1, nsteps={k: v["n"] for k, v in d.items()})


def async_case(seed, nsteps=10, tie=False, api=None, neps=1):
    """One random graph: run `neps` async episodes, return the real records + the machine cfg for the Lean model."""
    rng = random.Random(seed)
    spec = rt.rand_spec(rng, tie_stream=tie)
    run = rt.AsyncRun(spec)
    out = dict(spec=spec, feats=sorted(rt.spec_features(spec)), episodes=[])
    for e in range(neps):
        a = api or rng.choice(["run", "step"])
        rec, obs, gs = run.episode(nsteps, eps=e, api=a)
        d = rt.episode_record_to_dict(rec)
        counts = {k: v["n"] for k, v in d.items()}
        cfg = rt.machine_cfg(run, counts, user_steps=nsteps)
        out["episodes"].append(dict(api=a, record=d, cfg=cfg, obs=obs))
    return out


class Perturb:
    """Controller for the REX_VERIF gates: delays tasks at their start according to a policy (seeded)."""

    def __init__(self, policy, seed, target=None):
        import threading

        self.policy, self.target = policy, target
        self.rnd = random.Random(seed)
        self.lock = threading.Lock()
        self.n = 0

    def __call__(self, name, ctx):
        if name != "task_start":
            return
        owner = ctx["owner"]
        is_conn = hasattr(owner, "connection")
        label = (owner.connection.output_node.name + "->" + owner.connection.input_node.name) if is_conn else owner.node.name
        fn = ctx["fn"]
        p = self.policy
        d = 0.0
        if p == "random":
            with self.lock:
                d = self.rnd.random() * 0.002 if self.rnd.random() < 0.5 else 0.0
        elif p == "slow_conns":
            d = 0.0015 if is_conn else 0.0
        elif p == "slow_nodes":
            d = 0.0015 if not is_conn else 0.0
        elif p == "starve":
            d = 0.004 if label == self.target else 0.0
        elif p == "slow_ts_input":
            d = 0.003 if fn == "push_ts_input" else 0.0
        elif p == "slow_step":
            d = 0.003 if fn == "push_step" else 0.0
        elif p == "slow_sched":
            d = 0.003 if fn in ("push_scheduled_ts", "push_phase_shift") else 0.0
        self.n += 1
        if d > 0:
            time.sleep(d)


def async_schedules(seed, nsteps=10, tie=False, variants=None):
    """One graph state, several executions of the same episode under different thread schedules, real-time factors
    and driving APIs. Returns all records and the machine configuration."""
    import sys

    from rex import _verif

    rng = random.Random(seed)
    spec = rt.rand_spec(rng, tie_stream=tie)
    run = rt.AsyncRun(spec)
    labels = [n["name"] for n in spec["nodes"]] + [f"{c['src']}->{c['dst']}" for c in spec["conns"]]
    if variants is None:
        variants = [dict(policy="none", rtf=0, api="run"), dict(policy="random", rtf=0, api="step"), dict(policy="slow_conns", rtf=0, api="run"),
                    dict(policy="slow_nodes", rtf=0, api="step"), dict(policy="starve", rtf=0, api="run", target=rng.choice(labels)),
                    dict(policy="slow_ts_input", rtf=0, api="run"), dict(policy="none", rtf=20, api="step"), dict(policy="switch", rtf=0, api="run")]
    out = dict(spec=spec, feats=sorted(rt.spec_features(spec)), variants=[], cfg=None)
    old_si = sys.getswitchinterval()
    counts = {n["name"]: 0 for n in spec["nodes"]}
    for e, v in enumerate(variants):
        ctl = Perturb(v["policy"], seed * 1000 + e, v.get("target"))
        _verif.set_controller(ctl if v["policy"] not in ("none", "switch") else None)
        sys.setswitchinterval(1e-6 if v["policy"] == "switch" else old_si)
        run.graph.real_time_factor = v["rtf"]
        try:
            rec, obs, gs = run.episode(nsteps, eps=0, api=v["api"])
        finally:
            _verif.set_controller(None)
            sys.setswitchinterval(old_si)
        d = rt.episode_record_to_dict(rec)
        out["variants"].append(dict(variant=v, record=d, obs=obs, gated=ctl.n))
        for k in d:
            counts[k] = max(counts[k], d[k]["n"])
    out["cfg"] = rt.machine_cfg(run, counts, user_steps=nsteps)
    return out


# ------------------------------------------------------------------------------------------------
# compiled runtime


def _async_experiment(rng, spec, lengths, count_calls=False, jit_step=True):
    """Run one async episode per entry of `lengths`; returns (run, [EpisodeRecord], [record dict]) or None if some
    node/connection stayed empty (get_record cannot represent that)."""
    run = rt.AsyncRun(spec, count_calls=count_calls, jit_step=jit_step)
    recs, dicts = [], []
    for e, n in enumerate(lengths):
        gs = run.gs0.replace(eps=__import__("numpy").int32(e))
        for _ in range(n):
            gs = run.graph.run(gs)
        run.graph.stop()
        try:
            rec = run.graph.get_record()
        except TypeError:
            return None
        recs.append(rec)
        dicts.append(rt.episode_record_to_dict(rec))
    return run, recs, dicts


def compiled_record_dict(gs):
    rec = gs.aux["record"]
    return {n: rt.node_record_to_dict(r) for n, r in rec.nodes.items()}


def compiled_case(seed, nsteps=9, modes=("MCS", "GENERATIONAL", "TOPOLOGICAL"), prunes=(True, False), export=False, neps=2):
    """async recording -> graph -> compiled rollouts for every (mode, prune); returns async + compiled records."""
    import jax
    import numpy as onp
    from rex import base

    rng = random.Random(seed)
    spec = rt.rand_spec(rng)
    lengths = [nsteps - (e % 2) * rng.randint(1, 3) for e in range(neps)]
    exp = _async_experiment(rng, spec, lengths)
    if exp is None:
        return dict(skipped="empty record", spec=spec)
    run, recs, dicts = exp
    graphs_raw = base.ExperimentRecord(episodes=recs).to_graph()
    out = dict(spec=spec, feats=sorted(rt.spec_features(spec)), lengths=lengths, async_records=dicts, compiled=[])
    for mode in modes:
        for prune in prunes:
            t0 = time.time()
            g = rt.compile_graph(run.nodes, run.sup, graphs_raw, mode=mode, prune=prune)
            entry = dict(mode=mode, prune=prune, compile_s=round(time.time() - t0, 1), max_steps=int(g.max_steps), episodes=[])
            if export:
                entry["timings"] = rt.timings_to_dict(g.timings)
                entry["buffer_sizes"] = {k: [int(x) for x in v] for k, v in g._buffer_sizes.items()}
            for e in range(len(lengths)):
                gs = g.init(rng=jax.random.PRNGKey(spec["seed"]), starting_eps=e)
                gs = gs.replace(rng=run.gs0.rng, state=run.gs0.state, params=run.gs0.params)
                gs = g.init_record(gs, params=True, rng=True, inputs=True, state=True, output=True)
                gs = g.rollout(gs, carry_only=True)
                entry["episodes"].append(compiled_record_dict(gs))
            out["compiled"].append(entry)
    if export:
        out["graphs_raw"] = rt.graph_to_dict(graphs_raw)
    return out
