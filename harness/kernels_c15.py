"""Kernel specifications for C15 (delay distributions). Generated into lean/RexModel/Gen/Dist.lean on every run."""
from extract_dist import TrDist

BASE = "rex/base.py"
UTILS = "rex/utils.py"
NODE = "rex/node.py"
GMM = "rex/gmm_estimator.py"
P = ["C15"]
KEY = dict(result="Key", tyvars=["κ"], sigs={"split": "κ → Nat → Nat → κ"}, types={"rng": "κ"}, rtype="κ", tr_class=TrDist)
TD = {"self.min": "lo", "self.max": "hi", "self.alpha": "alpha", "min": "lo", "max": "hi"}
STD = {"self.data.std()": "std", "data.std()": "std", "self.data.mean()": "mean", "data.mean()": "mean"}
NDTRI = {"jax.scipy.special.ndtri": "ndtri"}
QUANT = {"self.delay_dist.quantile": "quantile"}

KERNELS = {
    "Dist": [
        # ---- StaticDist.sample / reset: clip at zero, key threading
        dict(name="delay_clip", file=BASE, func="StaticDist.sample", loc=("assign", "samples", 1), rename={"samples": "raw"}, props=P, tr_class=TrDist),
        dict(name="sample_seed_key", file=BASE, func="StaticDist.sample", loc=("kwarg", "self.dist.sample", 0, "seed"), rename={"self.rng": "rng"}, props=P, **KEY),
        dict(name="sample_new_key", file=BASE, func="StaticDist.sample", loc=("kwarg", "self.replace", 0, "rng"), rename={"self.rng": "rng"}, props=P, **KEY),
        dict(name="reset_key", file=BASE, func="StaticDist.reset", loc=("kwarg", "self.replace", 0, "rng"), rename={"rng": "rng"}, props=P, **KEY),
        # ---- StaticDist.quantile
        dict(name="quantile_det", file=BASE, func="StaticDist.quantile", loc=("assign_unique", "res"), opaque={"self.dist.mean()": "loc"}, props=P),
        dict(name="quantile_normal", file=BASE, func="StaticDist.quantile", loc=("return", 1), funs=NDTRI,
             rename={"self.dist.scale": "scale", "self.dist.loc": "loc"}, params=["q", "scale", "loc"], props=P),
        dict(name="mix_qs_max", file=BASE, func="StaticDist.quantile", loc=("assign_unique", "qs_component_max"), funs=NDTRI,
             rename={"cdist.scale": "scale", "cdist.loc": "loc"}, params=["scale", "loc"], props=P),
        dict(name="mix_qs_min", file=BASE, func="StaticDist.quantile", loc=("assign_unique", "qs_component_min"), funs=NDTRI,
             rename={"cdist.scale": "scale", "cdist.loc": "loc"}, params=["scale", "loc"], props=P),
        dict(name="mix_grid_min", file=BASE, func="StaticDist.quantile", loc=("kwarg", "utils.mixture_distribution_quantiles", 0, "grid_min"),
             opaque={"qs_component_min.min()": "qmin"}, props=P),
        dict(name="mix_grid_max", file=BASE, func="StaticDist.quantile", loc=("kwarg", "utils.mixture_distribution_quantiles", 0, "grid_max"),
             opaque={"qs_component_max.max()": "qmax"}, props=P),
        # ---- utils.mixture_distribution_quantiles
        dict(name="mix_cdf", file=UTILS, func="mixture_distribution_quantiles", loc=("assign", "cdf_grid", 1), vecs=["cdfs", "weights"],
             rename={"cdist_cdfs": "cdfs", "cweights[None]": "weights"}, params=["cdfs", "weights"], props=P, tr_class=TrDist),
        dict(name="grid_gt", file=UTILS, func="mixture_distribution_quantiles.get_quantiles_for_one_observation", loc=("call_arg", "onp.argmax", 0, 0), result="Bool",
             rename={"cdf_grid_one_obs": "cdf", "probs_row_grid": "p"}, params=["cdf", "p"], props=P, tr_class=TrDist),
        dict(name="grid_check", file=UTILS, func="mixture_distribution_quantiles", loc=("assign_unique", "grid_check"), result="Bool",
             opaque={"cdf_grid.min(axis=0).max()": "cdf_lo", "cdf_grid.max(axis=0).min()": "cdf_hi", "min(probs)": "p_min", "max(probs)": "p_max"},
             params=["cdf_lo", "cdf_hi", "p_min", "p_max"], props=P, tr_class=TrDist),
        # ---- TrainableDist
        dict(name="td_sample", file=BASE, func="TrainableDist.sample", loc=("assign_unique", "samples"), rename=TD, params=["lo", "hi", "alpha"], props=P),
        dict(name="td_quantile", file=BASE, func="TrainableDist.quantile", loc=("return", 0), rename=TD, params=["lo", "hi", "alpha"], props=P),
        dict(name="td_mean", file=BASE, func="TrainableDist.mean", loc=("return", 0), rename=TD, params=["lo", "hi", "alpha"], props=P),
        dict(name="td_alpha_raw", file=BASE, func="TrainableDist._get_alpha", loc=("return", 0), rename=TD, params=["delay", "lo", "hi"], props=P),
        dict(name="td_get_alpha", file=BASE, func="TrainableDist.get_alpha", loc=("return", 0), rename=TD, funs={"self._get_alpha": "alpha_raw"},
             sigs={"alpha_raw": "α → α → α → α"}, params=["delay", "lo", "hi"], props=P),
        # ---- node.py: default expected delay
        dict(name="node_default_delay", file=NODE, func="BaseNode.__init__", loc=("assign_unique", "self.delay"), opaque={"delay is not None": "given"}, funs=QUANT,
             params=["given", "delay"], props=P),
        dict(name="conn_default_delay", file=NODE, func="Connection.__init__", loc=("assign_unique", "self.delay"), opaque={"delay is not None": "given"}, funs=QUANT,
             params=["given", "delay"], props=P),
        dict(name="node_delay_ok", file=NODE, func="BaseNode.__init__", loc=("assert_containing", "self.delay >="), result="Bool", rename={"self.delay": "d"}, props=P),
        dict(name="conn_delay_ok", file=NODE, func="Connection.__init__", loc=("assert_containing", "self.delay >="), result="Bool", rename={"self.delay": "d"}, props=P),
        dict(name="node_default_loc", file=NODE, func="BaseNode.__init__", loc=("kwarg", "distrax.Normal", 0, "loc"), props=P),
        dict(name="node_default_scale", file=NODE, func="BaseNode.__init__", loc=("kwarg", "distrax.Normal", 0, "scale"), props=P),
        dict(name="conn_default_loc", file=NODE, func="Connection.__init__", loc=("kwarg", "distrax.Normal", 0, "loc"), props=P),
        dict(name="conn_default_scale", file=NODE, func="Connection.__init__", loc=("kwarg", "distrax.Normal", 0, "scale"), props=P),
        # ---- gmm_estimator.py
        dict(name="gmm_is_deterministic", file=GMM, func="GMMEstimator.__init__", loc=("assign_unique", "self.is_deterministic"), result="Bool", opaque=STD,
             params=["std", "threshold", "mean"], props=P),
        dict(name="gmm_data_norm", file=GMM, func="GMMEstimator.__init__", loc=("assign_unique", "self._data_norm"), opaque=STD,
             rename={"data": "x", "self.is_deterministic": "is_det"}, params=["x", "mean", "std", "is_det"], props=P),
        dict(name="gmm_rescale_mu", file=GMM, func="GMMEstimator._rescale", loc=("assign_unique", "component_mus"),
             rename={"component_mus": "mu", "self._std": "std", "self._mean": "mean"}, params=["mu", "std", "mean"], props=P),
        dict(name="gmm_rescale_log_scale", file=GMM, func="GMMEstimator._rescale", loc=("assign_unique", "log_component_scales"), funs={"np.log": "log"},
             rename={"log_component_scales": "ls", "self._std": "std"}, params=["ls", "std"], props=P),
        dict(name="gmm_normalize_weights", file=GMM, func="normalize_weights", loc=("return", 0), result="Vec", vecs=["weights"], rtype="List α", props=P, tr_class=TrDist),
        dict(name="gmm_w_init", file=GMM, func="GMMEstimator.get_dist", loc=("assign", "w", 0), result="Vec", vecs=["log_w"], funs={"np.exp": "exp"},
             vecfuns={"normalize_weights": "normalize"}, sigs={"normalize": "List α → List α", "exp": "α → α"}, rtype="List α", props=P, tr_class=TrDist),
        dict(name="gmm_scales", file=GMM, func="GMMEstimator.get_dist", loc=("assign", "(w, s, m)", 0), path=["elts", 1], result="Vec", vecs=["log_s"], funs={"np.exp": "exp"},
             ignore_index=["indices"], rtype="List α", props=P, tr_class=TrDist),
        dict(name="gmm_prune_test", file=GMM, func="GMMEstimator.get_dist", loc=("for_if", 0, 0), result="Bool", rename={"prune_cum": "cum"},
             params=["cum", "val", "percentile"], props=P),
        dict(name="gmm_w_final", file=GMM, func="GMMEstimator.get_dist", loc=("assign", "w", 1), result="Vec", vecs=["w"],
             vecfuns={"normalize_weights": "normalize"}, sigs={"normalize": "List α → List α"}, rtype="List α", props=P, tr_class=TrDist),
        dict(name="gmm_det_branch", file=GMM, func="GMMEstimator.get_dist", loc=("iftest", 0), result="Bool", rename={"self.is_deterministic": "is_det"}, props=P),
        dict(name="gmm_det_loc", file=GMM, func="GMMEstimator.get_dist", loc=("kwarg", "distrax.Deterministic", 0, "loc"),
             opaque={"self.data.mean(dtype='float32')": "mean"}, props=P),
    ],
}
