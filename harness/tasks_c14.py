"""C14 helpers: generators of random ragged graphs / records (plain rex.base dataclasses with numpy arrays), independent reference
semantics written from the property statement, the monitors, and the worker task that records real episodes.

Everything is a function of a `random.Random`; nothing here depends on the Lean model (the comparison with the model is done by
props/c14.py through the driver)."""
import os
import sys

REPO = os.environ.get("REX_REPO", "/repo")
if REPO not in sys.path:
    sys.path.insert(0, REPO)

NAME_POOL = ["world", "cam", "imu", "ctrl", "est", "arm_l", "arm_r", "n_1", "agent", "sup"]

_NODE_CLS = None


def node_cls():
    global _NODE_CLS
    if _NODE_CLS is None:
        from rex.node import BaseNode

        class PlainNode(BaseNode):
            def step(self, step_state):
                return step_state, None

        _NODE_CLS = PlainNode
    return _NODE_CLS


# ------------------------------------------------------------------------------------------------
# topologies and node objects


def rand_topology(rng, n=None, custom_names=False):
    """nodes (ordered) and connections (src, dst, input_name|None). Backward connections are skipped (no algebraic loop)."""
    n = n or rng.randint(2, 5)
    names = rng.sample(NAME_POOL, n)
    conns = set()
    for j in range(1, n):
        conns.add((rng.randrange(0, j), j))
    for _ in range(rng.randint(0, n + 1)):
        i, j = rng.randrange(n), rng.randrange(n)
        if i != j:
            conns.add((i, j))
    conns = sorted(conns)
    out = []
    for (i, j) in conns:
        alias = None
        if custom_names and rng.random() < 0.5:
            alias = f"in_{names[i]}"
        out.append(dict(src=names[i], dst=names[j], name=alias, skip=i > j, window=rng.randint(1, 3)))
    if custom_names and not any(c["name"] for c in out):
        out[0]["name"] = f"in_{out[0]['src']}"
    return dict(names=names, conns=out)


def build_nodes(topo, only=None, conns=None):
    """Real rex node objects for (a subset `only` of) the topology, connected by `conns` (default: all connections among them)."""
    Node = node_cls()
    names = [n for n in topo["names"] if only is None or n in only]
    nodes = {n: Node(name=n, rate=10 + 3 * k, delay=0.01, order=k, color=["red", "blue", "green", "orange", "grape"][k % 5]) for k, n in enumerate(topo["names"]) if n in names}
    for c in conns if conns is not None else topo["conns"]:
        if c["src"] in nodes and c["dst"] in nodes:
            nodes[c["dst"]].connect(nodes[c["src"]], window=c["window"], skip=c["skip"], delay=0.005, name=c["name"])
    return nodes


# ------------------------------------------------------------------------------------------------
# random graphs


def _times(rng, onp, n, dtype, start=0.0):
    # increasing, exactly representable in float32 (multiples of 1/256)
    t = start
    out = []
    for _ in range(n):
        t += rng.randint(1, 40) / 256.0
        out.append(t)
    return onp.array(out, dtype=dtype)


def rand_vertex(rng, onp, base, length, fdtype, idtype):
    seq = onp.arange(length, dtype=idtype)
    ts_start = _times(rng, onp, length, fdtype)
    ts_end = (ts_start + onp.array([rng.randint(0, 20) / 256.0 for _ in range(length)], dtype=fdtype)).astype(fdtype)
    return base.Vertex(seq=seq, ts_start=ts_start, ts_end=ts_end)


def rand_edge_cols(rng, onp, len_src, len_dst, style, fdtype, idtype):
    """(seq_out, seq_in, ts_recv): seq_out increasing, seq_in non-decreasing with -1 for messages that were never received
    (in the middle and at the end); style 'window' prepends rows with seq_out = -1 (what apply_window(...).to_graph() produces)."""
    m = rng.randint(0, len_src)
    seq_out = list(range(m))
    seq_in, cur = [], 0
    for k in range(m):
        if len_dst == 0 or rng.random() < (0.25 if style != "clean" else 0.0):
            seq_in.append(-1)
        else:
            cur = min(len_dst - 1, cur + rng.randint(0, 2))
            seq_in.append(cur)
    if style != "clean" and m > 0 and rng.random() < 0.5:  # trailing never-received messages
        for k in range(rng.randint(1, min(3, m))):
            seq_in[m - 1 - k] = -1
    ts = [float(x) for x in _times(rng, onp, m, fdtype, start=rng.randint(0, 8) / 256.0)]
    if style == "window" and len_dst > 0:
        lead = rng.randint(1, 3)
        seq_out = [-1] * lead + seq_out
        seq_in = [min(k, len_dst - 1) for k in range(lead)] + seq_in
        ts = [0.0] * lead + ts
    return onp.array(seq_out, dtype=idtype), onp.array(seq_in, dtype=idtype), onp.array(ts, dtype=fdtype)


def rand_graph(rng, onp, base, topo, style="mixed", lens=None, fdtype=None, idtype=None):
    fdtype = fdtype or rng.choice([onp.float64, onp.float32])
    idtype = idtype or rng.choice([onp.int64, onp.int32])
    lens = lens or {n: rng.choice([0, 1, 2, 3, 5, 8, 12]) if rng.random() < 0.15 else rng.randint(1, 9) for n in topo["names"]}
    vertices = {n: rand_vertex(rng, onp, base, lens[n], fdtype, idtype) for n in topo["names"]}
    edges = {}
    for c in topo["conns"]:
        so, si, tr = rand_edge_cols(rng, onp, lens[c["src"]], lens[c["dst"]], style, fdtype, idtype)
        edges[(c["src"], c["dst"])] = base.Edge(seq_out=so, seq_in=si, ts_recv=tr)
    return base.Graph(vertices=vertices, edges=edges)


# ------------------------------------------------------------------------------------------------
# random records


def rand_record(rng, onp, base, topo, nodes, eps=0, style="mixed", fdtype=None, idtype=None):
    """An EpisodeRecord built directly from dataclasses: per node a StepRecord (with multi-dimensional rng/state/output leaves) and
    per connection an InputRecord keyed by the *output node's name*, as AsyncGraph.get_record() does."""
    import rex.constants as const

    fdtype = fdtype or onp.float64
    idtype = idtype or onp.int64
    lens = {n: rng.randint(1, 9) for n in topo["names"]}
    recs = {}
    for n in topo["names"]:
        L = lens[n]
        v = rand_vertex(rng, onp, base, L, fdtype, idtype)
        steps = base.StepRecord(
            eps=onp.full((L,), eps, dtype=idtype), seq=v.seq, ts_start=v.ts_start, ts_end=v.ts_end, delay=(v.ts_end - v.ts_start).astype(fdtype),
            rng=onp.array([[rng.randrange(1 << 31), rng.randrange(1 << 31)] for _ in range(L)], dtype=onp.uint32).reshape(L, 2),
            inputs=None, state={"x": onp.array([[rng.randint(0, 99) for _ in range(3)] for _ in range(L)], dtype=fdtype).reshape(L, 3)},
            output={"y": onp.array([rng.randint(0, 99) for _ in range(L)], dtype=idtype)},
        )
        inputs = {}
        for c in topo["conns"]:
            if c["dst"] != n:
                continue
            so, si, tr = rand_edge_cols(rng, onp, lens[c["src"]], L, "clean" if style == "clean" else "mixed", fdtype, idtype)
            delay = onp.array([rng.randint(0, 8) / 256.0 for _ in range(len(so))], dtype=fdtype)
            msgs = base.MessageRecord(seq_out=so, seq_in=si, ts_sent=(tr - delay).astype(fdtype), ts_recv=tr, delay=delay)
            conn = [cc for cc in nodes[n].inputs.values() if cc.output_node.name == c["src"]][0]
            inputs[c["src"]] = base.InputRecord(info=conn.info, messages=msgs)
        recs[n] = base.NodeRecord(info=nodes[n].info, clock=const.Clock.SIMULATED, real_time_factor=const.RealTimeFactor.FAST_AS_POSSIBLE,
                                  ts_start=onp.array(0.0, dtype=fdtype), params={"p": onp.array([1.0, 2.0], dtype=fdtype)}, inputs=inputs, steps=steps)
    return base.EpisodeRecord(nodes=recs)


# ------------------------------------------------------------------------------------------------
# reference semantics of the networkx conversion (written from the property statement, independent of rex and of the Lean model)


class RefNx:
    """networkx semantics of add_node / add_edge on plain dicts."""

    def __init__(self):
        self.nodes = {}  # name -> dict(kind, seq, ts_start, ts_end) | None (created implicitly by an edge)
        self.edges = {}  # (u, v) -> dict()  | dict(ts_recv=)

    def add_node(self, name, **attrs):
        cur = self.nodes.get(name) or {}
        cur.update(attrs)
        self.nodes[name] = cur

    def add_edge(self, u, v, **attrs):
        self.nodes.setdefault(u, None)
        self.nodes.setdefault(v, None)
        self.edges.setdefault((u, v), {}).update(attrs)

    def same(self, other):
        return self.nodes == other.nodes and self.edges == other.edges

    def diff(self, other):
        out = []
        for k in sorted(set(self.nodes) | set(other.nodes)):
            if self.nodes.get(k, "absent") != other.nodes.get(k, "absent"):
                out.append(f"vertex {k}: {self.nodes.get(k, 'absent')} vs {other.nodes.get(k, 'absent')}")
        for k in sorted(set(self.edges) | set(other.edges)):
            if self.edges.get(k, "absent") != other.edges.get(k, "absent"):
                out.append(f"edge {k[0]}->{k[1]}: {self.edges.get(k, 'absent')} vs {other.edges.get(k, 'absent')}")
        return out


def ref_from_arrays(graph, onp):
    """What the arrays of a single-episode Graph say: executed vertices (seq != -1) with their times, consecutive steps of a node are
    linked, a message edge for every row whose two sequence numbers are both != -1, with that row's receive time."""
    R = RefNx()
    for n, v in graph.vertices.items():
        seq, ts, te = onp.asarray(v.seq), onp.asarray(v.ts_start), onp.asarray(v.ts_end)
        for i in range(len(seq)):
            if int(seq[i]) == -1:
                continue
            R.add_node(f"{n}_{int(seq[i])}", kind=n, seq=int(seq[i]), ts_start=float(ts[i]), ts_end=float(te[i]))
            if int(seq[i]) > 0:
                R.add_edge(f"{n}_{int(seq[i]) - 1}", f"{n}_{int(seq[i])}")
    for (n1, n2), e in graph.edges.items():
        so, si, tr = onp.asarray(e.seq_out), onp.asarray(e.seq_in), onp.asarray(e.ts_recv)
        for i in range(len(so)):
            if int(so[i]) == -1 or int(si[i]) == -1:
                continue
            R.add_edge(f"{n1}_{int(so[i])}", f"{n2}_{int(si[i])}", ts_recv=float(tr[i]))
    return R


def ref_from_networkx(G):
    R = RefNx()
    for name, d in G.nodes(data=True):
        if "seq" in d:
            R.nodes[name] = dict(kind=d["kind"], seq=int(d["seq"]), ts_start=float(d["ts_start"]), ts_end=float(d["ts_end"]))
        else:
            R.nodes[name] = None
    for u, v, d in G.edges(data=True):
        R.edges[(u, v)] = {k: float(x) for k, x in d.items() if k == "ts_recv"}
    return R


def ref_from_ops(ops, names):
    """fold the Lean model's call sequence (unbits'ed) with networkx semantics"""
    R = RefNx()
    nm = lambda k, s: f"{names[int(k)]}_{int(s)}"
    for op in ops:
        if op[0] == "n":
            R.add_node(nm(op[1], op[2]), kind=names[int(op[1])], seq=int(op[3]), ts_start=float(op[4]), ts_end=float(op[5]))
        elif op[0] == "s":
            R.add_edge(nm(op[1], op[2]), nm(op[3], op[4]))
        else:
            R.add_edge(nm(op[1], op[2]), nm(op[3], op[4]), ts_recv=float(op[5]))
    return R


# ------------------------------------------------------------------------------------------------
# reference semantics of the filters


def expected_connections(have, nodes_arg, flag):
    """`have`: set of (out, in) connections present in the graph / record. Result: the connections that must survive a filter to
    `nodes_arg` — those among the selected nodes, and with flag=True only those that the provided node objects are connected by."""
    keep = set()
    for (n1, n2) in have:
        if n1 not in nodes_arg or n2 not in nodes_arg:
            continue
        if flag and n1 not in [c.output_node.name for c in nodes_arg[n2].inputs.values()]:
            continue
        keep.add((n1, n2))
    return keep


def graph_json(g, idx, onp, ub=None):
    """Graph -> driver JSON (node names -> indices; times as bit patterns)"""
    import struct

    fb = lambda x: {"b": struct.unpack("<Q", struct.pack("<d", float(x)))[0]}
    col_i = lambda a: [int(x) for x in onp.asarray(a)]
    col_f = lambda a: [fb(x) for x in onp.asarray(a)]
    return dict(
        vkeys=[idx[n] for n in g.vertices], v=[[col_i(v.seq), col_f(v.ts_start), col_f(v.ts_end)] for v in g.vertices.values()],
        ekeys=[[idx[a], idx[b]] for (a, b) in g.edges], e=[[col_i(e.seq_out), col_i(e.seq_in), col_f(e.ts_recv)] for e in g.edges.values()],
    )


def record_json(r, idx, onp):
    import struct

    fb = lambda x: {"b": struct.unpack("<Q", struct.pack("<d", float(x)))[0]}
    col_i = lambda a: [int(x) for x in onp.asarray(a)]
    col_f = lambda a: [fb(x) for x in onp.asarray(a)]
    return dict(
        nkeys=[idx[n] for n in r.nodes],
        steps=[[col_i(v.steps.seq), col_f(v.steps.ts_start), col_f(v.steps.ts_end)] for v in r.nodes.values()],
        ikeys=[[idx[a] for a in v.inputs] for v in r.nodes.values()],
        infokeys=[[idx[a] for a in v.info.inputs] for v in r.nodes.values()],
        msgs=[[[col_i(i.messages.seq_out), col_i(i.messages.seq_in), col_f(i.messages.ts_sent), col_f(i.messages.ts_recv), col_f(i.messages.delay)]
               for i in v.inputs.values()] for v in r.nodes.values()],
    )


# ------------------------------------------------------------------------------------------------
# monitors (each returns a list of (key, description))


def _arr_eq(onp, a, b):
    a, b = onp.asarray(a), onp.asarray(b)
    return a.shape == b.shape and bool(onp.array_equal(a, b))


def mon_networkx(graph, nodes, onp, label):
    """to_networkx_graph(graph) must be exactly what the arrays say."""
    from rex.utils import to_networkx_graph

    fails = []
    try:
        G = to_networkx_graph(graph, nodes=nodes)
    except Exception as ex:
        return [("nx_exception", f"{label}: to_networkx_graph raised {type(ex).__name__}: {str(ex)[:200]}")], None
    got, exp = ref_from_networkx(G), ref_from_arrays(graph, onp)
    if not got.same(exp):
        d = exp.diff(got)
        fails.append(("nx_preserves", f"{label}: to_networkx_graph differs from the graph's arrays in {len(d)} places, e.g. (arrays vs networkx) {d[:3]}"))
    return fails, got


def is_padding_of(onp, padded, orig, fill=-1):
    """padded = orig followed, along axis 0, by entries that are all `fill`"""
    padded, orig = onp.asarray(padded), onp.asarray(orig)
    n = orig.shape[0]
    if padded.ndim != orig.ndim or padded.shape[0] < n or padded.shape[1:] != orig.shape[1:]:
        return False
    fillv = onp.array(fill).astype(padded.dtype)  # -1 in an unsigned leaf (rng keys) is the all-ones pattern
    return bool(onp.array_equal(padded[:n], orig)) and bool(onp.all(padded[n:] == fillv))


def graph_leaves(g):
    out = {}
    for n, v in g.vertices.items():
        for f in ("seq", "ts_start", "ts_end"):
            out[("v", n, f)] = getattr(v, f)
    for k, e in g.edges.items():
        for f in ("seq_out", "seq_in", "ts_recv"):
            out[("e", k, f)] = getattr(e, f)
    return out


def mon_graph_stack(gs, nodes, onp, base, label):
    """Graph.stack / __len__ / __getitem__: every leaf of episode i is leaf i followed by -1 only; all leaves rectangular; len = number
    of graphs; the networkx graph of an extracted episode is the networkx graph of the original."""
    fails = []
    try:
        S = base.Graph.stack(gs)
    except Exception as ex:
        return [("stack_exception", f"{label}: Graph.stack raised {type(ex).__name__}: {str(ex)[:200]}")], None
    if len(S) != len(gs):
        fails.append(("stack_len", f"{label}: len(Graph.stack(graphs)) = {len(S)} for {len(gs)} graphs"))
    SL = graph_leaves(S)
    for key, arr in SL.items():
        mx = max(len(graph_leaves(g)[key]) for g in gs)
        if onp.asarray(arr).shape != (len(gs), mx):
            fails.append(("stack_shape", f"{label}: stacked leaf {key} has shape {onp.asarray(arr).shape}, expected {(len(gs), mx)}"))
        kinds = {onp.asarray(graph_leaves(g)[key]).dtype.kind for g in gs}
        if len(kinds) == 1 and onp.asarray(arr).dtype.kind not in kinds:
            fails.append(("stack_dtype", f"{label}: stacked leaf {key} changed dtype kind {kinds} -> {onp.asarray(arr).dtype}"))
    for i, g in enumerate(gs):
        try:
            Si = S[i]
        except Exception as ex:
            fails.append(("getitem_exception", f"{label}: stacked[{i}] raised {type(ex).__name__}: {str(ex)[:200]}"))
            continue
        if set(Si.vertices) != set(g.vertices) or set(Si.edges) != set(g.edges):
            fails.append(("stack_keys", f"{label}: stacked[{i}] has keys {sorted(Si.vertices)} / {sorted(Si.edges)}"))
            continue
        L, Lo = graph_leaves(Si), graph_leaves(g)
        for key in Lo:
            if not is_padding_of(onp, L[key], Lo[key]):
                fails.append(("stack_get", f"{label}: stacked[{i}] leaf {key} = {onp.asarray(L[key]).tolist()} is not the original {onp.asarray(Lo[key]).tolist()} followed by -1 only"))
                break
        f1, a = mon_networkx(Si, nodes, onp, f"{label} stacked[{i}]")
        f2, b = mon_networkx(g, nodes, onp, f"{label} graph {i}")
        fails += f1 + f2
        if a is not None and b is not None and not a.same(b):
            fails.append(("nx_pad", f"{label}: networkx graph of stacked[{i}] differs from the networkx graph of graph {i}: {b.diff(a)[:3]}"))
    return fails, S


def mon_graph_filter(g, nodes_arg, flag, onp, label, names_in_graph=None):
    """Graph.filter: precisely the selected vertices, precisely the connections among them, data untouched, nothing dangling."""
    fails = []
    try:
        F = g.filter(nodes_arg, filter_edges=flag)
    except Exception as ex:
        return [("filter_exception", f"{label}: Graph.filter raised {type(ex).__name__}: {str(ex)[:200]}")], None
    exp_v = [n for n in g.vertices if n in nodes_arg]
    if list(F.vertices) != exp_v:
        fails.append(("filter_vertices", f"{label}: filtered vertices {list(F.vertices)}, expected {exp_v}"))
    exp_e = expected_connections(set(g.edges), nodes_arg, flag)
    if set(F.edges) != exp_e:
        fails.append(("filter_edges", f"{label}: filtered edges {sorted(F.edges)}, expected {sorted(exp_e)} (unexpected {sorted(set(F.edges) - exp_e)}, missing {sorted(exp_e - set(F.edges))})"))
    for n, v in F.vertices.items():
        if n in g.vertices and not all(_arr_eq(onp, getattr(v, f), getattr(g.vertices[n], f)) for f in ("seq", "ts_start", "ts_end")):
            fails.append(("filter_data", f"{label}: data of vertex {n} altered by filter"))
    for k, e in F.edges.items():
        if k in g.edges and not all(_arr_eq(onp, getattr(e, f), getattr(g.edges[k], f)) for f in ("seq_out", "seq_in", "ts_recv")):
            fails.append(("filter_data", f"{label}: data of edge {k} altered by filter"))
    dangling = [k for k in F.edges if k[0] not in F.vertices or k[1] not in F.vertices]
    if dangling:
        fails.append(("filter_dangling", f"{label}: filtered graph has edges {dangling} to vertices that are not part of it"))
    # idempotence (Props/C14 gfilter_idem): filtering the filtered graph again with the same selection changes nothing
    if not fails:
        try:
            F2 = F.filter(nodes_arg, filter_edges=flag)
            if list(F2.vertices) != list(F.vertices) or list(F2.edges) != list(F.edges) or not _same_graph(onp, F2, F):
                fails.append(("filter_idem", f"{label}: filtering the filtered graph again changes it: vertices {list(F2.vertices)} vs {list(F.vertices)}, edges {sorted(F2.edges)} vs {sorted(F.edges)}"))
        except Exception as ex:
            fails.append(("filter_exception", f"{label}: Graph.filter on a filtered graph raised {type(ex).__name__}: {str(ex)[:200]}"))
    return fails, F


def record_connections(r):
    return {(n1, n2) for n2, v in r.nodes.items() for n1 in v.inputs}


def mon_record_to_graph(r, onp, label):
    """EpisodeRecord.to_graph: one vertex per node with the recorded seq/ts_start/ts_end, one edge per recorded connection with the
    recorded seq_out/seq_in/ts_recv."""
    fails = []
    try:
        g = r.to_graph()
    except Exception as ex:
        return [("to_graph_exception", f"{label}: to_graph raised {type(ex).__name__}: {str(ex)[:200]}")], None
    if set(g.vertices) != set(r.nodes):
        fails.append(("to_graph_vertices", f"{label}: to_graph vertices {sorted(g.vertices)} vs record nodes {sorted(r.nodes)}"))
    if set(g.edges) != record_connections(r):
        fails.append(("to_graph_edges", f"{label}: to_graph edges {sorted(g.edges)} vs recorded connections {sorted(record_connections(r))}"))
    for n, v in g.vertices.items():
        st = r.nodes[n].steps
        if not (_arr_eq(onp, v.seq, st.seq) and _arr_eq(onp, v.ts_start, st.ts_start) and _arr_eq(onp, v.ts_end, st.ts_end)):
            fails.append(("to_graph_vertex_data", f"{label}: vertex {n} of to_graph does not carry the recorded seq/ts_start/ts_end"))
    for (n1, n2), e in g.edges.items():
        if n2 in r.nodes and n1 in r.nodes[n2].inputs:
            m = r.nodes[n2].inputs[n1].messages
            if not (_arr_eq(onp, e.seq_out, m.seq_out) and _arr_eq(onp, e.seq_in, m.seq_in) and _arr_eq(onp, e.ts_recv, m.ts_recv)):
                fails.append(("to_graph_edge_data", f"{label}: edge {n1}->{n2} of to_graph does not carry the recorded seq_out/seq_in/ts_recv"))
    return fails, g


def _same_graph(onp, a, b):
    la, lb = graph_leaves(a), graph_leaves(b)
    return set(la) == set(lb) and all(_arr_eq(onp, la[k], lb[k]) for k in la)


def mon_record_stack(recs, onp, base, label):
    """ExperimentRecord.stack / to_graph / EpisodeRecord.__getitem__: every leaf of stacked[i] is the recorded leaf followed by -1 only;
    stack().to_graph() equals to_graph() equals Graph.stack of the per-episode graphs."""
    import jax

    fails = []
    exp = base.ExperimentRecord(episodes=recs)
    try:
        S = exp.stack("padded")
        Gs = exp.to_graph()
    except Exception as ex:
        return [("rstack_exception", f"{label}: ExperimentRecord.stack/to_graph raised {type(ex).__name__}: {str(ex)[:200]}")]
    try:
        G2 = S.to_graph()
        if not _same_graph(onp, Gs, G2):
            fails.append(("rstack_to_graph", f"{label}: ExperimentRecord.stack().to_graph() differs from ExperimentRecord.to_graph()"))
        G3 = base.Graph.stack([r.to_graph() for r in recs])
        if not _same_graph(onp, Gs, G3):
            fails.append(("rstack_to_graph", f"{label}: ExperimentRecord.to_graph() differs from Graph.stack of the episode graphs"))
        if len(Gs) != len(recs):
            fails.append(("stack_len", f"{label}: len(ExperimentRecord.to_graph()) = {len(Gs)} for {len(recs)} episodes"))
    except Exception as ex:
        fails.append(("rstack_exception", f"{label}: to_graph of the stacked record raised {type(ex).__name__}: {str(ex)[:200]}"))
    for i, r in enumerate(recs):
        try:
            Si = S[i]
        except Exception as ex:
            fails.append(("getitem_exception", f"{label}: stacked_record[{i}] raised {type(ex).__name__}: {str(ex)[:200]}"))
            continue
        lo, tdo = jax.tree_util.tree_flatten(r)
        ls, tds = jax.tree_util.tree_flatten(Si)
        if tdo != tds:
            fails.append(("rstack_structure", f"{label}: stacked_record[{i}] has a different tree structure than episode {i}"))
            continue
        paths = [jax.tree_util.keystr(p) for p, _ in jax.tree_util.tree_flatten_with_path(r)[0]]
        for pth, a, b in zip(paths, lo, ls):
            a_, b_ = onp.asarray(a), onp.asarray(b)
            ok = _arr_eq(onp, a_, b_) if a_.ndim == 0 else (is_padding_of(onp, b_, a_) if a_.shape != b_.shape else _arr_eq(onp, a_, b_))
            if not ok:
                fails.append(("rstack_get", f"{label}: leaf {pth} of stacked_record[{i}] = {b_.tolist() if b_.size < 40 else b_.shape} is not the recorded {a_.tolist() if a_.size < 40 else a_.shape} followed by -1 only"))
                break
        try:
            gi = Si.to_graph()
            go = r.to_graph()
            la, lb = graph_leaves(gi), graph_leaves(go)
            if set(la) != set(lb) or not all(is_padding_of(onp, la[k], lb[k]) for k in lb):
                fails.append(("rstack_get_graph", f"{label}: graph of stacked_record[{i}] is not the graph of episode {i} followed by -1 only"))
            if not _same_graph(onp, gi, Gs[i]):
                fails.append(("rstack_get_graph", f"{label}: graph of stacked_record[{i}] differs from ExperimentRecord.to_graph()[{i}]"))
        except Exception as ex:
            fails.append(("rstack_exception", f"{label}: to_graph of stacked_record[{i}] raised {type(ex).__name__}: {str(ex)[:200]}"))
    return fails


def mon_record_filter(r, nodes_arg, flag, onp, label):
    """EpisodeRecord.filter: precisely the selected nodes, precisely the connections among them (records and infos), data untouched,
    no connection to a node outside the result; filter and to_graph commute."""
    fails = []
    try:
        F = r.filter(nodes_arg, filter_connections=flag)
    except Exception as ex:
        return [("rfilter_exception", f"{label}: EpisodeRecord.filter raised {type(ex).__name__}: {str(ex)[:200]}")], None
    if set(F.nodes) != set(nodes_arg):
        fails.append(("rfilter_nodes", f"{label}: filtered nodes {sorted(F.nodes)}, expected {sorted(nodes_arg)}"))
    got = record_connections(F)
    exp = expected_connections(record_connections(r), nodes_arg, flag)
    if got != exp:
        fails.append(("rfilter_connections", f"{label}: filtered connections {sorted(got)}, expected {sorted(exp)} (unexpected {sorted(got - exp)}, missing {sorted(exp - got)})"))
    info_conns = {(n1, n2) for n2, v in F.nodes.items() for n1 in v.info.inputs}
    if info_conns != got:
        fails.append(("rfilter_info", f"{label}: info.inputs of the filtered record lists {sorted(info_conns)} but inputs has {sorted(got)}"))
    for n2, v in F.nodes.items():
        if n2 not in r.nodes:
            continue
        o = r.nodes[n2]
        if not (_arr_eq(onp, v.steps.seq, o.steps.seq) and _arr_eq(onp, v.steps.ts_start, o.steps.ts_start) and _arr_eq(onp, v.steps.ts_end, o.steps.ts_end)):
            fails.append(("rfilter_data", f"{label}: steps of {n2} altered by filter"))
        for n1, i in v.inputs.items():
            if n1 in o.inputs:
                m, mo = i.messages, o.inputs[n1].messages
                if not all(_arr_eq(onp, getattr(m, f), getattr(mo, f)) for f in ("seq_out", "seq_in", "ts_sent", "ts_recv", "delay")):
                    fails.append(("rfilter_data", f"{label}: messages {n1}->{n2} altered by filter"))
    dangling = [k for k in got if k[0] not in F.nodes or k[1] not in F.nodes]
    if dangling:
        fails.append(("rfilter_dangling", f"{label}: filtered record keeps connections {dangling} from nodes that are not part of it"))
    try:
        g1 = F.to_graph()
        g2 = r.to_graph().filter(nodes_arg, filter_edges=flag)
        if set(g1.vertices) != set(g2.vertices) or set(g1.edges) != set(g2.edges) or not _same_graph(onp, g1, g2):
            fails.append(("rfilter_commute", f"{label}: record.filter(..).to_graph() has {sorted(g1.vertices)}/{sorted(g1.edges)} but record.to_graph().filter(..) has {sorted(g2.vertices)}/{sorted(g2.edges)}"))
        bad = [k for k in g1.edges if k[0] not in g1.vertices or k[1] not in g1.vertices]
        if bad:
            fails.append(("rfilter_dangling", f"{label}: graph of the filtered record has edges {bad} without vertex"))
    except Exception as ex:
        fails.append(("rfilter_exception", f"{label}: to_graph/filter of the filtered record raised {type(ex).__name__}: {str(ex)[:200]}"))
    return fails, F


def selections(rng, topo, nodes_full):
    """(label, nodes_arg) variants for the filters: the original node objects restricted to a subset (they still know connections to
    nodes outside), fresh nodes that only know the connections inside the subset, fresh nodes that know only some of those."""
    names = topo["names"]
    k = rng.randint(1, max(1, len(names) - 1))
    keep = rng.sample(names, k)
    keep = [n for n in names if n in keep]
    out = [("subset of the original node objects", {n: nodes_full[n] for n in keep})]
    out.append(("fresh nodes, all inner connections", build_nodes(topo, only=keep)))
    inner = [c for c in topo["conns"] if c["src"] in keep and c["dst"] in keep]
    if inner:
        some = [c for c in inner if rng.random() < 0.5]
        out.append(("fresh nodes, some inner connections", build_nodes(topo, only=keep, conns=some)))
    if rng.random() < 0.3:
        out.append(("all original node objects", dict(nodes_full)))
    return keep, out


# ------------------------------------------------------------------------------------------------
# worker task: real recorded episodes


def real_episodes(seed, lengths=(7, 4, 9)):
    """Record real episodes of different lengths with the asynchronous runtime (simulated clock) and run the record monitors on them."""
    import random

    import numpy as onp

    import rt
    from rex import base

    rng = random.Random(seed)
    spec = rt.rand_spec(rng, n_nodes=rng.randint(3, 4))
    shadow = rng.random() < 0.5
    if shadow:  # some connections are made under a custom input name; the record and its graph still speak of the sending node
        for c in spec["conns"]:
            if rng.random() < 0.6:
                c["name"] = f"in_{c['src']}"
        if not any(c.get("name") for c in spec["conns"]):
            spec["conns"][0]["name"] = f"in_{spec['conns'][0]['src']}"
    want_edges = {(c["src"], c["dst"]) for c in spec["conns"]}
    run = rt.AsyncRun(spec)
    recs = []
    for e, n in enumerate(lengths):
        gs = run.gs0.replace(eps=onp.int32(e))
        for _ in range(n):
            gs = run.graph.run(gs)
        run.graph.stop()
        try:
            recs.append(run.graph.get_record())
        except TypeError:
            return dict(skipped="get_record raised TypeError (a node without a step / a connection without a message)", spec=spec)
    fails, stats = [], dict(episodes=len(recs), steps={n: [int(len(r.nodes[n].steps.seq)) for r in recs] for n in recs[0].nodes})
    label = f"real episodes seed={seed}"
    for i, r in enumerate(recs):
        f, g = mon_record_to_graph(r, onp, f"{label} episode {i}")
        fails += f
        if g is not None and set(g.edges) != want_edges:
            fails.append(("to_graph_edges", f"{label} episode {i}: to_graph has the edges {sorted(g.edges)}, the system has the connections (sender, receiver) {sorted(want_edges)}"
                          f"{' (input names: ' + str({c['src'] + '->' + c['dst']: c['name'] for c in spec['conns'] if c.get('name')}) + ')' if shadow else ''}"))
        if g is not None:
            f, _ = mon_networkx(g, run.nodes, onp, f"{label} episode {i}")
            fails += f
    fails += mon_record_stack(recs, onp, base, label)
    try:
        f, _ = mon_graph_stack([r.to_graph() for r in recs], run.nodes, onp, base, label)
        fails += f
    except Exception as ex:
        fails.append(("stack_exception", f"{label}: {type(ex).__name__}: {ex}"))
    # filters with the original node objects restricted to a subset, both flags, on single and stacked records
    names = list(recs[0].nodes)
    sub_names = rng.sample(names, rng.randint(1, len(names) - 1))
    sub = {n: run.nodes[n] for n in names if n in sub_names}
    exp = base.ExperimentRecord(episodes=recs)
    for flag in (False, True):
        for i, r in enumerate(recs):
            f, _ = mon_record_filter(r, sub, flag, onp, f"{label} episode {i} filter to {sorted(sub)} filter_connections={flag}")
            fails += f
        try:
            FE = exp.filter(sub, filter_connections=flag)
            SF = exp.stack("padded").filter(sub, filter_connections=flag)
            for i in range(len(recs)):
                a, b = record_connections(FE.episodes[i]), record_connections(SF[i])
                if a != b or set(FE.episodes[i].nodes) != set(SF[i].nodes):
                    fails.append(("rfilter_stack", f"{label}: filter of the stacked record [{i}] keeps {sorted(b)}, filter of episode {i} keeps {sorted(a)}"))
        except Exception as ex:
            fails.append(("rfilter_exception", f"{label}: ExperimentRecord.filter raised {type(ex).__name__}: {str(ex)[:200]}"))
    stats["shadow_names"] = bool(shadow)
    stats["subset"] = sorted(sub)
    stats["conns"] = sorted(f"{a}->{b}" for a, b in record_connections(recs[0]))
    return dict(fails=fails[:20], stats=stats, spec=dict(nodes=[n["name"] for n in spec["nodes"]], conns=[(c["src"], c["dst"]) for c in spec["conns"]]))
