"""Worker-side functions for C11: generators, the float64 oracle of the property statement, and the monitors that run the
REAL `TrainableDist.apply_delay` (interp = "linear" / "linear_real_only") and `jax.grad` through it.

Everything a case needs is derived from (seed, index) so that a failure replays exactly; the failure records carry the
concrete buffer anyway."""
import math
import os
import random
import sys

import numpy as onp

EPS32 = 2.0**-23
VARIANT_CODE = {"linear": 1, "linear_real_only": 2}
RATES = [10.0, 20.0, 5.0, 8.0, 3.0, 50.0]
KNOWN_TRANSPOSED = "transposed_multidim_leaf"
KNOWN_ABSORBED = "real_only_mask_absorbed"

_REX = {}


def _rex():
    if not _REX:
        repo = os.environ.get("REX_REPO", "/repo")
        if repo not in sys.path:
            sys.path.insert(0, repo)
        import jax
        import jax.numpy as jnp
        from rex import base

        _REX.update(jax=jax, jnp=jnp, base=base)
    return _REX["jax"], _REX["jnp"], _REX["base"]


def f32(x):
    return float(onp.float32(x))


# ------------------------------------------------------------------------------------------------
# generators


def gen_config(rng, stream):
    """One static configuration (everything jit treats as static): variant, rate, delay range, window, leaf layout."""
    variant = rng.choice(["linear", "linear_real_only"])
    window = rng.choice([1, 2, 2, 3])
    if stream == "tie":  # float32-exact dyadic values: the outcome of an exact tie is well defined
        rate = rng.choice([8.0, 16.0, 4.0])
        E = rng.choice([1, 2])
        dmin = rng.choice([0.0, 0.0, 1 / 64, 1 / 32])
        span = E / rate
    else:
        rate = rng.choice(RATES)
        E = rng.choice([1, 1, 2, 2, 3])
        dmin = 0.0 if rng.random() < 0.5 else round(rng.uniform(0.005, 0.08), 4)
        span = (E - rng.uniform(0.1, 0.9)) / rate
    if stream == "late":
        variant = "linear_real_only"
        if E == 1:
            E = 2
            span = (E - rng.uniform(0.1, 0.5)) / rate
    leaves = [dict(name="x", shape=[], dtype="float32")]
    if rng.random() < 0.5:
        leaves.append(dict(name="i", shape=[], dtype=rng.choice(["int32", "int32", "int16"])))
    if rng.random() < 0.6:
        leaves.append(dict(name="v", shape=[rng.choice([1, 2, 3])], dtype="float32"))
    if rng.random() < 0.3:
        leaves.append(rng.choice([dict(name="m", shape=[2, 2], dtype="float32"), dict(name="m", shape=[2], dtype="int32"), dict(name="m", shape=[1, 2], dtype="float32")]))
    if rng.random() < 0.12:
        leaves.append(dict(name="h", shape=[], dtype="float16"))
    return dict(variant=variant, rate=rate, E=E, window=window, dmin=dmin, dmax=dmin + span, leaves=leaves, stream=stream)


def _payload(rng, leaf, ks, sent, npad):
    """values of one leaf for the real messages ks (+ npad dummies in front, all with the same init value)"""
    F = int(onp.prod(leaf["shape"])) if leaf["shape"] else 1
    n = len(ks)
    if leaf["dtype"].startswith("int"):
        real = onp.array([[rng.randint(-20, 20) for _ in range(F)] for _ in range(n)], dtype=onp.float64).reshape(n, F)
        dummy = onp.full((npad, F), float(rng.choice([0, -3, 5])))
    else:
        cols = []
        for _ in range(F):
            A, w, ph, B = rng.uniform(0.5, 5.0), rng.uniform(0.3, 2.5), rng.uniform(0, 6.28), rng.uniform(-1, 1)
            cols.append([A * math.sin(w * k + ph) + B * k for k in ks])
        real = onp.array(cols, dtype=onp.float64).T.reshape(n, F)
        dummy = onp.full((npad, F), float(rng.choice([0.0, -7.0, 2.5])))
    Y = onp.concatenate([dummy, real], axis=0)
    Y = Y.astype(leaf["dtype"]).astype(onp.float64)  # exactly representable in the leaf's dtype
    return Y


def gen_case(rng, cfg, kind):
    """kind: steady | startup | first | second | tie | late.  Returns a dict of plain lists (JSON-able)."""
    rate, E, window, dmin, dmax = cfg["rate"], cfg["E"], cfg["window"], cfg["dmin"], cfg["dmax"]
    cum = window + E
    T = 1.0 / rate
    N = cum + 7
    for _attempt in range(40):
        if kind == "tie":
            T0 = rng.choice([0.0, 0.0, 2.0])
            comp = rng.randint(0, 3) / 64
            sent = [f32(T0 + k * T + comp) for k in range(N)]
            m = rng.randint(0, int(round((dmax - dmin) * 64)))
            d = dmin + m / 64
            k_tie = rng.randint(0, N - 2)
            ts = f32(sent[k_tie] + d)  # message k_tie arrives exactly at ts
        else:
            T0 = rng.choice([40.0, 100.0]) if kind == "late" else rng.choice([0.0, 0.0, 0.0, 3.7, 17.2])
            comp = rng.uniform(0.0, 0.6 * T)
            jit = rng.random() < 0.4
            sent = [f32(T0 + k * T + comp + (rng.uniform(0, 0.3 * T) if jit else 0.0)) for k in range(N)]
            u = rng.random()
            alpha = 0.0 if u < 0.05 else 1.0 if u > 0.95 else rng.random()
            if kind == "late":
                alpha = rng.uniform(0.75, 1.0)
            d = dmin + alpha * (dmax - dmin)
            if kind in ("first", "second") and alpha < 0.3:
                alpha = rng.uniform(0.3, 1.0)
                d = dmin + alpha * (dmax - dmin)
            if kind == "steady":
                ts = f32(rng.uniform(sent[cum + 1] + dmax, sent[N - 1]))
            elif kind == "first":  # the first real message is in the buffer, its delayed arrival is still ahead: newest arrived slot is a dummy
                lo, hi = sent[0] + dmin, sent[0] + d
                ts = f32(lo + rng.uniform(0.1, 0.9) * (hi - lo))
            elif kind == "second":  # only message 0 (seq == 0) has arrived under the delay: older slots are dummies
                lo, hi = sent[0] + d, sent[1] + d
                ts = f32(lo + rng.uniform(0.1, 0.9) * (hi - lo))
            elif kind == "startup":
                ts = f32(rng.uniform(max(T0, 0.0), sent[min(cum + 1, N - 1)] + dmax))
            else:  # late: the first real message is in the buffer but its delayed arrival is still ahead
                lo, hi = max(sent[0], sent[1] if rng.random() < 0.8 else sent[0]) + dmin, sent[0] + d
                if hi - lo < 0.05 * T:
                    continue
                ts = f32(lo + rng.uniform(0.2, 0.8) * (hi - lo))
        if ts < 0:
            continue
        # the dist computes alpha from d and d from alpha again; take the delay the implementation will use
        alpha = (d - dmin) / (dmax - dmin)
        if not (0.0 <= alpha <= 1.0):
            continue
        d_impl = f32(dmin + alpha * (dmax - dmin))
        tie_eps = 2e-5 * max(1.0, abs(ts))
        if kind != "tie":
            if any(abs(s + dmin - ts) < 5 * tie_eps for s in sent):  # buffer membership must be clear
                continue
            if any(abs(f32(s + d_impl) - ts) < 5 * tie_eps for s in sent):  # arrival under the delay must be clear
                continue
        arrived = [k for k in range(N) if f32(sent[k] + dmin) <= ts]
        ks = arrived[-cum:]
        npad = cum - len(ks)
        if kind == "late" and not (len(ks) >= 1 and npad >= window):
            continue
        seq = [-1] * npad + ks
        ts_sent = [0.0] * npad + [sent[k] for k in ks]
        ts_recv = [0.0] * npad + [f32(sent[k] + dmin) for k in ks]
        data = {leaf["name"]: _payload(rng, leaf, ks, sent, npad).tolist() for leaf in cfg["leaves"]}
        return dict(kind=kind, alpha=alpha, d=d_impl, ts=ts, seq=seq, ts_sent=ts_sent, ts_recv=ts_recv, data=data)
    return None


# ------------------------------------------------------------------------------------------------
# the oracle: the property statement evaluated in float64


def pl_interp(xs, Y, q):
    """clamped piecewise-linear interpolation through knots xs (non-decreasing) with values Y[k, :] at q.
    Same function as RexModel.Lib.LinearDelay.interp1; only AT a duplicated abscissa carrying two payloads (where the
    mathematical function is not defined) it follows jnp.interp's convention (the segment right of the query, the last
    pair if there is none) instead of interp1's (first duplicate)."""
    n = len(xs)
    if n == 1 or q < xs[0]:
        return Y[0].copy()
    if q > xs[n - 1]:
        return Y[n - 1].copy()
    i = 0
    while i < n and xs[i] <= q:  # searchsorted(xs, q, side="right")
        i += 1
    i = min(max(i, 1), n - 1)
    dx = xs[i] - xs[i - 1]
    if abs(dx) <= 1e-300:
        return Y[i - 1].copy()
    return Y[i - 1] + ((q - xs[i - 1]) / dx) * (Y[i] - Y[i - 1])


def oracle(variant, seq, sent, recv_in, d, ts, window, Y):
    """Expected window values (window x F) for payload Y (cum x F) according to the property:
    the sender's signal is the clamped piecewise-linear function through (arrival time, payload) of the messages
    (arrival = ts_sent + d for real messages; "linear": dummies are knots at their own receive time;
    "linear_real_only": dummies are not part of the signal), the newest entry is the signal at ts_start, entry j is the
    signal at ts_start - (x_last - x_j) of the sliced arrival times; a dummy slot of "linear_real_only" shows the dummy
    payload while the newest slot is real, and the signal at ts_start (= first real message, clamped) while it is not.
    Returns (expected, info)."""
    seq = onp.asarray(seq)
    sent = onp.asarray(sent, dtype=onp.float64)
    recv_in = onp.asarray(recv_in, dtype=onp.float64)
    Y = onp.asarray(Y, dtype=onp.float64)
    cum = len(seq)
    real = seq >= 0
    recv = onp.where(real, sent + d, recv_in)
    idx_max = cum
    for k in range(cum):
        if recv[k] > ts:
            idx_max = k
            break
    in_range = idx_max >= window
    info = dict(idx_max=idx_max, in_range=in_range)
    if variant == "linear":
        xs, Ys = recv, Y
    else:
        xs, Ys = recv[real], Y[real]
    def signal(q):
        if len(xs) == 0:
            return Y[cum - 1].copy()  # no real message at all: the (dummy) payload
        return pl_interp(xs, Ys, q)
    out = onp.zeros((window, Y.shape[1]))
    queries = [None] * window
    out[window - 1] = signal(ts)
    queries[window - 1] = ts
    newest_slot = idx_max - 1
    info["newest_slot_dummy"] = bool(newest_slot >= 0 and not real[newest_slot]) if in_range else None
    if in_range:
        for j in range(window - 1):
            s = idx_max - window + j
            if variant == "linear":
                q = ts - (recv[newest_slot] - recv[s])
                out[j] = signal(q)
                queries[j] = q
            else:
                if real[s]:
                    q = ts - (recv[newest_slot] - recv[s])
                    out[j] = signal(q)
                    queries[j] = q
                elif real[newest_slot]:
                    out[j] = Y[0]  # dummy slot: the dummy message
                    queries[j] = -1e9
                else:
                    out[j] = signal(ts)  # the shift cancels the mask of every dummy slot
                    queries[j] = ts
    info["queries"] = queries
    # slope bound over all segments that exist in the signal (time error -> value error)
    L = 0.0
    for k in range(len(xs) - 1):
        dx = xs[k + 1] - xs[k]
        if dx > 1e-9:
            L = max(L, float(onp.max(onp.abs(Ys[k + 1] - Ys[k]))) / dx)
    info["L"] = L
    info["recv"] = recv.tolist()
    return out, info


def seg_slope(xs, ys, q, margin):
    """(slope, True, k) if q is strictly inside segment k of the knots xs with `margin` to both ends (k = -1 and slope 0
    outside all knots), else (None, False, None)."""
    n = len(xs)
    if n == 0:
        return 0.0, True, -1
    if q < xs[0] - margin or q > xs[n - 1] + margin:
        return 0.0, True, -1
    for k in range(n - 1):
        if xs[k] + margin < q < xs[k + 1] - margin:
            return (ys[k + 1] - ys[k]) / (xs[k + 1] - xs[k]), True, k
    return None, False, None


# ------------------------------------------------------------------------------------------------
# running the real implementation


class Impl:
    """jit-compiled closures around the REAL apply_delay for one static configuration"""

    def __init__(self, cfg, use_jit=True):
        jax, jnp, base = _rex()
        self.cfg = cfg
        self.jax, self.jnp, self.base = jax, jnp, base
        rate, dmin, dmax, variant = cfg["rate"], cfg["dmin"], cfg["dmax"], cfg["variant"]
        self.dist = base.TrainableDist.create(delay=dmin, min=dmin, max=dmax, interp=variant)
        self.zoh = base.TrainableDist.create(delay=dmin, min=dmin, max=dmax, interp="zoh")

        def run(dist0):
            def f(alpha, seq, ts_sent, ts_recv, data, ts):
                dist = dist0.replace(alpha=alpha)
                inp = base.InputState.from_outputs(seq, ts_sent, ts_recv, data, delay_dist=dist, is_data=True)
                out = dist.apply_delay(rate, inp, ts)
                return dict(seq=out.seq, ts_sent=out.ts_sent, ts_recv=out.ts_recv, data=out.data)

            return f

        wrap = jax.jit if use_jit else (lambda g: g)
        self.f = wrap(run(self.dist))
        self.fz = wrap(run(self.zoh))
        self.g = wrap(jax.grad(lambda alpha, *a: run(self.dist)(alpha, *a)["data"]["x"][-1]))

    def args(self, case, alpha=None):
        jnp = self.jnp
        data = {}
        for leaf in self.cfg["leaves"]:
            a = onp.asarray(case["data"][leaf["name"]], dtype=onp.float64).reshape([len(case["seq"])] + list(leaf["shape"]))
            data[leaf["name"]] = jnp.asarray(a.astype(leaf["dtype"]))
        return (
            jnp.asarray(case["alpha"] if alpha is None else alpha, jnp.float32),
            jnp.asarray(case["seq"], jnp.int32),
            jnp.asarray(case["ts_sent"], jnp.float32),
            jnp.asarray(case["ts_recv"], jnp.float32),
            data,
            jnp.asarray(case["ts"], jnp.float32),
        )


def _trunc_ok(impl_v, ref, tol):
    lo, hi = math.trunc(ref - tol), math.trunc(ref + tol)
    return lo <= impl_v <= hi


def check_case(im, case, out):
    """Runs the implementation on one case and evaluates the monitors. `out` collects failures/known/counts/..."""
    cfg = im.cfg
    jax = im.jax
    variant, window, rate = cfg["variant"], cfg["window"], cfg["rate"]
    T = 1.0 / rate
    ts, d = case["ts"], case["d"]
    seq, sent, recv_in = case["seq"], case["ts_sent"], case["ts_recv"]
    cum = len(seq)
    desc0 = (f"interp={variant} rate={rate} min={cfg['dmin']:.6g} max={cfg['dmax']:.6g} delay={d:.7g} (alpha={case['alpha']:.6g}) window={window} ts_start={ts:.7g} "
             f"seq={seq} ts_sent={[round(s, 6) for s in sent]}")
    replay = dict(cfg=cfg, case=case)

    def fail(key, msg):
        out["failures"].append(dict(key=key, desc=f"{msg} | {desc0}", replay=replay))

    def known(key, msg):
        out["known"].append(dict(key=key, desc=f"{msg} | {desc0}", replay=replay))

    def count(k, n=1):
        out["counts"][k] = out["counts"].get(k, 0) + n

    try:
        res = im.f(*im.args(case))
        res = jax.tree_util.tree_map(onp.asarray, res)
    except Exception as ex:
        fail("exception", f"apply_delay raised {type(ex).__name__}: {str(ex)[:200]}")
        return
    out["evaluations"] += 1
    count(f"variant={variant}")
    count(f"kind={case['kind']}")
    count(f"window={window}")
    count("min>0" if cfg["dmin"] > 0 else "min=0")
    ndummy = sum(1 for s in seq if s < 0)
    count("has_dummy" if ndummy else "all_real")

    # pseudo leaves: seq / ts_sent / ts_recv are interpolated by the same code path
    sentA = onp.asarray(sent, dtype=onp.float64)
    seqA = onp.asarray(seq)
    recv_delayed = onp.where(seqA >= 0, sentA + d, onp.asarray(recv_in, dtype=onp.float64))
    leaves = [dict(name="@seq", shape=[], dtype="int32", Y=seqA.astype(onp.float64).reshape(cum, 1), got=res["seq"]),
              dict(name="@ts_sent", shape=[], dtype="float32", Y=sentA.reshape(cum, 1), got=res["ts_sent"]),
              dict(name="@ts_recv", shape=[], dtype="float32", Y=recv_delayed.reshape(cum, 1), got=res["ts_recv"])]
    for leaf in cfg["leaves"]:
        F = int(onp.prod(leaf["shape"])) if leaf["shape"] else 1
        leaves.append(dict(name=leaf["name"], shape=leaf["shape"], dtype=leaf["dtype"], Y=onp.asarray(case["data"][leaf["name"]], dtype=onp.float64).reshape(cum, F), got=res["data"][leaf["name"]]))

    tmax = max([abs(ts)] + [abs(s) for s in sent] + [1.0])
    t_err = 8 * EPS32 * tmax  # error of the float32 time arithmetic
    tie_eps = 2e-5 * max(1.0, abs(ts))
    exact = case["kind"] == "tie"
    in_tie_zone = (not exact) and any(seq[k] >= 0 and abs(f32(sent[k] + d) - ts) < tie_eps for k in range(cum))
    late_probe = case["kind"] == "late"
    info_x = None
    for lf in leaves:
        exp, info = oracle(variant, seq, sent, recv_in, d, ts, window, lf["Y"])
        if lf["name"] == "x":
            info_x = info
        got = onp.asarray(lf["got"])
        F = lf["Y"].shape[1]
        want_shape = tuple([window] + list(lf["shape"]))
        want_dtype = str(jax.dtypes.canonicalize_dtype(lf["dtype"]))
        if tuple(got.shape) != want_shape or str(got.dtype) != want_dtype:
            fail("dtype_shape", f"leaf {lf['name']}: result shape/dtype {tuple(got.shape)}/{got.dtype}, expected {want_shape}/{want_dtype}")
            continue
        G = got.astype(onp.float64).reshape(window, F)
        is_int = lf["dtype"].startswith("int")
        yscale = max(1.0, float(onp.max(onp.abs(lf["Y"]))))
        rel = 1.5e-2 if lf["dtype"] == "float16" else 2e-4
        tol = rel * yscale + info["L"] * t_err
        if lf["name"] == "@ts_recv" or lf["name"] == "@ts_sent":
            tol = 2e-6 * tmax + 4 * t_err

        def ok_entry(j, ref):
            if is_int:
                return all(_trunc_ok(G[j, e], ref[j, e], tol) for e in range(F))
            return bool(onp.all(onp.abs(G[j] - ref[j]) <= tol))

        rows = [window - 1] if (not info["in_range"] or in_tie_zone) else list(range(window))
        bad = [j for j in rows if not ok_entry(j, exp)]
        if not info["in_range"]:
            count("slice_start_negative(older entries not compared)") if lf["name"] == "x" else None
        if in_tie_zone and lf["name"] == "x":
            count("tie_zone(older entries not compared)")
        if bad:
            j = bad[0]
            what = "newest_entry" if j == window - 1 else "older_entry"
            q = info["queries"][j]
            msg = (f"leaf {lf['name']}{list(lf['shape'])}:{lf['dtype']} window entry {j - window} is {G[j].tolist()} but the sender's signal at "
                   f"{'ts_start' if j == window - 1 else f'{q:.7g}'} is {onp.round(exp[j], 6).tolist()} (tol {tol:.2g}); full result {G.tolist()} expected {onp.round(exp, 6).tolist()}")
            scr = exp.T.reshape(window, F)  # what vmap(over axis 1) + reshape produces
            if F > 1 and window > 1 and info["in_range"] and not in_tie_zone and all(ok_entry(jj, scr) for jj in range(window)):
                known(KNOWN_TRANSPOSED, f"leaf with {F} elements per message and window {window}: result is the TRANSPOSE-scramble of the expected window "
                      f"(vmap over axis 1 returns (elements, window), reshaped to (window, elements)) — {msg}")
                count("known:" + KNOWN_TRANSPOSED)
            elif late_probe and variant == "linear_real_only" and info.get("newest_slot_dummy") and ts >= 32.0:
                known(KNOWN_ABSORBED, f"newest arrived slot is a dummy and ts_start >= 32: float32 `ts_start - (-1e9)` is rounded to a multiple of 64, "
                      f"the query time is {64 * round(ts / 64):.0f} instead of ts_start — {msg}")
                count("known:" + KNOWN_ABSORBED)
            else:
                fail(what if not is_int else "int_leaf", msg)
        # betweenness (global range of the payloads; the located version follows from the oracle comparison)
        if not is_int and lf["name"] not in ("@ts_recv",):
            lo, hi = lf["Y"].min(axis=0) - tol, lf["Y"].max(axis=0) + tol
            Gs = G
            if Gs is not None and (onp.any(Gs < lo) or onp.any(Gs > hi)):
                fail("between", f"leaf {lf['name']}: a seen value {G.tolist()} leaves the range of the messages [{lo.tolist()}, {hi.tolist()}]")
    if info_x is None:
        return
    info = info_x
    # ---- non-triviality: query strictly inside a segment with slope != 0
    Yx = onp.asarray(case["data"]["x"], dtype=onp.float64).reshape(-1)
    realm = seqA >= 0
    recv = onp.asarray(info["recv"])
    if variant == "linear":
        kx, ky, kreal = recv, Yx, realm
    else:
        kx, ky, kreal = recv[realm], Yx[realm], realm[realm]
    slope, inside, kseg = seg_slope(list(kx), list(ky), ts, 0.02 * T)
    if inside and slope is not None and abs(slope) > 1e-6 and len(kx) and kx[0] < ts < kx[-1]:
        out["nontriv"].append(dict(v=variant, w=window, q=round(ts - d, 5), s=round(slope, 4), r=rate))
        count("nontrivial(query strictly inside a sloped segment)")
    if late_probe:
        return
    # ---- gradient: jax.grad w.r.t. alpha vs central finite difference of the oracle, and vs the segment slope
    span = cfg["dmax"] - cfg["dmin"]
    if inside and 0.02 < case["alpha"] < 0.98 and not in_tie_zone and not exact:
        try:
            g = float(im.g(*im.args(case)))
        except Exception as ex:
            fail("gradient", f"jax.grad through apply_delay raised {type(ex).__name__}: {str(ex)[:200]}")
            g = None
        if g is not None:
            h = 1e-6
            def val(a):
                dd = cfg["dmin"] + a * span
                e, _ = oracle(variant, seq, sent, recv_in, dd, ts, window, Yx.reshape(cum, 1))
                return float(e[window - 1, 0])
            fd = (val(case["alpha"] + h) - val(case["alpha"] - h)) / (2 * h)
            gscale = max(info["L"] * span, 1e-6)
            gtol = 6e-3 * gscale + 2e-3 * abs(fd) + info["L"] * span * (8 * EPS32 * tmax / T) + 1e-5 * max(1.0, float(onp.max(onp.abs(Yx))))
            out["evaluations"] += 1
            count("gradient_checked")
            if not math.isfinite(g) or abs(g - fd) > gtol:
                fail("gradient", f"d(newest entry)/d(alpha) from jax.grad is {g:.6g}, finite difference of the signal is {fd:.6g} (tol {gtol:.2g})")
            all_real_segment = kseg is not None and kseg >= 0 and bool(kreal[kseg])  # both ends of the segment move with the delay
            if all_real_segment and slope is not None:
                want = -slope * span
                if abs(g - want) > gtol:
                    fail("gradient", f"d(newest entry)/d(alpha) from jax.grad is {g:.6g}, but -(finite-difference slope)*(max-min) = {want:.6g} (tol {gtol:.2g})")
                count("gradient_vs_segment_slope")
    # ---- continuity in the delay (newest entry): a small step of alpha moves the value by at most L*span*step
    if not exact:
        da = 2e-3 if case["alpha"] < 0.5 else -2e-3
        try:
            res2 = im.f(*im.args(case, alpha=case["alpha"] + da))
            v1 = float(onp.asarray(res["data"]["x"])[-1])
            v2 = float(onp.asarray(res2["data"]["x"])[-1])
            d2 = cfg["dmin"] + (case["alpha"] + da) * span
            _, info2 = oracle(variant, seq, sent, recv_in, d2, ts, window, Yx.reshape(cum, 1))
            Lc = max(info["L"], info2["L"])
            bound = 1.05 * Lc * span * abs(da) + 2 * (2e-4 * max(1.0, float(onp.max(onp.abs(Yx)))) + Lc * t_err)
            out["evaluations"] += 1
            count("continuity_checked")
            if abs(v1 - v2) > bound:
                fail("continuity", f"newest entry jumps from {v1:.6g} to {v2:.6g} when alpha changes by {da} (Lipschitz bound {bound:.3g})")
        except Exception as ex:
            fail("exception", f"apply_delay raised at alpha+{da}: {type(ex).__name__}: {str(ex)[:200]}")
    # ---- exact tie: the delayed arrival coincides with a message -> the newest entry IS that message = zero-order hold
    def _on_dup(q):
        return q is not None and any(abs(kx[k + 1] - kx[k]) < 1e-12 and abs(kx[k] - q) < 1e-12 and float(abs(ky[k + 1] - ky[k])) > 0 for k in range(len(kx) - 1))

    dup_knot = _on_dup(ts)
    dup_query = any(_on_dup(q) for q in info["queries"])
    if dup_query:
        count("query_on_duplicated_knot(Lean model not compared)")
    if exact and dup_knot:
        # a real message whose delayed arrival is exactly 0.0 = the timestamp of the dummies: duplicated abscissa with two payloads
        # (outside the hypothesis of interp_knot; "linear" shows the dummy there, zero-order hold the message)
        count("tie_on_duplicated_knot(zoh not compared)")
    if exact and info["in_range"] and not dup_knot:
        try:
            rz = im.fz(*im.args(case))
            rz = jax.tree_util.tree_map(onp.asarray, rz)
            for lf in leaves[3:]:
                a = onp.asarray(res["data"][lf["name"]]).astype(onp.float64)[-1].reshape(-1)
                b = onp.asarray(rz["data"][lf["name"]]).astype(onp.float64)[-1].reshape(-1)
                F = a.size
                if F > 1 and window > 1:
                    continue  # reported through the transposed key
                tol = (1.5e-2 if lf["dtype"] == "float16" else 1e-5) * max(1.0, float(onp.max(onp.abs(lf["Y"]))))
                if onp.any(onp.abs(a - b) > tol):
                    fail("zoh_at_knot", f"leaf {lf['name']}: delayed arrival coincides with a message but linear newest entry {a.tolist()} != zero-order hold {b.tolist()}")
            if int(onp.asarray(res["seq"])[-1]) != int(onp.asarray(rz["seq"])[-1]):
                fail("zoh_at_knot", f"seq of the newest entry {int(onp.asarray(res['seq'])[-1])} != zero-order hold {int(onp.asarray(rz['seq'])[-1])} at an exact arrival")
            out["evaluations"] += 1
            count("zoh_at_knot_checked")
        except Exception as ex:
            fail("exception", f"zoh apply_delay raised {type(ex).__name__}: {str(ex)[:200]}")
    # ---- material for the Lean-model correspondence (leaf x)
    if not dup_query:
        out["driver"].append(dict(
            cmd=dict(interp=VARIANT_CODE[variant], d=d, ts=ts, window=window, seq=seq, sent=sent, recv=recv_in, ys=[float(v) for v in Yx]),
            impl=[float(v) for v in onp.asarray(res["data"]["x"]).astype(onp.float64)], in_range=bool(info["in_range"]), tie_zone=bool(in_tie_zone),
            idx_max=int(info["idx_max"]), tol=2e-4 * max(1.0, float(onp.max(onp.abs(Yx)))) + info["L"] * t_err, desc=desc0))
    if len(out["samples"]) < 2:
        out["samples"].append(dict(config=dict(variant=variant, rate=rate, min=cfg["dmin"], max=cfg["dmax"], window=window), delay=d, ts_start=ts, seq=seq,
                                   ts_sent=sent, x=[float(v) for v in Yx], seen_x=[float(v) for v in onp.asarray(res["data"]["x"])], expected_x=[float(v) for v in oracle(variant, seq, sent, recv_in, d, ts, window, Yx.reshape(cum, 1))[0][:, 0]]))


def new_out():
    return dict(failures=[], known=[], counts={}, nontriv=[], samples=[], driver=[], evaluations=0)


def run_chunk(seed, chunk, nconfigs, cases_per_config, streams):
    """One worker task: `nconfigs` configurations, `cases_per_config` cases each."""
    rng = random.Random(f"c11-{seed}-{chunk}")
    out = new_out()
    for c in range(nconfigs):
        stream = streams[c % len(streams)]
        cfg = gen_config(rng, stream)
        try:
            im = Impl(cfg)
        except Exception as ex:
            out["failures"].append(dict(key="exception", desc=f"TrainableDist.create raised {type(ex).__name__}: {ex} for {cfg}", replay=dict(cfg=cfg)))
            continue
        for i in range(cases_per_config):
            kind = stream if stream in ("tie", "late") else rng.choice(["steady"] * 9 + ["startup"] * 5 + ["first"] * 3 + ["second"] * 3)
            case = gen_case(rng, cfg, kind)
            if case is None:
                out["counts"]["generator_gave_up"] = out["counts"].get("generator_gave_up", 0) + 1
                continue
            check_case(im, case, out)
    return out


def run_replay(cfg, case):
    out = new_out()
    check_case(Impl(cfg, use_jit=False), case, out)
    return out
