"""Property monitors for the asynchronous runtime, evaluated on *real* episode records (C03, C04).
They use only the graph specification, the delay streams and the record — not the Lean machine."""
import struct

import numpy as onp

RES = 1e-6  # resolution of the simulated clock (round(., 6))
EPS = 1e-9


def ub(j):
    return struct.unpack("<d", struct.pack("<Q", int(j["b"])))[0]


def f32(x):
    return float(onp.float32(x))


def may_consume(skip, ts, ts_step):
    return ts <= ts_step and (not skip or ts < ts_step)


def c03_monitor(spec, rec, cfg, user_steps):
    """Returns list of (key, description). rec: {node: record dict}; cfg: machine cfg (for phases / rates / init data)."""
    out = []
    names = [n["name"] for n in spec["nodes"]]
    idx = {n: i for i, n in enumerate(names)}
    sup = spec["supervisor"]
    stats = dict(msgs=0, ties=0, waited2=0, windows=0, blocking_msgs=0)

    def nlim(n):
        return min(rec[n]["n"], user_steps) if n == sup else rec[n]["n"]

    # node-level: gap-free sequence numbers, no overlap
    for n in names:
        r = rec[n]
        for d in r.get("payload_corrupt", [])[:1]:
            out.append(("window_payload", f"node {n}: {d}: the window entry is not one message"))
        k = nlim(n)
        if r["seq"][:k] != list(range(k)):
            out.append(("node_seq", f"node {n}: step sequence numbers are not 0..{k-1} without gaps: {r['seq'][:min(k, 12)]}"))
        for j in range(k - 1):
            if r["ts_end"][j] > r["ts_start"][j + 1] + EPS:
                out.append(("node_overlap", f"node {n}: step {j} ends at {r['ts_end'][j]} after step {j+1} starts at {r['ts_start'][j+1]}"))
                break
        for j in range(k):
            if r["ts_end"][j] < r["ts_start"][j] - EPS:
                out.append(("node_overlap", f"node {n}: step {j} ends before it starts"))
                break
    for ci, c in enumerate(spec["conns"]):
        src, dst = c["src"], c["dst"]
        m = rec[dst].get("messages", {}).get(src)
        if m is None:
            continue
        cc = cfg["conns"][ci]
        kd = nlim(dst)
        starts = rec[dst]["ts_start"]
        nm = len([x for x in m["seq_in"] if x < kd])
        tag = f"connection {src}->{dst} ({'blocking' if c['blocking'] else 'non-blocking'}{', skip' if c['skip'] else ''}, {c['jitter']}, window {c['window']})"
        stats["msgs"] += nm
        # exactly once, in order
        if m["seq_out"][:nm] != list(range(nm)):
            bad = [j for j in range(nm) if m["seq_out"][j] != j][0]
            out.append(("exactly_once", f"{tag}: consumed messages are not seq_out 0,1,2,... : position {bad} holds seq_out {m['seq_out'][bad]} (loss, duplication or reordering)"))
            continue
        for j in range(nm - 1):
            if m["seq_in"][j + 1] < m["seq_in"][j]:
                out.append(("exactly_once", f"{tag}: message {j+1} consumed by step {m['seq_in'][j+1]} before message {j} (step {m['seq_in'][j]})"))
                break
            if m["ts_recv"][j + 1] < m["ts_recv"][j]:
                out.append(("fifo", f"{tag}: message {j+1} received at {m['ts_recv'][j+1]} before message {j} at {m['ts_recv'][j]}"))
                break
        src_end = rec[src]["ts_end"]
        for j in range(nm):
            if m["ts_recv"][j] < m["ts_sent"][j] - RES / 2 - 1e-12:
                out.append(("causal", f"{tag}: message {j} received at {m['ts_recv'][j]} before it was sent at {m['ts_sent'][j]}"))
                break
            if j < len(src_end) and m["ts_sent"][j] != src_end[j]:
                out.append(("causal", f"{tag}: message {j} send time {m['ts_sent'][j]} is not the end time {src_end[j]} of the sender's step {j}"))
                break
            k = m["seq_in"][j]
            if k < len(starts) and starts[k] < m["ts_recv"][j] - EPS:
                out.append(("early_consume", f"{tag}: message {j} (received {m['ts_recv'][j]}) consumed by step {k} that started earlier at {starts[k]}"))
                break
        # consumption policy
        if not c["blocking"]:
            rate_out = ub(cc["rate_out"])
            phase = ub(cc["phase"])

            def cond(j, k):
                ok = may_consume(c["skip"], m["ts_recv"][j], starts[k])
                if c["jitter"] == "BUFFER":
                    ok = ok and not (j / rate_out + phase > starts[k])
                return ok

            prev = 0
            for j in range(nm):
                k = m["seq_in"][j]
                first = prev
                while first < kd and not cond(j, first):
                    first += 1
                if m["ts_recv"][j] == starts[min(k, kd - 1)]:
                    stats["ties"] += 1
                if k - prev >= 2:
                    stats["waited2"] += 1
                if k != first:
                    out.append(("policy_nonblocking", f"{tag}: message {j} (received {m['ts_recv'][j]}) consumed by step {k} (start {starts[k] if k < len(starts) else '?'}), "
                                f"the policy prescribes step {first} (start {starts[first] if first < len(starts) else '?'})"))
                    break
                prev = k
        else:
            stats["blocking_msgs"] += nm
            rate_node, rate_in = ub(cc["rate_node"]), ub(cc["rate_in"])
            phase_node, phase_in = round(ub(cc["phase_node"]), 6), round(ub(cc["phase_in"]), 6)
            dt_node = 1 / rate_node
            N = 0
            for j in range(nm):
                t = round(j / rate_in + phase_in, 6)
                while True:
                    t_high = round(dt_node * N + phase_node, 6)
                    if (t < t_high) if c["skip"] else (t <= t_high):
                        break
                    N += 1
                if m["seq_in"][j] != N:
                    out.append(("policy_blocking", f"{tag}: message {j} (stamp {t}) consumed by step {m['seq_in'][j]}, the phase rule prescribes step {N}"))
                    break
        # windows: last `window` consumed messages, oldest first
        win = rec[dst].get("inputs", {}).get(src)
        if win is not None:
            w = c["window"]
            init_data = cc["init_data"]
            src_out = rec[src].get("output", [])
            hist = [(i - w, 0.0, 0.0, init_data) for i in range(w)]
            p = 0
            for k in range(kd):
                while p < len(m["seq_in"]) and m["seq_in"][p] <= k:
                    so = m["seq_out"][p]
                    hist.append((so, f32(m["ts_sent"][p]), f32(m["ts_recv"][p]), src_out[so] if so < len(src_out) else None))
                    p += 1
                exp = hist[-w:]
                got = list(zip(win["seq"][k], win["ts_sent"][k], win["ts_recv"][k], win["data"][k]))
                stats["windows"] += 1
                ok = all(g[0] == e[0] and g[1] == e[1] and g[2] == e[2] and (e[3] is None or g[3] == e[3]) for g, e in zip(got, exp)) and len(got) == len(exp)
                if not ok:
                    out.append(("window", f"{tag}: input window of step {k} is {[g[0] for g in got]} / data {[g[3] for g in got]}, expected the last {w} consumed messages {[e[0] for e in exp]} / data {[e[3] for e in exp]}"))
                    break
    # blocking steps wait for their group
    for n in names:
        r = rec[n]
        blk = [c for c in spec["conns"] if c["dst"] == n and c["blocking"]]
        if "ts_max" not in r:
            continue
        k = nlim(n)
        for j in range(k):
            exp = 0.0
            complete = True
            for c in blk:
                m = rec[n].get("messages", {}).get(c["src"])
                if m is None:
                    complete = False
                    continue
                grp = [m["ts_recv"][i] for i in range(len(m["seq_in"])) if m["seq_in"][i] == j]
                exp = max([exp, 0.0] + grp)
            if not blk:
                exp = 0.0
            if complete and r["ts_max"][j] != exp:
                out.append(("blocking_wait", f"node {n} step {j}: ts_max {r['ts_max'][j]} is not the latest arrival {exp} of its blocking group"))
                break
            if r["ts_start"][j] < r["ts_max"][j] - EPS:
                out.append(("blocking_wait", f"node {n} step {j}: started at {r['ts_start'][j]} before its blocking inputs arrived at {r['ts_max'][j]}"))
                break
    return out, stats


def c04_monitor(spec, rec, cfg, user_steps):
    out = []
    names = [n["name"] for n in spec["nodes"]]
    sup = spec["supervisor"]
    stats = dict(steps=0, overruns_freq=0, overruns_phase=0, advance_steps=0, input_held=0, msgs=0, fifo_bumps=0)
    for i, nd in enumerate(spec["nodes"]):
        n = nd["name"]
        r = rec[n]
        if "ts_scheduled" not in r:
            continue
        nc = cfg["nodes"][i]
        rate, phase = ub(nc["rate"]), ub(nc["phase"])
        comp = [ub(x) for x in nc["comp"]]
        k = min(r["n"], user_steps) if n == sup else r["n"]
        ins = [c for c in spec["conns"] if c["dst"] == n]
        only_blocking = nd["advance"] and all(c["blocking"] for c in ins)
        drift = 0.0
        # arrivals of the blocking messages each step consumed (message records: seq_in = consuming step)
        blk_arr = {}
        for c in ins:
            m = r.get("messages", {}).get(c["src"]) if c["blocking"] else None
            if m is not None:
                for si, tr in zip(m["seq_in"], m["ts_recv"]):
                    blk_arr.setdefault(si, []).append(tr)
        for j in range(k):
            stats["steps"] += 1
            sched, tmax, eprev, start, end, delay = r["ts_scheduled"][j], r["ts_max"][j], r["ts_end_prev"][j], r["ts_start"][j], r["ts_end"][j], r["delay"][j]
            if "messages" in r and tmax != max([0.0] + blk_arr.get(j, [])):
                out.append(("blocking_arrival", f"node {n} step {j}: waited for blocking arrivals until {tmax}, but the blocking messages it consumed arrived at {sorted(blk_arr.get(j, []))} "
                            f"(latest {max([0.0] + blk_arr.get(j, []))})"))
                break
            if sched != round(j / rate + phase, 6):
                out.append(("scheduled_time", f"node {n} step {j}: scheduled at {sched}, expected round({j}/{rate} + {phase}, 6) = {round(j / rate + phase, 6)}"))
                break
            exp_prev = 0.0 if j == 0 else r["ts_end"][j - 1]
            if eprev != exp_prev:
                out.append(("start_law", f"node {n} step {j}: previous end time used is {eprev}, the previous step ended at {exp_prev}"))
                break
            if abs(r["phase_scheduled"][j] - drift) > EPS:
                out.append(("drift", f"node {n} step {j} ({nd['scheduling']}): accumulated schedule shift is {r['phase_scheduled'][j]}, the law gives {drift}"))
                break
            exp_start = max(tmax, eprev) if only_blocking else max(tmax, eprev, sched + drift)
            if abs(start - exp_start) > EPS:
                out.append(("start_law", f"node {n} step {j}: started at {start}, the law gives max(sched+drift={sched + drift}, prev end={eprev}, blocking arrival={tmax}){' [advance: schedule ignored]' if only_blocking else ''} = {exp_start}"))
                break
            if not only_blocking and start < sched - EPS:
                out.append(("never_early", f"node {n} step {j}: started at {start} before its scheduled time {sched}"))
                break
            if j < len(comp) and delay != comp[j]:
                out.append(("end_law", f"node {n} step {j}: computation delay {delay} is not the {j}-th sampled delay {comp[j]}"))
                break
            if abs(end - (start + delay)) > EPS:
                out.append(("end_law", f"node {n} step {j}: ended at {end}, expected start + delay = {start + delay}"))
                break
            if only_blocking:
                stats["advance_steps"] += 1
            if eprev > sched + drift + EPS:
                stats["overruns_freq" if nd["scheduling"] == "FREQUENCY" else "overruns_phase"] += 1
            if tmax > max(eprev, sched + drift) + EPS:
                stats["input_held"] += 1
            # spacing (FREQUENCY, not held by inputs): next start >= this start + (sched' - sched)
            if nd["scheduling"] == "FREQUENCY" and not only_blocking and j + 1 < k and tmax <= max(sched + drift, eprev) + EPS:
                if r["ts_start"][j + 1] - start < r["ts_scheduled"][j + 1] - sched - EPS:
                    out.append(("frequency_spacing", f"node {n}: steps {j},{j+1} start {r['ts_start'][j+1] - start} apart, less than the scheduled spacing {r['ts_scheduled'][j+1] - sched}"))
                    break
            # drift recurrence
            if nd["scheduling"] == "FREQUENCY":
                drift = drift + max(0.0, (eprev - sched) - drift)
            else:
                drift = 0.0
    for ci, c in enumerate(spec["conns"]):
        m = rec[c["dst"]].get("messages", {}).get(c["src"])
        if m is None:
            continue
        comm = [ub(x) for x in cfg["conns"][ci]["comm"]]
        prev = 0.0
        for j in range(len(m["seq_out"])):
            if m["seq_out"][j] != j or j >= len(comm):
                break
            stats["msgs"] += 1
            exp = round(max(m["ts_sent"][j] + comm[j], prev), 6)
            if m["ts_sent"][j] + comm[j] < prev:
                stats["fifo_bumps"] += 1
            if m["ts_recv"][j] != exp:
                out.append(("arrival_law", f"connection {c['src']}->{c['dst']}: message {j} received at {m['ts_recv'][j]}, the law gives round(max(sent {m['ts_sent'][j]} + delay {comm[j]}, previous {prev}), 6) = {exp}"))
                break
            prev = m["ts_recv"][j]
    return out, stats


def c03_wallclock_monitor(spec, rec, eps=1e-6):
    """C03 on a wall-clock record (measured times): exactly-once / in-order, received no earlier than sent, non-blocking policy in both
    directions on the recorded stamps (the consuming step started at or after the arrival - strictly after if skipped - and the step
    before it had already started before the arrival), gap-free non-overlapping steps."""
    out = []
    stats = dict(msgs=0, waited=0)
    for nd in spec["nodes"]:
        n = nd["name"]
        r = rec[n]
        if r["seq"] != list(range(r["n"])):
            out.append(("node_seq", f"wall clock: node {n}: step sequence numbers are not 0..{r['n']-1}: {r['seq'][:12]}"))
        for j in range(r["n"] - 1):
            if r["ts_end"][j] > r["ts_start"][j + 1] + eps:
                out.append(("node_overlap", f"wall clock: node {n}: step {j} ends at {r['ts_end'][j]} after step {j+1} starts at {r['ts_start'][j+1]}"))
                break
    for c in spec["conns"]:
        dst = rec[c["dst"]]
        m = dst.get("messages", {}).get(c["src"])
        if m is None:
            continue
        k = len(m["seq_out"])
        if m["seq_out"] != list(range(k)):
            out.append(("exactly_once", f"wall clock: connection {c['src']}->{c['dst']}: consumed messages are not 0..{k-1} in order: {m['seq_out'][:12]}"))
            continue
        if any(m["seq_in"][j] > m["seq_in"][j + 1] for j in range(k - 1)):
            out.append(("exactly_once", f"wall clock: connection {c['src']}->{c['dst']}: consuming steps are not monotone"))
        for j in range(k):
            stats["msgs"] += 1
            if m["ts_recv"][j] < m["ts_sent"][j] - eps:
                out.append(("causal", f"wall clock: connection {c['src']}->{c['dst']}: message {j} received at {m['ts_recv'][j]} before it was sent at {m['ts_sent'][j]}"))
                break
            si = m["seq_in"][j]
            if si >= dst["n"] or c["blocking"]:
                continue
            start, recv = dst["ts_start"][si], m["ts_recv"][j]
            if start < recv - eps or (c["skip"] and start <= recv - eps):
                out.append(("policy_nonblocking", f"wall clock: connection {c['src']}->{c['dst']}: message {j} (received {recv}) consumed by step {si} which started before it arrived ({start})"))
                break
            if si > 0:
                stats["waited"] += 1
                if dst["ts_start"][si - 1] > recv + eps:
                    out.append(("policy_nonblocking", f"wall clock: connection {c['src']}->{c['dst']}: message {j} (received {recv}) consumed by step {si} (start {start}) although step {si-1} "
                                f"started at {dst['ts_start'][si-1]}, after the arrival: not the first step starting at or after it"))
                    break
    return out, stats
