#!/bin/sh
# ingest round-3 seeds: seedingest3.sh C03 ...  (copies /tmp/wt/R3<id>_out/{F,G} to seeded/<id>_{F,G})
for id in "$@"; do
  for v in F G; do
    src=/tmp/wt/R3${id}_out/$v
    [ -f $src/patch.diff ] || { echo "missing $src"; continue; }
    dst=/verif/seeded/${id}_$v
    mkdir -p $dst
    cp $src/patch.diff $src/demo.py $src/meta.json $dst/
    echo "ingested $dst"
  done
done
