"""Kernels of the compiled runtime (window selection, ring-buffer indices, clipping of episode/step indices)."""
UTILS = "rex/utils.py"
PR = "rex/partition_runner.py"
BASE = "rex/base.py"

KERNELS = {
    "Compiled": [
        dict(name="aw_selectable", file=UTILS, func="apply_window._apply_window._get_window_index", loc=("call_arg", "jnp.argwhere", 0, 0), result="Bool", ty="Int",
             rename={"reversed_seq_in": "seq_in", "_seq": "seq_"}, params=["seq_in", "seq_"], props=["C01", "C07"]),
        dict(name="aw_seq_in", file=UTILS, func="apply_window._scan_body", loc=("assign_unique", "seq_in"), ty="Int",
             rename={"edge.seq_out": "seq_out", "edge.seq_in": "seq_in"}, params=["seq_out", "seq_in"], props=["C01", "C07"]),
        dict(name="aw_sentinel", file=UTILS, func="apply_window._apply_window", loc=("assign_unique", "win_seq_in"), ty="Int",
             rename={"indexed_windows.seq_in": "seq_in"}, params=["seq_in"], props=["C01", "C07"]),
        dict(name="buf_write_idx", file=PR, func="update_output", loc=("assign_unique", "mod_seq"), ty="Int", rename={"seq": "seq_"}, params=["seq_", "size"], props=["C01", "C08"]),
        dict(name="buf_read_idx", file=PR, func="make_update_inputs._update_inputs", loc=("assign_unique", "mod_seq"), ty="Int", rename={"t.seq": "seq_"}, params=["seq_", "size"], props=["C01", "C08"]),
        dict(name="noop_read_idx", file=PR, func="make_run_partition_excl_supervisor._run_generation", loc=("call_arg", "rjax.tree_take", 1, 1), ty="Int",
             rename={"timings_node.seq": "seq_"}, params=["seq_", "size"], props=["C08"]),
        dict(name="replace_eps_clip", file=BASE, func="GraphState.replace_eps", loc=("assign_unique", "eps"), ty="Int", params=["eps", "max_eps"], props=["C09"]),
        dict(name="replace_step_clip", file=BASE, func="GraphState.replace_step", loc=("assign_unique", "step"), ty="Int", params=["step", "max_step"], props=["C09"]),
        dict(name="seq_increment", file=PR, func="make_update_state._update_state", loc=("kwarg", "step_state.replace", 0, "seq"), ty="Int", rename={"step_state.seq": "seq_"}, params=["seq_"], props=["C01", "C06"]),
        dict(name="run_node_seq_increment", file=PR, func="make_run_partition_excl_supervisor._run_node", loc=("kwarg", "_new_ss.replace", 0, "seq"), ty="Int", rename={"_new_ss.seq": "seq_"}, params=["seq_"], props=["C01", "C06"]),
    ],
}
