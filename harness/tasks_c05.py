"""Worker-side tasks for C05: lifecycle call histories with gate-forced interleavings of stop()."""
import random
import threading
import time

import rt


class StopInterleaver:
    """Controller for the REX_VERIF gates: forces a chosen interleaving of the stop() handshake (all waits bounded)."""

    def __init__(self, mode, seed):
        self.mode = mode
        self.armed = False
        self.user_flipped = threading.Event()
        self.user_cancelled = threading.Event()
        self.sup_at = {}
        self.rnd = random.Random(seed)
        self.lock = threading.Lock()
        self.hits = []
        self.slept = 0.0

    def __call__(self, name, ctx):
        if not self.armed:
            return
        m = self.mode
        if name == "stop_flipped":
            self.user_flipped.set()
            if m == "user_after_flip":
                time.sleep(0.05)
        elif name == "stop_cancelled":
            self.user_cancelled.set()
        elif name == "sync_before_publish" and m == "sup_before_publish":
            self.hits.append(name)
            self.user_cancelled.wait(timeout=2.0)
        elif name == "sync_published" and m == "sup_after_publish":
            self.hits.append(name)
            self.user_cancelled.wait(timeout=2.0)
        elif name == "sync_published" and m == "sup_between_flip_and_cancel":
            self.hits.append(name)
            self.user_flipped.wait(timeout=2.0)
        elif m == "random" and name in ("task_start", "sync_before_publish", "sync_published", "sync_obs_set", "stop_flipped", "block_enter"):
            with self.lock:
                d = self.rnd.random() * 0.003
                if self.slept > 1.0:  # bounded: a free-running source queues thousands of tasks
                    d = 0.0
                self.slept += d
            if d > 0:
                time.sleep(d)


def _feedforward_spec(rng):
    r1, r2 = rng.choice([(20, 10), (40, 20), (10, 10), (30, 10)])
    return dict(nodes=[dict(name="n0", rate=r1, comp=dict(kind="det", loc=0.005, scale=0.0), advance=False, scheduling="FREQUENCY"),
                       dict(name="n1", rate=r2, comp=dict(kind="det", loc=0.005, scale=0.0), advance=False, scheduling="FREQUENCY")],
                conns=[dict(src="n0", dst="n1", blocking=rng.random() < 0.3, skip=False, jitter="LATEST", window=rng.randint(1, 2), comm=dict(kind="det", loc=0.004, scale=0.0))],
                supervisor="n1", seed=rng.randrange(1 << 30))


def lifecycle_case(seed, mode="none", clock="SIMULATED", topology="random", histories=None):
    """Runs call histories (reset|run|step)* stop over several episodes on one graph. Returns per-episode records.
    If a call never returns the worker is killed by the pool's watchdog (reported as a hang)."""
    from rex import _verif

    rng = random.Random(seed)
    spec = _feedforward_spec(rng) if (topology == "feedforward" or clock == "WALL_CLOCK") else rt.rand_spec(rng)
    run = rt.AsyncRun(spec, clock=clock, rtf=0)
    ctl = StopInterleaver(mode, seed)
    _verif.set_controller(ctl)
    if histories is None:
        histories = [["run"] * rng.randint(1, 4), ["reset"] + ["step"] * rng.randint(0, 3), ["run"], ["reset"], ["run"] * 3, ["reset", "step"]]
        rng.shuffle(histories)
        histories = histories[:4]
    out = dict(spec=spec, mode=mode, clock=clock, episodes=[], hits=[])
    import numpy as onp

    for e, hist in enumerate(histories):
        gs = run.gs0.replace(eps=onp.int32(0))
        ss = None
        n_sup = 0
        t0 = time.time()
        for i, call in enumerate(hist):
            if i == len(hist) - 1:
                ctl.user_flipped.clear()
                ctl.user_cancelled.clear()
                ctl.slept = 0.0
                ctl.armed = True  # arm before the last call so that the supervisor's *next* step meets the gates
            if call == "run":
                gs = run.graph.run(gs)
                n_sup += 1
            elif call == "reset":
                gs, ss = run.graph.reset(gs)
            elif call == "step":
                gs, ss = run.graph.step(gs)
                n_sup += 1
        ctl.armed = True
        run.graph.stop()
        ctl.armed = False
        states = {n: str(w._state) for n, w in run.graph._async_nodes.items()}
        cstates = {f"{c.connection.output_node.name}->{n}": str(c._state) for n, w in run.graph._async_nodes.items() for c in w.inputs.values()}
        pending = {n: len([f for f, *_ in w._q_task if not f.done()]) for n, w in run.graph._async_nodes.items()}
        rec = rt.safe_get_record(run.graph)
        out["episodes"].append(dict(history=hist, n_sup=n_sup, wall=time.time() - t0, record=rt.episode_record_to_dict(rec), states=states, conn_states=cstates, pending=pending))
        out["hits"] += ctl.hits
        ctl.hits = []
    _verif.set_controller(None)
    # stop() twice in a row and stop() before any start must also return
    run.graph.stop()
    out["double_stop"] = True
    return out
