"""Worker-side tasks for C05: lifecycle call histories with gate-forced interleavings of stop()."""
import random
import threading
import time

import rt


class StopInterleaver:
    """Controller for the REX_VERIF gates: forces a chosen interleaving of the stop() handshake (all waits bounded)."""

    def __init__(self, mode, seed):
        self.mode = mode
        self.armed = False
        self.user_flipped = threading.Event()
        self.user_cancelled = threading.Event()
        self.sup_at = {}
        self.rnd = random.Random(seed)
        self.lock = threading.Lock()
        self.hits = []
        self.slept = 0.0

    def __call__(self, name, ctx):
        if not self.armed:
            return
        m = self.mode
        if name == "stop_flipped":
            self.user_flipped.set()
            if m == "user_after_flip":
                time.sleep(0.05)
        elif name == "stop_cancelled":
            self.user_cancelled.set()
        elif name == "submitted" and ctx.get("fn") == "_stopping" and m in ("user_after_stop_submit", "random"):
            # the user thread is descheduled right after it has queued a wrapper's stopping task
            self.hits.append(name)
            time.sleep(0.02)
        elif name == "sync_before_publish" and m == "sup_before_publish":
            self.hits.append(name)
            self.user_cancelled.wait(timeout=2.0)
        elif name == "sync_published" and m == "sup_after_publish":
            self.hits.append(name)
            self.user_cancelled.wait(timeout=2.0)
        elif name == "sync_published" and m == "sup_between_flip_and_cancel":
            self.hits.append(name)
            self.user_flipped.wait(timeout=2.0)
        elif m == "random" and name in ("task_start", "sync_before_publish", "sync_published", "sync_obs_set", "stop_flipped", "block_enter"):
            with self.lock:
                d = self.rnd.random() * 0.003
                if self.slept > 1.0:  # bounded: a free-running source queues thousands of tasks
                    d = 0.0
                self.slept += d
            if d > 0:
                time.sleep(d)


def _feedforward_spec(rng):
    r1, r2 = rng.choice([(20, 10), (40, 20), (10, 10), (30, 10)])
    return dict(nodes=[dict(name="n0", rate=r1, comp=dict(kind="det", loc=0.005, scale=0.0), advance=False, scheduling="FREQUENCY"),
                       dict(name="n1", rate=r2, comp=dict(kind="det", loc=0.005, scale=0.0), advance=False, scheduling="FREQUENCY")],
                conns=[dict(src="n0", dst="n1", blocking=rng.random() < 0.3, skip=False, jitter="LATEST", window=rng.randint(1, 2), comm=dict(kind="det", loc=0.004, scale=0.0))],
                supervisor="n1", seed=rng.randrange(1 << 30))


class CallWatchdog:
    """A lifecycle call that does not return within `limit` s ends the worker with a result naming the call."""

    def __init__(self, limit, info):
        self.limit, self.info, self.timer = limit, info, None

    def _fire(self, what):
        import json
        import os
        import sys

        out = getattr(sys.modules.get("__main__"), "real_stdout", sys.__stdout__)
        out.write("@@RESULT@@" + json.dumps(dict(self.info, hang=what, crashed=True), default=str) + "\n")
        out.flush()
        os._exit(3)

    def __call__(self, what, fn, *a):
        self.timer = threading.Timer(self.limit, self._fire, args=(what,))
        self.timer.daemon = True
        self.timer.start()
        try:
            return fn(*a)
        finally:
            self.timer.cancel()


def tag_eps(gs, k):
    """stamp episode tag k on the graph state and on every node's step state (the step functions report the tag they saw)"""
    import numpy as onp

    sss = {n: ss.replace(eps=onp.int32(k)) for n, ss in gs.step_state.items()}
    return gs.replace(eps=onp.int32(k)).replace_step_states(step_states=sss)


def lifecycle_case(seed, mode="none", clock="SIMULATED", topology="random", histories=None, call_limit=150):
    """Runs call histories (reset|run|step)* stop over several episodes on one graph. A "reset" (or the first "run") in the middle
    of a history starts a new episode without stop() in between. Episodes start from the initial graph state or (marked `carried`)
    from the graph state the previous episode ended in. Returns per-episode records and what every step function saw (eps, seq).
    If a call does not return the worker ends with a `hang` result naming the call."""
    from rex import _verif
    import numpy as onp

    rng = random.Random(seed)
    spec = _feedforward_spec(rng) if (topology == "feedforward" or clock == "WALL_CLOCK") else rt.rand_spec(rng)
    run = rt.AsyncRun(spec, clock=clock, rtf=0, count_calls=True)
    ctl = StopInterleaver(mode, seed)
    _verif.set_controller(ctl)
    with rt.CALL_LOCK:  # worker processes are reused: forget what earlier tasks' step functions reported
        rt.CALLS.clear()
        rt.CALLS_EPS.clear()
    if histories is None:
        histories = [["run"] * rng.randint(1, 4), ["reset"] + ["step"] * rng.randint(0, 3), ["run"], ["reset"], ["run"] * 3, ["reset", "step"],
                     ["reset", "step", "step", "reset", "step"], ["run", "run", "reset", "step"], ["reset", "reset"], ["reset", "step", "reset"]]
        rng.shuffle(histories)
        histories = histories[:5]
    out = dict(spec=spec, mode=mode, clock=clock, episodes=[], hits=[])
    wd = CallWatchdog(call_limit, dict(spec=spec, mode=mode, clock=clock))
    eps_counter = 0
    final_gs = None
    for e, hist in enumerate(histories):
        carried = final_gs is not None and rng.random() < 0.5
        start_gs = final_gs if carried else run.gs0
        eps_counter += 1
        cur_eps = eps_counter
        gs = tag_eps(start_gs, cur_eps)
        ss = None
        n_sup = 0
        obs = []
        t0 = time.time()
        for i, call in enumerate(hist):
            if i == len(hist) - 1:
                ctl.user_flipped.clear()
                ctl.user_cancelled.clear()
                ctl.slept = 0.0
                ctl.armed = True  # arm before the last call so that the supervisor's *next* step meets the gates
            what = f"episode {e} history {hist} call {i} ({call})"
            if call == "run":
                gs = wd(what, run.graph.run, gs)
                n_sup += 1
            elif call == "reset":
                if i > 0:  # a new episode without stop(): from the current graph state or from the initial one
                    carried = rng.random() < 0.5
                    eps_counter += 1
                    cur_eps = eps_counter
                    gs = tag_eps(gs if carried else run.gs0, cur_eps)
                    n_sup = 0
                    obs = []
                gs, ss = wd(what, run.graph.reset, gs)
                obs.append(int(ss.seq))
            elif call == "step":
                gs, ss = wd(what, run.graph.step, gs)
                obs.append(int(ss.seq))
                n_sup += 1
        ctl.armed = True
        wd(f"episode {e} history {hist} stop()", run.graph.stop)
        ctl.armed = False
        final_gs = gs
        states = {n: str(w._state) for n, w in run.graph._async_nodes.items()}
        cstates = {f"{c.connection.output_node.name}->{n}": str(c._state) for n, w in run.graph._async_nodes.items() for c in w.inputs.values()}
        pending = {n: len([f for f, *_ in w._q_task if not f.done()]) for n, w in run.graph._async_nodes.items()}
        rec = rt.safe_get_record(run.graph)
        with rt.CALL_LOCK:
            seen = {n: [sq for (ep_, sq) in v if ep_ == cur_eps] for n, v in rt.CALLS_EPS.items()}
        out["episodes"].append(dict(history=hist, n_sup=n_sup, wall=time.time() - t0, record=rt.episode_record_to_dict(rec), states=states, conn_states=cstates, pending=pending,
                                    carried=carried, seen=seen, obs_seq=obs))
        out["hits"] += ctl.hits
        ctl.hits = []
    _verif.set_controller(None)
    # stop() twice in a row and stop() before any start must also return
    wd("second stop()", run.graph.stop)
    out["double_stop"] = True
    return out


def wakeup_case(seed, policy="none", episodes=10, nsteps=10, call_limit=60):
    """Many short episodes of one random graph under a schedule perturbation, every lifecycle call under a watchdog: finds
    schedule-dependent stalls *between the node and connection threads* (an enabled handler nobody triggers any more), in which
    run()/step() never return. Returns dict(ok=..) or a `hang` result naming the call."""
    from rex import _verif
    import tasks_rt

    rng = random.Random(seed)
    spec = rt.rand_spec(rng, tie_stream=False)
    run = rt.AsyncRun(spec)
    wd = CallWatchdog(call_limit, dict(spec=spec, policy=policy, seed=seed))
    import numpy as onp

    t0 = time.time()
    for it in range(episodes):
        ctl = tasks_rt.Perturb(policy, seed * 1000 + it, None)
        _verif.set_controller(ctl if policy != "none" else None)
        gs = run.gs0.replace(eps=onp.int32(it))
        api = ["run", "step"][it % 2]
        if api == "run":
            for k in range(nsteps):
                gs = wd(f"episode {it} (policy {policy}): run() number {k}", run.graph.run, gs)
        else:
            gs, ss = wd(f"episode {it} (policy {policy}): reset()", run.graph.reset, gs)
            for k in range(nsteps):
                gs, ss = wd(f"episode {it} (policy {policy}): step() number {k}", run.graph.step, gs)
        wd(f"episode {it} (policy {policy}): stop()", run.graph.stop)
    _verif.set_controller(None)
    return dict(ok=True, spec=spec, episodes=episodes, wall=time.time() - t0, feats=sorted(rt.spec_features(spec)))


def productivity_probe(spec, nsteps=10, ticks=300):
    """Machine configuration of a graph with generous tick bounds: the check asks the Lean machine (in which every enabled rule may
    fire) whether the dataflow itself can reach `nsteps` supervisor observations with the runtime's 10 tokens per node. If it cannot,
    a call that never returns is token starvation of the graph (outside the supported class), not a lost wake-up."""
    run = rt.AsyncRun(spec)
    counts = {n["name"]: ticks for n in spec["nodes"]}
    return dict(cfg=rt.machine_cfg(run, counts, user_steps=nsteps))
