"""Kernel specifications for C20 (exported policy = trained actor). Generated into lean/RexModel/Gen/Policy.lean.

Everything the C20 theorems speak about is regenerated from the current source: the activation lookup table of the exported
policy and the if-chain of the Actor, the layer-count / loop-bound / layer-key index expressions of the hand-written forward
pass, the Gaussian's (loc, scale) arguments on both sides, the observation normalisation and its call-site flags (policy,
training wrapper, in-training evaluation), the action squashing, the get_action dataflow, and the PPOResult -> Policy wiring."""

from extract_c20 import TrC20

PPO = "rex/ppo.py"
AC = "rex/actor_critic.py"
RL = "rex/rl.py"
P = ["C20"]
TABLE = dict(tr_class=TrC20, rtype="List (String × String)")
PATH = dict(tr_class=TrC20, sym="Path", rtype="List String")
STR = dict(tr_class=TrC20, sym="Str", rtype="String")
KEYS = dict(tr_class=TrC20, sym="DictKeys", rtype="List String")

APPLY = "Policy.apply_actor"
GET = "Policy.get_action"
ACTOR = "Actor.__call__"
DENSE_APPLY_RE = r"nn\.Dense\(num_output_units\)\.apply\(\{'params': hl\}, x\)"  # Dense with parameters `hl` applied to `x`
DENSE_CALL_RE = r"nn\.Dense\((?:[^()]|\((?:[^()]|\([^()]*\))*\))*\)\(x\)"  # nn.Dense(<any hyper-parameters>)(x)

KERNELS = {
    "Policy": [
        # ---------------- Policy.apply_actor: the hand-written forward pass
        dict(name="pa_x0", file=PPO, func=APPLY, loc=("assign", "x", 0), params=["norm_obs"], props=P),
        dict(name="pa_is_dense_key", file=PPO, func=APPLY, loc=("comp_elt", 0), result="Bool", tr_class=TrC20, strs=["k"], types={"k": "String"}, sigs={"strIn": "String → String → Bool"}, params=["k"], props=P),
        dict(name="pa_act_table", file=PPO, func=APPLY, loc=("assign_unique", "ACTIVATIONS"), sym="StrTable", **TABLE, props=P),
        dict(name="pa_range", file=PPO, func=APPLY, loc=("range_arg", 0), ty="Int", params=["num_layers"], props=P),
        dict(name="pa_hidden_key", file=PPO, func=APPLY, loc=("fstring_value", "Dense_", 0), ty="Int", params=["i"], props=P),
        dict(name="pa_hidden_dense", file=PPO, func=APPLY, loc=("assign", "x", 2), opaque_re=[(DENSE_APPLY_RE, "dense_hl_x")], params=["dense_hl_x"], props=P),
        dict(name="pa_hidden_act", file=PPO, func=APPLY, loc=("assign", "x", 3), funs={"ACTIVATIONS[self.hidden_activation]": "act"}, params=["x"], props=P),
        dict(name="pa_final_key", file=PPO, func=APPLY, loc=("fstring_value", "Dense_", 1), ty="Int", params=["num_layers"], props=P),
        dict(name="pa_mean", file=PPO, func=APPLY, loc=("assign_unique", "x_mean"), opaque_re=[(DENSE_APPLY_RE, "dense_hl_x")], params=["dense_hl_x"], props=P),
        dict(name="pa_use_rng", file=PPO, func=APPLY, loc=("iftest_containing", "rng"), result="Bool", opaque={"rng is not None": "has_rng"}, params=["has_rng"], props=P),
        dict(name="pa_loc", file=PPO, func=APPLY, loc=("call_arg", "distrax.MultivariateNormalDiag", 0, 0), params=["x_mean"], props=P),
        dict(name="pa_scale", file=PPO, func=APPLY, loc=("call_arg", "distrax.MultivariateNormalDiag", 0, 1), funs={"jnp.exp": "exp"}, params=["log_std"], props=P),
        dict(name="pa_sampled", file=PPO, func=APPLY, loc=("assign", "x", 4), opaque={"pi.sample(seed=rng)": "pi_sample"}, params=["pi_sample"], props=P),
        dict(name="pa_det", file=PPO, func=APPLY, loc=("assign", "x", 5), params=["x_mean"], props=P),
        dict(name="pa_return", file=PPO, func=APPLY, loc=("return", 0), params=["x"], props=P),
        # ---------------- Policy.get_action: normalise(clip) -> actor -> unsquash
        dict(name="ga_norm_clip", file=PPO, func=GET, loc=("kwarg", "self.obs_scaling.normalize", 0, "clip"), result="Bool", params=[], props=P),
        dict(name="ga_norm_submean", file=PPO, func=GET, loc=("kwarg", "self.obs_scaling.normalize", 0, "subtract_mean"), result="Bool", params=[], props=P),
        dict(name="ga_norm_obs", file=PPO, func=GET, loc=("assign_unique", "norm_obs"), tr_class=TrC20,
             kwfuns={"self.obs_scaling.normalize": ("normalize", ["clip", "subtract_mean"])}, kwbool=["clip", "subtract_mean"], sigs={"normalize": "α → Bool → Bool → α"},
             opaque={"self.obs_scaling is not None": "has_obs_scaling"}, params=["has_obs_scaling", "obs"], props=P),
        dict(name="ga_action0", file=PPO, func=GET, loc=("assign", "action", 0), tr_class=TrC20, kwfuns={"self.apply_actor": ("apply_actor", ["rng"])}, sigs={"apply_actor": "α → ρ → α"}, tyvars=["ρ"], types={"rng": "ρ"},
             opaque={"self.model is not None": "has_model", "jnp.zeros((self.action_dim,), dtype=jnp.float32)": "zeros"}, params=["has_model", "norm_obs", "rng", "zeros"], props=P),
        dict(name="ga_action1", file=PPO, func=GET, loc=("assign", "action", 1), funs={"self.act_scaling.unsquash": "unsquash"},
             opaque={"self.act_scaling is not None": "has_act_scaling"}, params=["has_act_scaling", "action"], props=P),
        dict(name="ga_return", file=PPO, func=GET, loc=("return", 0), params=["action"], props=P),
        # ---------------- PPOResult -> Policy wiring, and how train() builds the Actor
        dict(name="pr_hidden_activation", file=PPO, func="PPOResult.policy", loc=("kwarg", "Policy", 0, "hidden_activation"), **PATH, props=P),
        dict(name="pr_state_independent_std", file=PPO, func="PPOResult.policy", loc=("kwarg", "Policy", 0, "state_independent_std"), **PATH, props=P),
        dict(name="pr_output_activation", file=PPO, func="PPOResult.policy", loc=("kwarg", "Policy", 0, "output_activation"), **STR, props=P),
        dict(name="pr_model", file=PPO, func="PPOResult.policy", loc=("kwarg", "Policy", 0, "model"), **PATH, props=P),
        dict(name="pr_obs_scaling", file=PPO, func="PPOResult.policy", loc=("kwarg", "Policy", 0, "obs_scaling"), **PATH, props=P),
        dict(name="pr_act_scaling", file=PPO, func="PPOResult.policy", loc=("kwarg", "Policy", 0, "act_scaling"), **PATH, props=P),
        dict(name="pr_obs_key", file=PPO, func="PPOResult.obs_scaling", loc=("call_arg", "self.runner_state.env_state.aux.get", 0, 0), **STR, props=P),
        dict(name="pr_act_key", file=PPO, func="PPOResult.act_scaling", loc=("call_arg", "self.runner_state.env_state.aux.get", 0, 0), **STR, props=P),
        dict(name="pr_act_select", file=PPO, func="PPOResult.act_scaling", loc=("lambda", 0), tr_class=TrC20, sym="Text", rtype="String", params=[], props=P),
        dict(name="tr_actor_hidden_activation", file=PPO, func="train", loc=("kwarg", "Actor", 0, "hidden_activation"), **PATH, props=P),
        dict(name="tr_actor_state_independent_std", file=PPO, func="train", loc=("kwarg", "Actor", 0, "state_independent_std"), **PATH, props=P),
        dict(name="tr_train_state_params", file=PPO, func="train", loc=("kwarg", "TrainState.create", 0, "params"), **PATH, props=P),
        # ---------------- training-time paths in train(): in-training evaluation and trajectory collection
        dict(name="ev_norm_clip", file=PPO, func="train", loc=("kwarg", "norm_obs.normalize", 0, "clip"), result="Bool", params=[], props=P),
        dict(name="ev_norm_submean", file=PPO, func="train", loc=("kwarg", "norm_obs.normalize", 0, "subtract_mean"), result="Bool", params=[], props=P),
        dict(name="ev_action", file=PPO, func="train._update_and_eval._evaluate_env_step", loc=("assign_unique", "action"), opaque={"pi.mean()": "pi_mean"}, params=["pi_mean"], props=P),
        dict(name="tr_action", file=PPO, func="train._update_step._env_step", loc=("assign_unique", "action"), opaque={"pi.sample(seed=_rng)": "pi_sample"}, params=["pi_sample"], props=P),
        # ---------------- rl.py: wrappers used during training
        dict(name="wr_norm_clip", file=RL, func="NormalizeVecObservationWrapper.step", loc=("kwarg", "norm_state.normalize", 0, "clip"), result="Bool", params=[], props=P),
        dict(name="wr_norm_submean", file=RL, func="NormalizeVecObservationWrapper.step", loc=("kwarg", "norm_state.normalize", 0, "subtract_mean"), result="Bool", params=[], props=P),
        dict(name="wr_reset_norm_clip", file=RL, func="NormalizeVecObservationWrapper.reset", loc=("kwarg", "norm_state.normalize", 0, "clip"), result="Bool", params=[], props=P),
        dict(name="wr_reset_norm_submean", file=RL, func="NormalizeVecObservationWrapper.reset", loc=("kwarg", "norm_state.normalize", 0, "subtract_mean"), result="Bool", params=[], props=P),
        dict(name="wr_obs_keys", file=RL, func="NormalizeVecObservationWrapper.step", loc=("call_arg", "gs.replace_aux", 0, 0), **KEYS, props=P),
        dict(name="wr_act_keys", file=RL, func="SquashActionWrapper.reset", loc=("call_arg", "gs.replace_aux", 0, 0), **KEYS, props=P),
        dict(name="wr_step_action", file=RL, func="SquashActionWrapper.step", loc=("assign_unique", "action"), funs={"act_scaling.unsquash": "unsquash"}, params=["action"], props=P),
        # ---------------- rl.py: NormalizeVec.normalize (scalar, applied leafwise)
        dict(name="nv_if_submean", file=RL, func="NormalizeVec.normalize", loc=("iftest", 0), result="Bool", params=["subtract_mean"], props=P),
        dict(name="nv_sub", file=RL, func="NormalizeVec.normalize", loc=("assign", "x", 0), rename={"self.mean": "mean"}, params=["x", "mean"], props=P),
        dict(name="nv_div", file=RL, func="NormalizeVec.normalize", loc=("assign", "x", 1), rename={"self.var": "var"}, funs={"jnp.sqrt": "sqrt"}, params=["x", "var"], props=P),
        dict(name="nv_if_clip", file=RL, func="NormalizeVec.normalize", loc=("iftest", 1), result="Bool", params=["clip"], props=P),
        dict(name="nv_clip", file=RL, func="NormalizeVec.normalize", loc=("assign", "x", 2), rename={"self.clip": "c"}, params=["x", "c"], props=P),
        dict(name="nv_return", file=RL, func="NormalizeVec.normalize", loc=("return", 0), params=["x"], props=P),
        # ---------------- rl.py: SquashState.unsquash (scalar, applied leafwise)
        dict(name="us_if_squash", file=RL, func="SquashState.unsquash", loc=("iftest", 0), result="Bool", rename={"self.squash": "squash"}, params=["squash"], props=P),
        dict(name="us_tanh", file=RL, func="SquashState.unsquash", loc=("assign", "x", 0), funs={"jnp.tanh": "tanh"}, params=["x"], props=P),
        dict(name="us_scale", file=RL, func="SquashState.unsquash", loc=("assign", "x", 1), rename={"self.low": "low", "self.high": "high"}, params=["x", "low", "high"], props=P),
        dict(name="us_clip", file=RL, func="SquashState.unsquash", loc=("assign", "x", 2), rename={"self.low": "low", "self.high": "high"}, params=["x", "low", "high"], props=P),
        dict(name="us_return", file=RL, func="SquashState.unsquash", loc=("return", 0), params=["x"], props=P),
        # ---------------- actor_critic.py: the Actor network (gaussian head, state-independent std)
        dict(name="ac_range", file=AC, func=ACTOR, loc=("range_arg", 0), ty="Int", rename={"self.num_hidden_layers": "num_hidden_layers"}, params=["num_hidden_layers"], props=P),
        dict(name="ac_hidden_dense", file=AC, func=ACTOR, loc=("assign", "x", 0), opaque_re=[(DENSE_CALL_RE, "dense_x")], params=["dense_x"], props=P),
        dict(name="ac_act_table", file=AC, func=ACTOR, loc=("ifstmt_containing", "self.hidden_activation", 0), sym="IfChainTable", subject="self.hidden_activation", var="x", **TABLE, props=P),
        dict(name="ac_mean", file=AC, func=ACTOR, loc=("assign", "x_mean", 0), opaque_re=[(DENSE_CALL_RE, "dense_x")], params=["dense_x"], props=P),
        dict(name="ac_loc", file=AC, func=ACTOR, loc=("call_arg", "distrax.MultivariateNormalDiag", 0, 0), params=["x_mean"], props=P),
        dict(name="ac_scale", file=AC, func=ACTOR, loc=("call_arg", "distrax.MultivariateNormalDiag", 0, 1), funs={"jnp.exp": "exp"}, rename={"actor_logtstd": "log_std"}, params=["log_std"], props=P),
        dict(name="ac_return", file=AC, func=ACTOR, loc=("return", 0), params=["pi"], props=P),
    ],
}
