"""Worker-side task functions for C15 (delay distributions). Each function takes JSON-able arguments, runs the REAL rex code
(imported from $REX_REPO) and returns JSON-able outcomes:
    dict(evals=int, fails=[(key, desc, replay)], corr=[(stream, desc, case)], counts={..}, nontriv=[obj], samples=[obj],
         model=[(cmd, impl_values, case, tolerances)], notes=[str])
The main process (harness/props/c15.py) merges the outcomes and runs the Lean driver on the `model` entries."""
import math
import os
import statistics
import sys

REPO = os.environ.get("REX_REPO", "/repo")
if REPO not in sys.path:
    sys.path.insert(0, REPO)

ND = statistics.NormalDist()


def _out():
    return dict(evals=0, fails=[], corr=[], counts={}, nontriv=[], samples=[], model=[], notes=[])


def _cnt(o, k, n=1):
    o["counts"][k] = o["counts"].get(k, 0) + n


def phi(z):
    return 0.5 * (1.0 + math.erf(z / math.sqrt(2.0)))


def true_cdf(spec, x):
    """float64 CDF of the (unclipped) distribution described by spec at x"""
    k = spec["kind"]
    if k == "det":
        return 1.0 if x >= spec["loc"] else 0.0
    if k == "normal":
        return phi((x - spec["loc"]) / spec["scale"])
    if k == "mix":
        return sum(w * phi((x - m) / s) for w, m, s in zip(spec["w"], spec["loc"], spec["scale"]))
    raise ValueError(k)


def pdf_bound(spec):
    if spec["kind"] == "normal":
        return 0.4 / spec["scale"]
    if spec["kind"] == "mix":
        return sum(w * 0.4 / s for w, s in zip(spec["w"], spec["scale"]))
    return 0.0


def make_dist(spec):
    import distrax
    import jax.numpy as jnp

    from rex import base

    k = spec["kind"]
    if k == "det":
        return base.StaticDist.create(distrax.Deterministic(loc=spec["loc"]))
    if k == "normal":
        return base.StaticDist.create(distrax.Normal(loc=spec["loc"], scale=spec["scale"]))
    if k == "mix":
        return base.StaticDist.create(
            distrax.MixtureSameFamily(
                mixture_distribution=distrax.Categorical(probs=jnp.array(spec["w"], dtype=jnp.float32)),
                components_distribution=distrax.Normal(loc=jnp.array(spec["loc"], dtype=jnp.float32), scale=jnp.array(spec["scale"], dtype=jnp.float32)),
            )
        )
    if k == "trainable":
        return base.TrainableDist.create(delay=spec["delay"], min=spec["lo"], max=spec["hi"])
    raise ValueError(k)


def _shape_of(shape):
    if shape is None:
        return ()
    if isinstance(shape, int):
        return (shape,)
    return tuple(shape)


def _key(seed):
    import jax

    k = jax.random.PRNGKey(seed[0])
    for i in seed[1:]:  # a key somewhere inside a split tree, as rex produces them
        k = jax.random.split(k, 3)[i % 3]
    return k


# ------------------------------------------------------------------------------------------------------------------
# sampling: non-negative, pure in the rng state, new rng state, reset replays


def sampling(cases, key_idx=(2, 0, 1)):
    import jax
    import numpy as onp

    from rex import base

    o = _out()
    nsplit, i_new, i_seed = key_idx
    for c in cases:
        spec, shape, nseq = c["dist"], c["shape"], c["nseq"]
        shp = tuple(shape) if isinstance(shape, list) else shape
        desc = f"dist={spec} key={c['key']} shape={shape}"
        replay = dict(task="sampling", case=c)
        o["evals"] += 1
        _cnt(o, "sample:" + spec["kind"])
        _cnt(o, "shape_rank=%d" % len(_shape_of(shp)))
        try:
            d0 = make_dist(spec)
            k = _key(c["key"])
            d = d0.reset(k)
            if spec["kind"] == "trainable":
                d1, s = d.sample(shp)
                s = onp.asarray(s)
                want = spec["delay"]
                if s.shape != _shape_of(shp):
                    o["fails"].append(("sample_shape", f"TrainableDist.sample({shape}) has shape {s.shape}: {desc}", replay))
                if not onp.all(onp.isfinite(s)) or onp.any(s < 0):
                    o["fails"].append(("sample_negative", f"TrainableDist sampled a negative/non-finite delay {s.min()}: {desc}", replay))
                if onp.any(onp.abs(s - want) > 1e-6 * max(1.0, abs(want))):
                    o["fails"].append(("trainable_sample", f"TrainableDist.create(delay={want}).sample() = {s.reshape(-1)[:3]}: {desc}", replay))
                _, s2 = d1.sample(shp)
                if not onp.array_equal(onp.asarray(s2), s):
                    o["fails"].append(("replay", f"TrainableDist samples differ between calls: {desc}", replay))
                o["model"].append(("c15.trainable", dict(lo=spec["lo"], hi=spec["hi"], delay=spec["delay"]),
                                   dict(quantile=float(d.quantile(0.3)), sample=float(s.reshape(-1)[0]) if s.size else float(d.quantile(0.3)), mean=float(d.mean()), alpha=float(d.alpha),
                                        alpha_clipped=float(d.get_alpha(spec["delay"]))), dict(case=c), (1e-5, 1e-7)))
                continue
            # --- reset installs the key
            if not onp.array_equal(onp.asarray(d.rng), onp.asarray(k)):
                o["fails"].append(("reset", f"reset(rng) did not install rng: {desc}", replay))
            d1, s = base.DelayDistribution.sample_pure(d, shp) if c.get("pure_api") else d.sample(shp)
            s = onp.asarray(s)
            # --- shape, non-negativity
            if s.shape != _shape_of(shp):
                o["fails"].append(("sample_shape", f"sample({shape}) has shape {s.shape}: {desc}", replay))
            if not onp.all(onp.isfinite(s)) or onp.any(s < 0):
                o["fails"].append(("sample_negative", f"sampled delay {float(onp.nanmin(s))} < 0 (or non-finite) : {desc}", replay))
            # --- purity: same rng state -> same delays, same new state; the distribution object is not mutated
            d1b, sb = d.sample(shp)
            if not onp.array_equal(onp.asarray(sb), s) or not onp.array_equal(onp.asarray(d1b.rng), onp.asarray(d1.rng)):
                o["fails"].append(("sample_pure", f"two sample() calls on the same rng state differ: {desc}", replay))
            if not onp.array_equal(onp.asarray(d.rng), onp.asarray(k)):
                o["fails"].append(("sample_pure", f"sample() mutated the distribution's rng in place: {desc}", replay))
            # --- a new rng state is returned
            if onp.array_equal(onp.asarray(d1.rng), onp.asarray(k)):
                o["fails"].append(("rng_not_advanced", f"sample() returned a distribution with the SAME rng state {onp.asarray(k).tolist()}: {desc}", replay))
            # --- reference for the key threading of the model (indices taken from the extracted kernels)
            ks = jax.random.split(k, nsplit)
            raw = onp.asarray(d.dist.sample(sample_shape=() if shp is None else shp, seed=ks[i_seed]))
            ref = onp.maximum(raw, 0.0)
            nneg = int((raw < 0).sum())
            _cnt(o, "raw_negative_samples", nneg)
            locs = spec["loc"] if isinstance(spec.get("loc"), list) else [spec.get("loc", 0.0)]
            scs = spec["scale"] if isinstance(spec.get("scale"), list) else [spec.get("scale", 0.0)]
            mag = max(abs(v) for v in locs) + 6 * max(scs)
            if s.shape == ref.shape and not onp.allclose(s, ref, rtol=1e-5, atol=1e-6 * mag + 1e-12):
                o["corr"].append(("sample_key_threading", f"samples are not clip(dist.sample(seed=split(rng,{nsplit})[{i_seed}]),0): impl {s.reshape(-1)[:3]} ref {ref.reshape(-1)[:3]}: {desc}", dict(case=c)))
            if not onp.array_equal(onp.asarray(d1.rng), onp.asarray(ks[i_new])):
                o["corr"].append(("sample_key_threading", f"new rng state is not split(rng,{nsplit})[{i_new}]: {desc}", dict(case=c)))
            if nneg > 0 and spec["kind"] != "det":
                o["nontriv"].append(dict(dist=spec, key=c["key"], shape=shape))
            if raw.size:
                o["model"].append(("c15.clip", dict(xs=[float(v) for v in raw.reshape(-1)[:48]]), dict(ys=[float(v) for v in s.reshape(-1)[:48]]), dict(case=c), (1e-6, 1e-9)))
            # --- successive calls: rng advances, reset replays
            seq, cur = [], d
            for _ in range(nseq):
                cur, x = cur.sample(shp)
                seq.append(onp.asarray(x))
            cur2, seq2 = cur.reset(k), []  # reset the *used* distribution to the same key
            for _ in range(nseq):
                cur2, x = cur2.sample(shp)
                seq2.append(onp.asarray(x))
            if any(not onp.array_equal(a, b) for a, b in zip(seq, seq2)):
                o["fails"].append(("replay", f"reset(rng) followed by {nseq} sample() calls does not replay the same delays: {desc}", replay))
            if any((x < 0).any() for x in seq):
                o["fails"].append(("sample_negative", f"a later sample() call returned a negative delay: {desc}", replay))
            if spec["kind"] != "det" and s.size >= 3 and nseq >= 2 and min(spec.get("scale") if isinstance(spec.get("scale"), list) else [spec.get("scale", 1.0)]) > 0:
                # two draws clipped to all zeros are equal without the rng standing still: only pairs with an unclipped value count
                same = [i for i in range(nseq - 1) if onp.array_equal(seq[i], seq[i + 1]) and float(onp.max(seq[i])) > 0]
                if same:
                    o["fails"].append(("rng_not_advanced", f"two successive sample() calls (number {same[0]} and {same[0] + 1}) returned identical arrays {seq[same[0]].reshape(-1)[:3]}: {desc}", replay))
            if c.get("jit"):
                dj, sj = jax.jit(lambda dd: dd.sample(shp))(d)
                locs = spec["loc"] if isinstance(spec.get("loc"), list) else [spec.get("loc", 0.0)]
                scs = spec["scale"] if isinstance(spec.get("scale"), list) else [spec.get("scale", 0.0)]
                mag = max(abs(v) for v in locs) + 6 * max(scs)  # XLA may fuse loc + scale*eps (fma): compare at the magnitude of the operands, not of the (cancelling) result
                if not onp.allclose(onp.asarray(sj), s, rtol=1e-5, atol=1e-6 * mag + 1e-12) or not onp.array_equal(onp.asarray(dj.rng), onp.asarray(d1.rng)):
                    o["fails"].append(("sample_pure", f"jit(sample) differs from eager sample: {desc}", replay))
                _cnt(o, "jit")
            if len(o["samples"]) < 1:
                o["samples"].append(dict(kind="sampling", dist=spec, key=c["key"], shape=shape, first=[float(v) for v in s.reshape(-1)[:4]], raw_negative=nneg))
        except Exception as ex:  # the implementation raised on a valid input
            o["fails"].append(("exception", f"{type(ex).__name__}: {str(ex)[:200]} on {desc}", replay))
    return o


# ------------------------------------------------------------------------------------------------------------------
# quantiles: monotone, agree with the CDF


def quantiles(cases):
    import jax
    import jax.numpy as jnp
    import numpy as onp

    o = _out()
    z999 = float(jax.scipy.special.ndtri(jnp.float32(0.999)))
    z001 = float(jax.scipy.special.ndtri(jnp.float32(0.001)))
    for c in cases:
        spec, qs = c["dist"], c["qs"]
        desc = f"dist={spec}"
        replay = dict(task="quantiles", case=c)
        _cnt(o, "quantile:" + spec["kind"])
        try:
            d = make_dist(spec)
            xs = []
            for q in qs:
                xs.append(float(onp.asarray(d.quantile(q)).reshape(-1)[0] if spec["kind"] == "mix" else d.quantile(q)))
                o["evals"] += 1
            if not all(math.isfinite(x) for x in xs):
                o["fails"].append(("quantile_finite", f"quantile({qs}) = {xs} not finite: {desc}", replay))
                continue
            k = spec["kind"]
            scale_all = (spec["scale"] if isinstance(spec.get("scale"), list) else [spec.get("scale", 0.0)])
            mag = max([abs(x) for x in xs] + [1e-9])
            # ---- monotone
            slack = 0.0 if k in ("mix", "det", "trainable") else 4e-7 * (mag + abs(spec["loc"]) + 4 * max(scale_all))
            for i in range(len(qs) - 1):
                if xs[i] > xs[i + 1] + slack:
                    o["fails"].append(("quantile_monotone", f"quantile({qs[i]})={xs[i]} > quantile({qs[i+1]})={xs[i+1]}: {desc}", replay))
            # ---- CDF agreement
            if k == "det":
                for q, x in zip(qs, xs):
                    if abs(x - spec["loc"]) > 1e-6 * max(1.0, abs(spec["loc"])):
                        o["fails"].append(("quantile_cdf", f"Deterministic({spec['loc']}).quantile({q}) = {x}", replay))
                o["model"].append(("c15.normal", dict(z=0.0, scale=0.0, loc=spec["loc"], z999=z999, z001=z001), dict(det=xs[0]), dict(case=c), (1e-6, 1e-9)))
            elif k == "trainable":
                for q, x in zip(qs, xs):
                    if abs(x - spec["delay"]) > 1e-6 * max(1.0, abs(spec["delay"])) or x < 0:
                        o["fails"].append(("quantile_cdf", f"TrainableDist(delay={spec['delay']}).quantile({q}) = {x}", replay))
            elif k == "normal" and spec["scale"] == 0.0:
                _cnt(o, "quantile:normal_scale0")
                for q, x in zip(qs, xs):
                    if abs(x - spec["loc"]) > 1e-6 * max(1.0, abs(spec["loc"])):
                        o["fails"].append(("quantile_cdf", f"Normal(loc={spec['loc']}, scale=0).quantile({q}) = {x}: every sample of this distribution is {spec['loc']}", replay))
                xv = onp.asarray(d.quantile(jnp.array(qs, dtype=jnp.float32)))
                if xv.shape != (len(qs),) or not onp.allclose(xv, xs, rtol=1e-6, atol=1e-9):
                    o["fails"].append(("quantile_vector", f"quantile(array) = {xv.tolist()} vs scalar calls {xs}: {desc}", replay))
                z = float(jax.scipy.special.ndtri(jnp.float32(qs[0])))
                o["model"].append(("c15.normal", dict(z=z, scale=0.0, loc=spec["loc"], z999=z999, z001=z001), dict(q=xs[0]), dict(case=c, q=qs[0]), (1e-6, 1e-9)))
            elif k == "normal":
                for q, x in zip(qs, xs):
                    tol = 2e-5 + 0.4 * (3e-7 * (abs(spec["loc"]) + 4 * spec["scale"] + abs(x)) / spec["scale"])  # float32 rounding of loc, z*scale and x, seen through the CDF slope
                    F = true_cdf(spec, x)
                    if abs(F - q) > tol:
                        o["fails"].append(("quantile_cdf", f"Normal quantile({q}) = {x} but CDF there is {F:.6f}: {desc}", replay))
                    z = float(jax.scipy.special.ndtri(jnp.float32(q)))
                    o["model"].append(("c15.normal", dict(z=z, scale=spec["scale"], loc=spec["loc"], z999=z999, z001=z001), dict(q=x), dict(case=c, q=q), (1e-5, 1e-8 + 3e-7 * (abs(spec["loc"]) + 4 * spec["scale"]))))
                # vectorised call agrees with the scalar calls
                xv = onp.asarray(d.quantile(jnp.array(qs, dtype=jnp.float32)))
                if xv.shape != (len(qs),) or not onp.allclose(xv, xs, rtol=1e-5, atol=1e-8 + 3e-7 * (abs(spec["loc"]) + 4 * spec["scale"])):
                    o["fails"].append(("quantile_vector", f"quantile(array) = {xv.tolist()} vs scalar calls {xs}: {desc}", replay))
                if spec["loc"] <= 2 * spec["scale"]:
                    o["nontriv"].append(dict(dist=spec, qs=qs))
            elif k == "mix":
                qmin = min(z001 * s + m for s, m in zip(spec["scale"], spec["loc"]))
                qmax = max(z999 * s + m for s, m in zip(spec["scale"], spec["loc"]))
                gmin, gmax = qmin * 0.9, qmax * 1.1
                step = (gmax - gmin) / 999.0
                for q, x in zip(qs, xs):
                    tol = 2e-5 + pdf_bound(spec) * 3e-7 * (abs(x) + max(spec["loc"]))
                    F_hi = true_cdf(spec, x)
                    F_lo = true_cdf(spec, x - 1.001 * step)
                    if not (F_lo - tol <= q <= F_hi + tol):
                        o["fails"].append(("quantile_cdf", f"mixture quantile({q}) = {x:.6f}: CDF there is {F_hi:.5f}, one grid cell below {F_lo:.5f} (expected CDF(x-step) <= q <= CDF(x)): {desc}", replay))
                    pos = (x - gmin) / step
                    if abs(pos - round(pos)) > 0.02 + 2e-6 * abs(x) / step or not (-0.5 <= pos <= 999.5):
                        o["corr"].append(("mix_grid", f"mixture quantile({q}) = {x} is not a point of the model's grid [{gmin}, {gmax}]/999 (position {pos:.4f}): {desc}", dict(case=c)))
                # the model's grid bounds
                for s, m in zip(spec["scale"], spec["loc"]):
                    o["model"].append(("c15.normal", dict(z=0.0, scale=s, loc=m, z999=z999, z001=z001), dict(qmax=z999 * s + m, qmin=z001 * s + m), dict(case=c), (1e-6, 1e-9)))
                if len(set(round(w, 6) for w in spec["w"])) > 1:
                    o["nontriv"].append(dict(dist=spec, qs=qs))
                    _cnt(o, "mix_unequal_weights")
                else:
                    _cnt(o, "mix_equal_weights")
            if len(o["samples"]) < 1 and k == "mix":
                o["samples"].append(dict(kind="quantiles", dist=spec, qs=qs, xs=xs))
        except Exception as ex:
            o["fails"].append(("exception", f"{type(ex).__name__}: {str(ex)[:200]} on quantile of {desc} qs={qs}", replay))
    return o


# ------------------------------------------------------------------------------------------------------------------
# the grid search of utils.mixture_distribution_quantiles on exact CDF tables (incl. ties and plateaus)


class _TableDist:
    batch_shape = ()

    def __init__(self, table):
        self.table = table

    def cdf(self, grid):
        assert len(grid) == len(self.table)
        return self.table


def grid(cases):
    import numpy as onp

    from rex import utils

    o = _out()
    for c in cases:
        table, ps, gmin, gmax = c["table"], c["ps"], c["gmin"], c["gmax"]
        n = len(table)
        replay = dict(task="grid", case=c)
        o["evals"] += len(ps)
        base_grid = onp.linspace(gmin, gmax, num=n)
        ok = table[0] <= min(ps) and max(ps) <= table[-1]
        try:
            xs = utils.mixture_distribution_quantiles(_TableDist(onp.array(table, dtype="float64")), ps, N_grid_points=n, grid_min=gmin, grid_max=gmax)
            xs = [float(v) for v in onp.asarray(xs).reshape(-1)]
        except RuntimeError as ex:
            _cnt(o, "grid_check_raised")
            if ok:
                o["fails"].append(("grid_check", f"grid check raised although cdf[0] <= min(p) and max(p) <= cdf[-1]: table={table} ps={ps}: {ex}", replay))
            continue
        except Exception as ex:
            o["fails"].append(("exception", f"{type(ex).__name__}: {str(ex)[:200]} on table={table} ps={ps}", replay))
            continue
        if not ok:
            o["fails"].append(("grid_check", f"grid check did not raise although the levels are outside the tabulated CDF: table={table} ps={ps}", replay))
            continue
        idxs = []
        for p, x in zip(ps, xs):
            first = next((i for i, cv in enumerate(table) if cv > p), None)
            i_impl = int(onp.argmin(onp.abs(base_grid - x)))
            idxs.append(i_impl)
            if first is None:
                _cnt(o, "grid_no_point_exceeds_p")  # p == max cdf: argmax of all-False = 0 (reported in notes, not a verdict)
                continue
            if any(cv == p for cv in table):
                _cnt(o, "grid_tie")
                o["nontriv"].append(dict(table=table, p=p))
            if abs(x - base_grid[first]) > 1e-12 * max(1.0, abs(x)):
                o["fails"].append(("grid_first_exceed", f"grid quantile for p={p} on CDF table {table} (grid {gmin}..{gmax}) is grid[{i_impl}]={x}; the first grid point with cdf > p is grid[{first}]={float(base_grid[first])}", replay))
        for i in range(len(ps) - 1):
            e1 = any(cv > ps[i] for cv in table)
            e2 = any(cv > ps[i + 1] for cv in table)
            if ps[i] <= ps[i + 1] and e1 and e2 and xs[i] > xs[i + 1]:
                o["fails"].append(("quantile_monotone", f"grid quantile not monotone: p={ps[i]}->{xs[i]}, p={ps[i+1]}->{xs[i+1]} table={table}", replay))
        o["model"].append(("c15.gridq", dict(grid=[float(v) for v in base_grid], cdf=table, ps=ps), dict(idx=idxs, x=xs), dict(case=c), (1e-12, 0.0)))
        if len(o["samples"]) < 1:
            o["samples"].append(dict(kind="grid", table=table, ps=ps, xs=xs))
    return o


def mixcdf(cases):
    """the MixtureSameFamily fallback of mixture_distribution_quantiles: cdf_grid = sum(component cdfs * weights)"""
    import distrax
    import jax.numpy as jnp
    import numpy as onp

    from rex import utils

    o = _out()
    for c in cases:
        spec, ps = c["dist"], c["ps"]
        replay = dict(task="mixcdf", case=c)
        o["evals"] += len(ps)
        try:
            dist = make_dist(spec).dist
            n, gmin, gmax = c["n"], c["gmin"], c["gmax"]
            xs = [float(v) for v in onp.asarray(utils.mixture_distribution_quantiles(dist, ps, N_grid_points=n, grid_min=gmin, grid_max=gmax)).reshape(-1)]
            base_grid = onp.linspace(gmin, gmax, num=n)
            step = (gmax - gmin) / (n - 1)
            cd = dist.components_distribution
            cdfs = onp.asarray(cd.cdf(jnp.asarray(base_grid)[..., None]))  # (n, K) float32, as the implementation computes them
            for p, x in zip(ps, xs):
                tol = 2e-5 + pdf_bound(spec) * 3e-7 * (abs(x) + max(spec["loc"]))
                F_hi, F_lo = true_cdf(spec, x), true_cdf(spec, x - 1.001 * step)
                if not (F_lo - tol <= p <= F_hi + tol):
                    o["fails"].append(("quantile_cdf", f"mixture_distribution_quantiles(p={p}) = {x:.6f} on a {n}-point grid [{gmin},{gmax}]: true CDF there {F_hi:.5f}, one cell below {F_lo:.5f}: dist={spec}", replay))
            sel = list(range(0, n, max(1, n // 12)))
            o["model"].append(("c15.mixcdf", dict(cdfs=[[float(v) for v in cdfs[i]] for i in sel], ws=[float(onp.float32(w)) for w in spec["w"]]),
                               dict(cdf=[float(true_cdf(spec, float(base_grid[i]))) for i in sel]), dict(case=c), (2e-4, 1e-5)))
            if len(set(round(w, 6) for w in spec["w"])) > 1:
                o["nontriv"].append(dict(dist=spec, ps=ps))
        except Exception as ex:
            o["fails"].append(("exception", f"{type(ex).__name__}: {str(ex)[:200]} on dist={spec} ps={ps}", replay))
    return o


# ------------------------------------------------------------------------------------------------------------------
# node / connection default expected delay


def nodes(cases):
    import numpy as onp

    from rex import base
    from rex.node import BaseNode

    o = _out()
    for c in cases:
        spec = c["dist"]
        replay = dict(task="nodes", case=c)
        o["evals"] += 1
        _cnt(o, "node:" + (spec["kind"] if spec else "default"))
        try:
            kw = {}
            if spec is not None:
                dd = make_dist(spec)
                kw["delay_dist"] = dd.dist if (c.get("raw_distrax") and spec["kind"] != "trainable") else dd
            other = BaseNode(name="other", rate=c["rate"])
            if other.delay != 0.0:
                o["fails"].append(("default_delay", f"node without delay distribution has expected delay {other.delay}", replay))
            objs = []
            if spec is None or spec["kind"] != "trainable":
                objs.append(("node", BaseNode(name="n", rate=c["rate"], **kw)))
            n2 = BaseNode(name="m", rate=c["rate"])
            n2.connect(other, **kw)
            objs.append(("connection", n2.inputs["other"]))
            for what, ob in objs:
                dl = ob.delay
                want = 0.0 if spec is None else float(onp.asarray(make_dist(spec).quantile(0.99)).reshape(-1)[0])
                if not (isinstance(dl, float) and math.isfinite(dl)) or dl < 0:
                    o["fails"].append(("default_delay_negative", f"{what} default expected delay {dl} is negative/non-finite for {spec}", replay))
                if abs(dl - want) > 1e-7 * max(1.0, abs(want)):
                    o["fails"].append(("default_delay", f"{what} default expected delay {dl} != delay_dist.quantile(0.99) = {want} for {spec}", replay))
                if spec is not None and spec["kind"] in ("normal", "mix"):
                    if spec["kind"] == "normal":
                        lo_ok = abs(true_cdf(spec, dl) - 0.99) <= 2e-5 + 0.4 * 3e-7 * (abs(dl) + abs(spec["loc"]) + 4 * spec["scale"]) / spec["scale"]
                        F = true_cdf(spec, dl)
                    else:
                        z = ND.inv_cdf(0.999)
                        gmin = min(m - z * s for s, m in zip(spec["scale"], spec["loc"])) * 0.9
                        gmax = max(m + z * s for s, m in zip(spec["scale"], spec["loc"])) * 1.1
                        step = (gmax - gmin) / 999.0
                        tol = 2e-5 + pdf_bound(spec) * 3e-7 * (abs(dl) + max(spec["loc"]))
                        F = true_cdf(spec, dl)
                        lo_ok = true_cdf(spec, dl - 1.002 * step) - tol <= 0.99 <= F + tol
                    if not lo_ok:
                        o["fails"].append(("default_delay_p99", f"{what} default expected delay {dl} covers {F:.5f} of the delay mass, expected 0.99: {spec}", replay))
                    o["nontriv"].append(dict(dist=spec, what=what))
                if spec is not None and spec["kind"] == "det" and abs(dl - spec["loc"]) > 1e-6 * max(1.0, spec["loc"]):
                    o["fails"].append(("default_delay", f"{what} default delay {dl} for Deterministic({spec['loc']})", replay))
            # an explicit delay wins
            ex = BaseNode(name="e", rate=c["rate"], delay=c["explicit"], **({} if spec is not None and spec["kind"] == "trainable" else kw))
            if ex.delay != c["explicit"]:
                o["fails"].append(("default_delay", f"explicit delay {c['explicit']} not used: node.delay = {ex.delay}", replay))
            if len(o["samples"]) < 1 and spec is not None:
                o["samples"].append(dict(kind="node", dist=spec, delay=objs[0][1].delay))
        except Exception as ex:
            o["fails"].append(("exception", f"{type(ex).__name__}: {str(ex)[:200]} constructing a node/connection with delay_dist={spec}", replay))
    return o


# ------------------------------------------------------------------------------------------------------------------
# GMM estimator


def _check_usable(o, name, dist, replay, spec_for_cdf=None):
    """the returned distribution works as a delay distribution: non-negative replayable samples, finite non-negative p99"""
    import jax
    import numpy as onp

    d0 = dist.reset(jax.random.PRNGKey(7))
    d1, s1 = d0.sample((32,))
    _, s1b = d1.reset(jax.random.PRNGKey(7)).sample((32,))
    s1, s1b = onp.asarray(s1), onp.asarray(s1b)
    if not onp.all(onp.isfinite(s1)) or onp.any(s1 < 0):
        o["fails"].append(("estimator_samples", f"[{name}] samples of the estimated distribution are negative/non-finite (min {onp.nanmin(s1)}, nan {int(onp.isnan(s1).sum())})", replay))
    if not onp.array_equal(s1, s1b):
        o["fails"].append(("replay", f"[{name}] estimated distribution: reset to the same rng does not replay", replay))
    try:
        q = float(onp.asarray(dist.quantile(0.99)).reshape(-1)[0])
        if not math.isfinite(q) or q < 0:
            o["fails"].append(("estimator_p99", f"[{name}] quantile(0.99) = {q} of the estimated distribution is not a finite non-negative delay", replay))
        return q
    except Exception as ex:
        o["fails"].append(("estimator_p99", f"[{name}] quantile(0.99) of the estimated distribution raised {type(ex).__name__}: {str(ex)[:120]}", replay))
    return None


def _check_mixture(o, name, dist, data, replay):
    import distrax
    import numpy as onp

    if not isinstance(dist.dist, distrax.MixtureSameFamily):
        o["fails"].append(("estimator_kind", f"[{name}] expected a mixture for non-constant data (std {data.std():.3g}), got {type(dist.dist).__name__}", replay))
        return None
    w = onp.asarray(dist.dist.mixture_distribution.probs, dtype="float64")
    loc = onp.asarray(dist.dist.components_distribution.loc, dtype="float64")
    scale = onp.asarray(dist.dist.components_distribution.scale, dtype="float64")
    if len(w) == 0 or abs(w.sum() - 1.0) > 1e-5 or onp.any(w < 0) or not onp.all(onp.isfinite(w)):
        o["fails"].append(("estimator_weights", f"[{name}] mixture weights {w.tolist()} do not form a probability vector (sum {w.sum()})", replay))
    if not onp.all(onp.isfinite(scale)) or onp.any(scale <= 0):
        o["fails"].append(("estimator_scales", f"[{name}] component scales {scale.tolist()} are not finite and positive", replay))
    if not onp.all(onp.isfinite(loc)):
        o["fails"].append(("estimator_units", f"[{name}] component locations {loc.tolist()} are not finite", replay))
    return w, loc, scale


def gmm_inject(cases):
    """get_dist() on chosen parameter vectors (no optimisation): exercises _rescale, normalize_weights, sorting, pruning"""
    import jax.numpy as jnp
    import numpy as onp

    from rex.gmm_estimator import GMMEstimator

    o = _out()
    for c in cases:
        replay = dict(task="gmm_inject", case=c)
        o["evals"] += 1
        try:
            data = onp.array(c["data"], dtype="float64")
            est = GMMEstimator(data, name="inj", verbose=False)
            if est.is_deterministic:
                o["fails"].append(("estimator_kind", f"non-constant data (std {data.std():.3g}) classified as deterministic: data[:4]={data[:4].tolist()}", replay))
                continue
            est.adam_get_params = lambda s: s
            est.final_state_norm = (jnp.array(c["log_w"], dtype=jnp.float32), jnp.zeros((1,)), jnp.array(c["mus"], dtype=jnp.float32), jnp.array(c["log_s"], dtype=jnp.float32))
            dist = est.get_dist(percentile=c["pct"])
            r = _check_mixture(o, "injected parameters", dist, data, replay)
            if r is None:
                continue
            w, loc, scale = r
            std, mean = float(est._std), float(est._mean)
            # reference in float64: which components survive, and their values in the units of the data
            w0 = onp.exp(onp.array(c["log_w"], dtype="float64"))
            w0 = w0 / w0.sum()
            order = onp.argsort(w0, kind="stable")
            ws = w0[order]
            cum, k, border = 0.0, 0, False
            for v in ws:
                if abs(cum + v - (1 - c["pct"])) < 1e-5:
                    border = True
                if cum + v < 1 - c["pct"]:
                    k += 1
                    cum += v
                else:
                    break
            gaps = onp.diff(ws)
            if border or (len(gaps) and gaps.min() < 1e-6):
                _cnt(o, "inject_borderline_skipped")
                continue
            keep = order[k:]
            wref = w0[keep] / w0[keep].sum()
            lref = onp.array(c["mus"], dtype="float64")[keep] * std + mean
            sref = onp.exp(onp.array(c["log_s"], dtype="float64")[keep]) * std
            if k > 0:
                o["nontriv"].append(dict(log_w=c["log_w"], pct=c["pct"]))
                _cnt(o, "inject_pruned")
            if len(w) != len(wref):
                o["fails"].append(("estimator_prune", f"get_dist kept {len(w)} components, expected {len(wref)} (weights {ws.tolist()}, percentile {c['pct']})", replay))
                continue
            if not onp.allclose(w, wref, rtol=1e-4, atol=1e-6):
                o["fails"].append(("estimator_weights", f"get_dist weights {w.tolist()} != renormalised kept weights {wref.tolist()}", replay))
            if not onp.allclose(loc, lref, rtol=1e-4, atol=1e-6 * max(1.0, abs(mean))):
                o["fails"].append(("estimator_units", f"component locations {loc.tolist()} != mu*std+mean = {lref.tolist()} (data mean {mean}, std {std})", replay))
            if not onp.allclose(scale, sref, rtol=1e-4, atol=0):
                o["fails"].append(("estimator_units", f"component scales {scale.tolist()} != exp(log_s)*std = {sref.tolist()} (data std {std})", replay))
            o["model"].append(("c15.getdist", dict(log_w=c["log_w"], mus=c["mus"], log_s=c["log_s"], std=std, mean=mean, pct=c["pct"]),
                               dict(w=w.tolist(), loc=loc.tolist(), scale=scale.tolist(), prune_idx=k), dict(case=dict(c, data=c["data"][:4])), (2e-4, 1e-6 * max(1.0, abs(mean)))))
            o["model"].append(("c15.isdet", dict(std=float(est.data.std()), threshold=float(est.threshold), mean=float(est.data.mean()), x=float(data[0])),
                               dict(is_det=bool(est.is_deterministic), norm=float(onp.asarray(est._data_norm)[0])), dict(case="isdet"), (1e-5, 1e-6)))
            if c.get("usable"):
                # a delay distribution has non-negative locations (assumption of the check); injected parameter vectors can put a
                # component below zero in the units of the data — then the sign of its 99th percentile says nothing about the estimator
                if float(onp.min(lref)) >= 0.0:
                    _check_usable(o, "injected parameters", dist, replay)
                else:
                    _cnt(o, "inject_negative_location_not_judged_as_delay")
            if len(o["samples"]) < 1:
                o["samples"].append(dict(kind="gmm_inject", log_w=c["log_w"], pct=c["pct"], weights=w.tolist(), loc=loc.tolist(), scale=scale.tolist()))
        except Exception as ex:
            o["fails"].append(("exception", f"{type(ex).__name__}: {str(ex)[:200]} in get_dist with injected parameters {dict(c, data=c['data'][:4])}", replay))
    return o


def gmm_fit(case):
    """a real (short) fit on noisy data"""
    import numpy as onp

    from rex.gmm_estimator import GMMEstimator

    o = _out()
    c = case
    replay = dict(task="gmm_fit", case=dict(c, data=c["data"][:6]))
    o["evals"] += 1
    try:
        data = onp.array(c["data"], dtype="float64")
        est = GMMEstimator(data, name="fit", verbose=False)
        est.fit(num_steps=c["steps"], num_components=c["ncomp"], step_size=0.05, seed=c["seed"])
        dist = est.get_dist()
        r = _check_mixture(o, f"fit n={len(data)} steps={c['steps']}", dist, data, replay)
        if r is not None:
            w, loc, scale = r
            sd, mn = data.std(), data.mean()
            heavy = w > 0.05
            if onp.any(onp.abs(loc[heavy] - mn) > 50 * sd) or onp.any(scale[heavy] > 200 * sd) or onp.any(scale[heavy] < 1e-4 * sd):
                o["fails"].append(("estimator_units", f"fitted components are not in the units of the data: loc={loc.tolist()} scale={scale.tolist()} for data mean {mn:.4g} std {sd:.4g}", replay))
            q = _check_usable(o, "fitted", dist, replay)
            o["nontriv"].append(dict(seed=c["seed"], n=len(data)))
            o["samples"].append(dict(kind="gmm_fit", n=len(data), mean=float(mn), std=float(sd), weights=w.tolist(), loc=loc.tolist(), scale=scale.tolist(), p99=q))
    except Exception as ex:
        o["fails"].append(("exception", f"{type(ex).__name__}: {str(ex)[:200]} fitting {replay['case']}", replay))
    return o


def gmm_const(cases):
    """constant data -> Deterministic(c). `verdict=False` cases are only reported (float32 artefacts, see notes/C15.md)."""
    import distrax
    import numpy as onp

    from rex.gmm_estimator import GMMEstimator

    o = _out()
    for c in cases:
        replay = dict(task="gmm_const", case=c)
        val, n = c["value"], c["n"]
        try:
            data = onp.full(n, val, dtype="float64")
            est = GMMEstimator(data, name="const", verbose=False)
            if not c["verdict"]:
                _cnt(o, "report_only_const")
                if not est.is_deterministic:
                    _cnt(o, "report_only_const_not_deterministic")
                    o["notes"].append(f"suspected defect (not a verdict): GMMEstimator(onp.full({n}, {val})) is_deterministic=False because float32 std={float(est.data.std()):.3g} >= threshold")
                continue
            o["evals"] += 1
            _cnt(o, "const_zero" if val == 0 else "const_nonzero")
            est.fit(num_steps=c.get("steps", 5), num_components=1)
            dist = est.get_dist()
            if not isinstance(dist.dist, distrax.Deterministic):
                extra = ""
                if isinstance(dist.dist, distrax.MixtureSameFamily):
                    extra = f" with locs {onp.asarray(dist.dist.components_distribution.loc).tolist()} scales {onp.asarray(dist.dist.components_distribution.scale).tolist()}"
                o["fails"].append(("estimator_constant", f"GMMEstimator(onp.full({n}, {val})).get_dist() is {type(dist.dist).__name__}{extra}, expected Deterministic({val}) (is_deterministic={est.is_deterministic}, float32 std {float(est.data.std())})", replay))
            elif abs(float(dist.dist.mean()) - val) > 1e-6 * max(1.0, abs(val)):
                o["fails"].append(("estimator_constant", f"constant data {val}: Deterministic at {float(dist.dist.mean())}", replay))
            q = _check_usable(o, f"constant data {n} x {val}", dist, replay)
            if q is not None and isinstance(dist.dist, distrax.Deterministic) and abs(q - val) > 1e-6 * max(1.0, abs(val)):
                o["fails"].append(("estimator_constant", f"constant data {val}: quantile(0.99) = {q}", replay))
            o["model"].append(("c15.isdet", dict(std=float(est.data.std()), threshold=float(est.threshold), mean=float(est.data.mean()), x=val),
                               dict(is_det=bool(est.is_deterministic), branch=isinstance(dist.dist, distrax.Deterministic), norm=float(onp.asarray(est._data_norm)[0])), dict(case=c), (1e-6, 1e-9)))
            o["nontriv"].append(dict(value=val, n=n))
        except Exception as ex:
            o["fails"].append(("exception", f"{type(ex).__name__}: {str(ex)[:200]} on constant data {n} x {val}", replay))
    return o


def runtime_replay(cases):
    """'replayable' at the level of the asynchronous runtime: two episodes of one AsyncGraph started from the same graph state (same
    per-connection / per-node delay rng) draw the same delays, message after message, however many the earlier episode consumed (the recorded
    delays are time differences at clock resolution: their sign is not judged here, the samples themselves are in `sampling`). cases: [dict(seed, n1, n2)]."""
    import random

    import rt

    o = _out()
    for c in cases:
        replay = dict(task="runtime_replay", case=c)
        rng = random.Random(c["seed"])
        spec = rt.rand_spec(rng, n_nodes=rng.randint(2, 3))
        for k, cn in enumerate(spec["conns"]):  # stochastic communication delays (positive mean, sizeable spread)
            if k == 0 or rng.random() < 0.6:
                cn["comm"] = dict(kind="normal", loc=round(rng.uniform(0.005, 0.05), 4), scale=round(rng.uniform(0.002, 0.03), 4))
        for nd in spec["nodes"]:
            if rng.random() < 0.5:
                nd["comp"] = dict(kind="normal", loc=round(rng.uniform(0.002, 0.03), 4), scale=round(rng.uniform(0.001, 0.01), 4))
        o["evals"] += 1
        _cnt(o, "runtime_replay")
        try:
            run = rt.AsyncRun(spec)
            recs = []
            for n in (c["n1"], c["n2"], c["n1"]):
                rec, _, _ = run.episode(n, eps=0)
                recs.append(rt.episode_record_to_dict(rec))
        except Exception as ex:  # noqa
            o["notes"].append(f"runtime_replay seed={c['seed']}: {type(ex).__name__}: {str(ex)[:200]}")
            _cnt(o, "runtime_replay:not_run")
            continue
        base_rec = recs[0]
        for e, r in enumerate(recs[1:], start=1):
            for n_, nr in r.items():
                b = base_rec[n_]
                k = min(len(nr["delay"]), len(b["delay"]))
                if nr["delay"][:k] != b["delay"][:k]:
                    j = [i for i in range(k) if nr["delay"][i] != b["delay"][i]][0]
                    o["fails"].append(("runtime_replay", f"seed={c['seed']}: computation delay {j} of node {n_} is {nr['delay'][j]} in episode {e} but {b['delay'][j]} in episode 0, although both episodes start from the same graph state "
                                       f"(episode lengths {c['n1']}, {c['n2']}, {c['n1']})", replay))
                    break
                for src, m in (nr.get("messages") or {}).items():
                    bm = (b.get("messages") or {}).get(src)
                    if bm is None:
                        continue
                    k = min(len(m["delay"]), len(bm["delay"]))
                    _cnt(o, "runtime_replay:message_delays_compared", k)
                    if m["delay"][:k] != bm["delay"][:k]:
                        j = [i for i in range(k) if m["delay"][i] != bm["delay"][i]][0]
                        o["fails"].append(("runtime_replay", f"seed={c['seed']}: communication delay of message {j} on {src}->{n_} is {m['delay'][j]} in episode {e} but {bm['delay'][j]} in episode 0, although both episodes "
                                           f"start from the same graph state (episode lengths {c['n1']}, {c['n2']}, {c['n1']})", replay))
                        break
        o["nontriv"].append(dict(seed=c["seed"], runtime=True))
    return o

