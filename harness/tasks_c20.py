"""Worker-side functions for C20 (run inside harness/worker.py processes): one tiny real `rex.ppo.train` run, after which
the exported `PPOResult.policy` is compared with (a) an independent reference built from `rex.actor_critic.Actor` on the
trained parameters and (b) the actions that the in-training evaluation loop itself computed (captured through the
documented `Config.EVAL_METRICS_JAX_CB` override point)."""
import functools
import os
import sys

REPO = os.environ.get("REX_REPO", "/repo")
if REPO not in sys.path:
    sys.path.insert(0, REPO)

OBS_DIM = 3
ACT_DIM = 2


def _f(x):
    import numpy as onp

    return onp.asarray(x, dtype=onp.float64).reshape(-1).tolist()


def make_env(low, high):
    import jax
    import jax.numpy as jnp
    from distrax import Deterministic
    from flax import struct

    import rex.rl as rl
    from rex.artificial import generate_graphs
    from rex.base import Base
    from rex.graph import Graph
    from rex.node import BaseNode

    @struct.dataclass
    class Out(Base):
        a: jax.Array

    class Node(BaseNode):
        def init_params(self, rng=None, graph_state=None):
            return Out(jnp.array([[1.0]]))

        def init_state(self, rng=None, graph_state=None):
            return Out(jnp.array([1.0]))

        def init_output(self, rng=None, graph_state=None):
            return Out(jnp.array([1.0]))

        def step(self, step_state):
            return step_state, Out(jnp.array([1.0]))

    class Env(rl.Environment):
        """time-varying 3-dim observation, 2-dim asymmetric action box"""

        _low = jnp.asarray(low, dtype=jnp.float32)
        _high = jnp.asarray(high, dtype=jnp.float32)

        def observation_space(self, graph_state):
            return rl.Box(-5.0 * jnp.ones((OBS_DIM,)), 5.0 * jnp.ones((OBS_DIM,)))

        def action_space(self, graph_state):
            return rl.Box(self._low, self._high)

        def get_observation(self, graph_state):
            if graph_state is None:
                return jnp.zeros((OBS_DIM,))
            t = graph_state.seq[self.graph.supervisor.name].astype(jnp.float32)
            return jnp.stack([jnp.sin(0.7 * t), 1.0 + 2.0 * jnp.cos(0.3 * t), 0.1 * t - 0.5])

        def get_output(self, graph_state, action):
            return Out(a=action[:1])

        def get_truncated(self, graph_state):
            return False

        def get_terminated(self, graph_state):
            return graph_state.seq[self.graph.supervisor.name] >= 10

        def get_reward(self, graph_state, action):
            return -jnp.sum(jnp.square(action - (0.25 * self._low + 0.75 * self._high))) * 1e-1

    n1 = Node(name="node1", rate=10, delay_dist=Deterministic(0.01), advance=False)
    n2 = Node(name="node2", rate=10, delay_dist=Deterministic(0.01), advance=False)
    nodes = {n.name: n for n in [n1, n2]}
    n1.connect(n2, window=1, blocking=False, delay_dist=Deterministic(0.01))
    n2.connect(n1, window=1, blocking=False, skip=True, delay_dist=Deterministic(0.01))
    cg = generate_graphs(nodes, 2.0, num_episodes=1)
    graph = Graph(nodes=nodes, supervisor=nodes["node1"], graphs_raw=cg)
    return Env(graph)


def reference_action(actor_params, depth, width, activation, ns, low, high, squash, obs, key=None):
    """Independent reference: training-time normalisation written out with numpy-style formulas, the flax `Actor` module on
    the given parameters, and the training-time squash / clip written out. Returns dict of numpy arrays."""
    import jax.numpy as jnp
    import numpy as onp

    from rex.actor_critic import Actor

    obs = jnp.asarray(obs, dtype=jnp.float32)
    if ns is not None:
        mean, var, clip = ns
        x = (obs - jnp.asarray(mean, jnp.float32)) / jnp.sqrt(jnp.asarray(var, jnp.float32) + 1e-8)
        x = jnp.clip(x, -clip, clip)
    else:
        x = obs
    actor = Actor(int(onp.asarray(low).shape[0]), num_hidden_units=width, num_hidden_layers=depth, hidden_activation=activation, state_independent_std=True)
    pi = actor.apply({"params": actor_params}, x)
    mean_raw = pi.mean()
    std = pi.stddev()
    out = dict(norm_obs=onp.asarray(x), mean_raw=onp.asarray(mean_raw), std=onp.asarray(std) + 0 * onp.asarray(mean_raw))
    lo, hi = jnp.asarray(low, jnp.float32), jnp.asarray(high, jnp.float32)

    def unsq(raw):
        if squash:
            return 0.5 * (jnp.tanh(raw) + 1.0) * (hi - lo) + lo
        return jnp.clip(raw, lo, hi)

    out["action"] = onp.asarray(unsq(mean_raw))
    if key is not None:
        s = pi.sample(seed=key)
        out["sample_raw"] = onp.asarray(s)
        out["sample"] = onp.asarray(unsq(s))
    return out


def train_case(seed, depth, width, activation, squash, normalize, low, high, lr=2e-2, n_obs=24):
    import jax
    import jax.numpy as jnp
    import numpy as onp
    from flax import struct

    import rex.ppo as ppo

    assert os.path.realpath(ppo.__file__).startswith(os.path.realpath(REPO)), ppo.__file__
    env = make_env(low, high)

    @struct.dataclass
    class Cfg(ppo.Config):
        def EVAL_METRICS_JAX_CB(self, total_steps, diagnostics, eval_transitions=None):
            m = ppo.Config.EVAL_METRICS_JAX_CB(self, total_steps, diagnostics, eval_transitions)
            m["c20/eval_action"] = eval_transitions.action  # what the training-time evaluation fed to the (squash-wrapped) env
            m["c20/eval_next_obs"] = eval_transitions.obs  # raw observation that the NEXT evaluation step starts from
            return m

    config = Cfg(
        LR=lr, NUM_ENVS=4, NUM_STEPS=8, TOTAL_TIMESTEPS=4 * 8 * 6, UPDATE_EPOCHS=2, NUM_MINIBATCHES=2,
        NUM_HIDDEN_LAYERS=depth, NUM_HIDDEN_UNITS=width, KERNEL_INIT_TYPE="xavier_uniform", HIDDEN_ACTIVATION=activation,
        STATE_INDEPENDENT_STD=True, SQUASH=squash, ANNEAL_LR=False, NORMALIZE_ENV=normalize, FIXED_INIT=True, OFFSET_STEP=True,
        NUM_EVAL_ENVS=2, EVAL_FREQ=2, VERBOSE=False, DEBUG=False,
    )  # fmt: skip
    res = jax.jit(functools.partial(ppo.train, env))(config, rng=jax.random.PRNGKey(seed))
    policy = res.policy
    params = res.runner_state.train_state.params["params"]
    aparams = params["actor"]
    aux = res.runner_state.env_state.aux
    out = dict(seed=seed, cfg=dict(depth=depth, width=width, activation=activation, squash=squash, normalize=normalize, low=low, high=high), problems=[], compared=0)
    log_std = onp.asarray(aparams["log_std"])
    out["log_std"] = _f(log_std)

    # ---- extraction PPOResult -> Policy
    def prob(key, msg):
        out["problems"].append(dict(key=key, desc=msg))

    if policy.hidden_activation != activation:
        prob("extract_activation", f"PPOResult.policy.hidden_activation={policy.hidden_activation!r} but the network was trained with HIDDEN_ACTIVATION={activation!r}")
    if policy.state_independent_std is not True:
        prob("extract_std_flag", f"PPOResult.policy.state_independent_std={policy.state_independent_std!r}, trained with True")
    pl = jax.tree_util.tree_leaves(policy.model["actor"])
    tl = jax.tree_util.tree_leaves(aparams)
    if len(pl) != len(tl) or any(not onp.array_equal(onp.asarray(a), onp.asarray(b)) for a, b in zip(pl, tl)):
        prob("extract_params", "PPOResult.policy.model['actor'] differs from the trained actor parameters")
    ns = None
    if normalize:
        n = aux["norm_obs"]
        ns = (onp.asarray(n.mean), onp.asarray(n.var), float(n.clip))
        if policy.obs_scaling is None or not onp.array_equal(onp.asarray(policy.obs_scaling.mean), ns[0]) or not onp.array_equal(onp.asarray(policy.obs_scaling.var), ns[1]):
            prob("extract_obs_scaling", "PPOResult.policy.obs_scaling is not the training-time normalisation state")
        out["norm"] = dict(mean=_f(ns[0]), var=_f(ns[1]), clip=ns[2])
    elif policy.obs_scaling is not None:
        prob("extract_obs_scaling", "NORMALIZE_ENV=False but PPOResult.policy.obs_scaling is not None")
    a_sc = policy.act_scaling
    if a_sc is None or onp.asarray(a_sc.low).shape != (ACT_DIM,) or not onp.allclose(onp.asarray(a_sc.low), low) or not onp.allclose(onp.asarray(a_sc.high), high) or bool(a_sc.squash) != bool(squash):
        prob("extract_act_scaling", f"PPOResult.policy.act_scaling={a_sc} but the env's action box is low={low} high={high} squash={squash}")

    # ---- policy vs independent reference, observations inside and far outside of the training range
    rs = onp.random.RandomState(seed)
    obs_list = [rs.uniform(-3, 3, size=(OBS_DIM,)) for _ in range(n_obs // 3)]
    obs_list += [rs.uniform(-1, 1, size=(OBS_DIM,)) * 10.0 ** rs.uniform(1, 6) for _ in range(n_obs // 3)]
    for _ in range(n_obs - len(obs_list)):  # one coordinate far outside, the others in range
        o = rs.uniform(-2, 2, size=(OBS_DIM,))
        o[rs.randint(OBS_DIM)] = rs.choice([-1, 1]) * 10.0 ** rs.uniform(1.5, 5)
        obs_list.append(o)
    span = onp.asarray(high) - onp.asarray(low)
    tol = lambda a, b, scale=1.0: bool(onp.all(onp.abs(onp.asarray(a) - onp.asarray(b)) <= 2e-4 * scale * onp.maximum(1.0, onp.maximum(onp.abs(a), onp.abs(b)))))
    clipped_seen = 0
    for i, o in enumerate(obs_list):
        o = o.astype(onp.float32)
        key = jax.random.PRNGKey(1000 * seed + i)
        ref = reference_action(aparams, depth, width, activation, ns, low, high, squash, o, key)
        got = onp.asarray(policy.get_action(jnp.asarray(o)))
        got_s = onp.asarray(policy.get_action(jnp.asarray(o), rng=key))
        out["compared"] += 1
        if ns is not None and onp.any(onp.abs((o - ns[0]) / onp.sqrt(ns[1] + 1e-8)) > ns[2]):
            clipped_seen += 1
        desc = f"trained net depth={depth} width={width} act={activation} squash={squash} normalize={normalize} seed={seed} obs={_f(o)}"
        if got.shape != ref["action"].shape or not tol(got, ref["action"], max(1.0, float(span.max()))):
            prob("trained_det", f"{desc}: policy.get_action={_f(got)} but trained actor mean under training-time normalisation/squash={_f(ref['action'])} (actor input {_f(ref['norm_obs'])})")
        if got_s.shape != ref["sample"].shape or not tol(got_s, ref["sample"], max(1.0, float(span.max()))):
            eps = (ref["sample_raw"] - ref["mean_raw"]) / ref["std"]
            prob("trained_sample", f"{desc}: policy.get_action(rng=key)={_f(got_s)} but the actor's Gaussian (mean {_f(ref['mean_raw'])}, std exp(log_std)={_f(ref['std'])}) with the same key gives {_f(ref['sample'])} (eps={_f(eps)})")
    out["clipped_obs"] = clipped_seen

    # ---- policy vs what the in-training evaluation loop computed with the final parameters (last evaluation round)
    ea = onp.asarray(res.metrics["c20/eval_action"])[-1]  # [T, NUM_EVAL_ENVS, ACT_DIM]  pi.mean() before the env's unsquash
    eo = onp.asarray(res.metrics["c20/eval_next_obs"])[-1]  # [T, NUM_EVAL_ENVS, OBS_DIM]
    lo, hi = onp.asarray(low, onp.float32), onp.asarray(high, onp.float32)
    n_eval = 0
    for t in range(1, ea.shape[0]):
        for e in range(ea.shape[1]):
            raw = ea[t, e]
            env_action = 0.5 * (onp.tanh(raw) + 1.0) * (hi - lo) + lo if squash else onp.clip(raw, lo, hi)
            got = onp.asarray(policy.get_action(jnp.asarray(eo[t - 1, e])))
            n_eval += 1
            if not tol(got, env_action, max(1.0, float(span.max()))):
                prob("trained_eval_path", f"depth={depth} width={width} act={activation} squash={squash} normalize={normalize} seed={seed}: for raw observation {_f(eo[t-1, e])} the training-time evaluation "
                     f"applied env action {_f(env_action)} (actor mean {_f(raw)}), the exported policy returns {_f(got)}")
    out["eval_compared"] = n_eval
    out["problems"] = out["problems"][:12]
    return out


# ------------------------------------------------------------------------------------------------------------------
# random-parameter cases (no training): Policy vs Actor on ActorCritic.init parameters

ACTS = ["tanh", "relu", "gelu", "softplus"]


def _np_act(name):
    import numpy as onp

    if name == "tanh":
        return onp.tanh
    if name == "relu":
        return lambda x: onp.maximum(x, 0.0)
    if name == "gelu":  # flax nn.gelu, approximate=True
        return lambda x: 0.5 * x * (1.0 + onp.tanh(onp.sqrt(2.0 / onp.pi) * (x + 0.044715 * x**3)))
    if name == "softplus":
        return lambda x: onp.logaddexp(x, 0.0)
    raise KeyError(name)


def numpy_forward(layers, activation, x):
    """float64 forward pass; returns (mean, largest magnitude met) — used for the float32 tolerance and as a third opinion"""
    import numpy as onp

    act = _np_act(activation)
    h = onp.asarray(x, onp.float64)
    mag = float(onp.max(onp.abs(h))) if h.size else 0.0
    for i, (W, b) in enumerate(layers):
        h = h @ onp.asarray(W, onp.float64) + onp.asarray(b, onp.float64)
        mag = max(mag, float(onp.max(onp.abs(h))))
        if i < len(layers) - 1:
            h = act(h)
    return h, mag


def reference_batch(actor_params, depth, width, activation, ns, low, high, squash, obs, keys):
    """`reference_action` for a batch of observations [n, obs_dim] with one key per row (flax Dense and distrax broadcast over
    the leading axis; the per-row sample is `MultivariateNormalDiag(mean_i, std).sample(seed=key_i)`)."""
    import distrax
    import jax
    import jax.numpy as jnp
    import numpy as onp

    from rex.actor_critic import Actor

    obs = jnp.asarray(obs, dtype=jnp.float32)
    if ns is not None:
        mean, var, clip = ns
        x = (obs - jnp.asarray(mean, jnp.float32)[None]) / jnp.sqrt(jnp.asarray(var, jnp.float32) + 1e-8)[None]
        x = jnp.clip(x, -clip, clip)
    else:
        x = obs
    actor = Actor(int(onp.asarray(low).shape[0]), num_hidden_units=width, num_hidden_layers=depth, hidden_activation=activation, state_independent_std=True)
    pi = actor.apply({"params": actor_params}, x)
    mean_raw = pi.mean()
    std = pi.stddev()[0]
    smp = jax.vmap(lambda m, k: distrax.MultivariateNormalDiag(m, std).sample(seed=k))(mean_raw, keys)
    lo, hi = jnp.asarray(low, jnp.float32), jnp.asarray(high, jnp.float32)
    unsq = (lambda raw: 0.5 * (jnp.tanh(raw) + 1.0) * (hi - lo) + lo) if squash else (lambda raw: jnp.clip(raw, lo, hi))
    A = lambda v: onp.asarray(v)
    n = obs.shape[0]
    return [dict(norm_obs=A(x[i]), mean_raw=A(mean_raw[i]), std=A(std), action=A(unsq(mean_raw[i])), sample_raw=A(smp[i]), sample=A(unsq(smp[i]))) for i in range(n)]


def reference_one_key(actor_params, depth, width, activation, ns, low, high, squash, obs, key):
    """the actor's own sample for a batch of observations and a single key"""
    import jax.numpy as jnp
    import numpy as onp

    from rex.actor_critic import Actor

    obs = jnp.asarray(obs, dtype=jnp.float32)
    if ns is not None:
        mean, var, clip = ns
        x = jnp.clip((obs - jnp.asarray(mean, jnp.float32)[None]) / jnp.sqrt(jnp.asarray(var, jnp.float32) + 1e-8)[None], -clip, clip)
    else:
        x = obs
    actor = Actor(int(onp.asarray(low).shape[0]), num_hidden_units=width, num_hidden_layers=depth, hidden_activation=activation, state_independent_std=True)
    smp = actor.apply({"params": actor_params}, x).sample(seed=key)
    lo, hi = jnp.asarray(low, jnp.float32), jnp.asarray(high, jnp.float32)
    return onp.asarray(0.5 * (jnp.tanh(smp) + 1.0) * (hi - lo) + lo if squash else jnp.clip(smp, lo, hi))


def net_case(spec):
    """spec: dict(seed, depth, width, obs_dim, act_dim, activation, squash, normalize, clip, n_obs, tiny_var). Runs the REAL
    Policy (rex.ppo) and an independent reference (rex.actor_critic.Actor + written-out normalisation / squashing) on the same
    randomly initialised parameters. Returns the raw numbers; the caller judges them."""
    import jax
    import jax.numpy as jnp
    import numpy as onp

    import rex.ppo as ppo
    import rex.rl as rl
    from rex.actor_critic import Actor, ActorCritic, Critic

    assert os.path.realpath(ppo.__file__).startswith(os.path.realpath(REPO)), ppo.__file__
    seed, depth, width, obs_dim, act_dim, activation = spec["seed"], spec["depth"], spec["width"], spec["obs_dim"], spec["act_dim"], spec["activation"]
    rs = onp.random.RandomState(seed)
    actor = Actor(act_dim, num_hidden_units=width, num_hidden_layers=depth, hidden_activation=activation, kernel_init_type="xavier_uniform", state_independent_std=True)
    critic = Critic(num_hidden_units=width, num_hidden_layers=depth, hidden_activation=activation, kernel_init_type="xavier_uniform")
    params = ActorCritic(actor=actor, critic=critic).init(jax.random.PRNGKey(seed), jnp.zeros((obs_dim,)))["params"]
    params = jax.tree_util.tree_map(lambda x: onp.asarray(x), params)
    ap = dict(params["actor"])
    out = dict(spec=spec, problems=[])
    want_keys = sorted([f"Dense_{i}" for i in range(depth + 1)] + ["log_std"])
    if sorted(ap.keys()) != want_keys:
        out["problems"].append(dict(key="param_keys", desc=f"Actor(num_hidden_layers={depth}) parameter dict has keys {sorted(ap.keys())}, the model assumes {want_keys}"))
        return out
    # make the parameters generic: non-zero log_std, sizeable biases, kernels scaled so that saturating activations are exercised
    ap["log_std"] = rs.uniform(-1.5, 0.7, size=(act_dim,)).astype(onp.float32)
    gain = float(rs.choice([0.5, 1.0, 2.0]))
    for i in range(depth + 1):
        d = dict(ap[f"Dense_{i}"])
        d["kernel"] = (onp.asarray(d["kernel"]) * gain).astype(onp.float32)
        d["bias"] = rs.normal(0, 0.3, size=onp.asarray(d["bias"]).shape).astype(onp.float32)
        ap[f"Dense_{i}"] = d
    params = dict(params)
    params["actor"] = ap
    layers = [(ap[f"Dense_{i}"]["kernel"], ap[f"Dense_{i}"]["bias"]) for i in range(depth + 1)]

    low = rs.uniform(-3, 0.5, size=(act_dim,)).astype(onp.float32)
    high = (low + rs.uniform(0.2, 5.0, size=(act_dim,))).astype(onp.float32)
    ns = None
    obs_scaling = None
    if spec["normalize"]:
        mean = rs.uniform(-2, 2, size=(obs_dim,)).astype(onp.float32)
        var = (10.0 ** rs.uniform(-2, 1.5, size=(obs_dim,))).astype(onp.float32)
        if spec.get("tiny_var") and obs_dim > 0:
            var[rs.randint(obs_dim)] = onp.float32(10.0 ** rs.uniform(-7, -4))  # a (nearly) constant observation dimension
        ns = (mean, var, float(spec["clip"]))
        obs_scaling = rl.NormalizeVec(mean=jnp.asarray(mean), var=jnp.asarray(var), count=jnp.asarray(1000.0), return_val=None, clip=float(spec["clip"]))
    act_scaling = rl.SquashState(low=jnp.asarray(low), high=jnp.asarray(high), squash=bool(spec["squash"]))
    policy = ppo.Policy(act_scaling=act_scaling, obs_scaling=obs_scaling, model=jax.tree_util.tree_map(jnp.asarray, params),
                        hidden_activation=activation, output_activation="gaussian", state_independent_std=True)  # fmt: skip

    # observations: inside the training range, far outside, one coordinate far outside
    n = spec["n_obs"]
    center = ns[0] if ns else onp.zeros(obs_dim, onp.float32)
    std = onp.sqrt(ns[1]) if ns else onp.ones(obs_dim, onp.float32)
    obs = []
    for k in range(n):
        m = k % 3
        if m == 0:
            o = center + std * rs.uniform(-2.5, 2.5, size=(obs_dim,))
        elif m == 1:
            o = rs.uniform(-1, 1, size=(obs_dim,)) * 10.0 ** rs.uniform(1, 6)
        else:
            o = center + std * rs.uniform(-2, 2, size=(obs_dim,))
            j = rs.randint(obs_dim)
            o[j] = center[j] + rs.choice([-1, 1]) * std[j] * 10.0 ** rs.uniform(1.05, 4)
        obs.append(o.astype(onp.float32))
    obs = onp.stack(obs)
    keys = jax.random.split(jax.random.PRNGKey(seed + 7919), n)

    # ---- the REAL policy (batched through vmap, and unbatched for the first observations)
    got_det = onp.asarray(jax.vmap(lambda o: policy.get_action(o))(jnp.asarray(obs)))
    got_smp = onp.asarray(jax.vmap(lambda o, k: policy.get_action(o, rng=k))(jnp.asarray(obs), keys))
    nu = min(3, n)
    got_det_u = onp.stack([onp.asarray(policy.get_action(jnp.asarray(obs[i]))) for i in range(nu)])
    got_smp_u = onp.stack([onp.asarray(policy.get_action(jnp.asarray(obs[i]), rng=keys[i])) for i in range(nu)])

    # a whole batch of observations with ONE key: the actor's Gaussian is MultivariateNormalDiag(mean[n, act], std).sample(seed=key)
    got_bat = onp.asarray(policy.get_action(jnp.asarray(obs), rng=keys[0]))
    ref_bat = reference_one_key(ap, depth, width, activation, ns, low, high, bool(spec["squash"]), obs, keys[0])

    # ---- independent reference
    refs = reference_batch(ap, depth, width, activation, ns, low, high, bool(spec["squash"]), obs, keys)
    r0 = reference_action(ap, depth, width, activation, ns, low, high, bool(spec["squash"]), obs[0], keys[0])  # unbatched, through pi.sample itself
    refs[0] = r0
    eps = [((r["sample_raw"] - r["mean_raw"]) / r["std"]) for r in refs]
    normal = list(onp.asarray(jax.vmap(lambda k: jax.random.normal(k, (act_dim,)))(keys)))
    # float64 numpy third opinion + magnitude for the tolerance
    np_mean, mags = [], []
    for r in refs:
        m, mg = numpy_forward(layers, activation, r["norm_obs"])
        np_mean.append(m)
        mags.append(mg)
    L = lambda a: onp.asarray(a, onp.float64).tolist()
    out.update(
        low=L(low), high=L(high), norm=None if ns is None else dict(mean=L(ns[0]), var=L(ns[1]), clip=ns[2]), log_std=L(ap["log_std"]),
        obs=L(obs), got_det=L(got_det), got_smp=L(got_smp), got_det_u=L(got_det_u), got_smp_u=L(got_smp_u),
        ref_det=[L(r["action"]) for r in refs], ref_smp=[L(r["sample"]) for r in refs], ref_mean_raw=[L(r["mean_raw"]) for r in refs],
        ref_std=L(refs[0]["std"]), ref_norm_obs=[L(r["norm_obs"]) for r in refs], eps=[L(e) for e in eps], normal=[L(x) for x in normal],
        np_mean=[L(m) for m in np_mean], mag=mags, got_bat=L(got_bat), ref_bat=L(ref_bat),
    )  # fmt: skip
    if spec.get("with_layers", True):
        out["layers"] = [dict(kernel=L(W), bias=L(b)) for W, b in layers]
    return out


def net_cases(specs):
    res = []
    for s in specs:
        try:
            res.append(net_case(s))
        except Exception as ex:  # the implementation raised on a valid input
            import traceback

            res.append(dict(spec=s, problems=[dict(key="exception", desc=f"{type(ex).__name__}: {str(ex)[:300]} :: {traceback.format_exc()[-600:]}")]))
    return dict(results=res)
