"""Kernel specifications for C16 (phases, set_delay, infos): regenerated into lean/RexModel/Gen/Phase.lean on every run.

Conventions (see extract.py): `opts` = parameters that are `Option` (Python: a value or None); `ty="β"` = kernel over an abstract
carrier (delay-distribution objects) instead of numbers; `kwdicts` = `kwargs.get('k', d)` is `Option.getD kw_k d`.
"""

NODE = "rex/node.py"
P = ["C16"]
_ISD = "isinstance(self.delay_dist, distrax.Distribution)"
_Q99 = "float(self.delay_dist.quantile(0.99))"
_DEF = "base.StaticDist.create(distrax.Normal(loc=0.0, scale=0.0))"


def _set_delay(prefix, cls):
    f = f"{cls}.set_delay"
    return [
        # self.delay_dist = delay_dist if delay_dist is not None else self.delay_dist
        dict(name=f"{prefix}_set_dist", file=NODE, func=f, loc=("assign", "self.delay_dist", 0), ty="β", opts=["delay_dist"],
             rename={"self.delay_dist": "cur"}, params=["delay_dist", "cur"], props=P),
        # self.delay_dist = StaticDist.create(self.delay_dist) if isinstance(self.delay_dist, distrax.Distribution) else self.delay_dist
        dict(name=f"{prefix}_set_wrap", file=NODE, func=f, loc=("assign", "self.delay_dist", 1), ty="β", opaque={_ISD: "is_distrax"},
             funs={"base.StaticDist.create": "wrap"}, rename={"self.delay_dist": "cur"}, params=["is_distrax", "cur"], props=P),
        # self.delay = delay if delay is not None else self.delay
        dict(name=f"{prefix}_set_delay", file=NODE, func=f, loc=("assign_unique", "self.delay"), opts=["delay"],
             rename={"self.delay": "cur"}, params=["delay", "cur"], props=P),
    ]


def _init(prefix, cls):
    f = f"{cls}.__init__"
    return [
        dict(name=f"{prefix}_init_dist", file=NODE, func=f, loc=("assign", "self.delay_dist", 0), ty="β", opts=["delay_dist"],
             opaque={_DEF: "default_dist"}, params=["delay_dist", "default_dist"], props=P),
        dict(name=f"{prefix}_init_wrap", file=NODE, func=f, loc=("assign", "self.delay_dist", 1), ty="β", opaque={_ISD: "is_distrax"},
             funs={"base.StaticDist.create": "wrap"}, rename={"self.delay_dist": "cur"}, params=["is_distrax", "cur"], props=P),
        dict(name=f"{prefix}_init_delay", file=NODE, func=f, loc=("assign_unique", "self.delay"), opts=["delay"],
             opaque={_Q99: "q99"}, params=["delay", "q99"], props=P),
    ]


KERNELS = {
    "Phase": [
        # ---- the phase recursion
        # max([0.0] + [i.phase * 1.00 for i in self.inputs.values() if not i.skip])
        dict(name="node_phase", file=NODE, func="BaseNode.phase", loc=("return", 0), rename={"self.inputs.values()": "inputs"}, params=["inputs"], props=P),
        # self.phase + self.delay
        dict(name="node_phase_output", file=NODE, func="BaseNode.phase_output", loc=("return", 0),
             rename={"self.phase": "phase", "self.delay": "delay"}, params=["phase", "delay"], props=P),
        # self.output_node.phase_output + self.delay
        dict(name="conn_phase", file=NODE, func="Connection.phase", loc=("return", 0),
             rename={"self.output_node.phase_output": "phase_output", "self.delay": "delay"}, params=["phase_output", "delay"], props=P),
    ]
    # ---- setters and constructors
    + _set_delay("node", "BaseNode") + _set_delay("conn", "Connection") + _init("node", "BaseNode") + _init("conn", "Connection")
    + [
        # ---- infos: which attribute goes into which info field
        dict(name="conn_info_phase", file=NODE, func="Connection.info", loc=("kwarg", "base.InputInfo", 0, "phase"), rename={"self.phase": "phase"}, params=["phase"], props=P),
        dict(name="conn_info_delay", file=NODE, func="Connection.info", loc=("kwarg", "base.InputInfo", 0, "delay"), rename={"self.delay": "delay"}, params=["delay"], props=P),
        dict(name="conn_info_dist", file=NODE, func="Connection.info", loc=("kwarg", "base.InputInfo", 0, "delay_dist"), ty="β", rename={"self.delay_dist": "dist"}, params=["dist"], props=P),
        dict(name="conn_info_skip", file=NODE, func="Connection.info", loc=("kwarg", "base.InputInfo", 0, "skip"), result="Bool", rename={"self.skip": "skip"}, params=["skip"], props=P),
        dict(name="conn_info_blocking", file=NODE, func="Connection.info", loc=("kwarg", "base.InputInfo", 0, "blocking"), result="Bool", rename={"self.blocking": "blocking"}, params=["blocking"], props=P),
        dict(name="node_info_phase", file=NODE, func="BaseNode.info", loc=("kwarg", "base.NodeInfo", 0, "phase"), rename={"self.phase": "phase"}, params=["phase"], props=P),
        dict(name="node_info_delay", file=NODE, func="BaseNode.info", loc=("kwarg", "base.NodeInfo", 0, "delay"), rename={"self.delay": "delay"}, params=["delay"], props=P),
        dict(name="node_info_dist", file=NODE, func="BaseNode.info", loc=("kwarg", "base.NodeInfo", 0, "delay_dist"), ty="β", rename={"self.delay_dist": "dist"}, params=["dist"], props=P),
        # ---- from_info / connect_from_info: which info field goes into which constructor argument
        dict(name="from_info_delay", file=NODE, func="BaseNode.from_info", loc=("kwarg", "cls", 0, "delay"), kwdicts={"kwargs": "kw"},
             rename={"info.delay": "info_delay"}, params=["kw_delay", "info_delay"], props=P),
        dict(name="from_info_dist", file=NODE, func="BaseNode.from_info", loc=("kwarg", "cls", 0, "delay_dist"), ty="β", kwdicts={"kwargs": "kw"},
             rename={"info.delay_dist": "info_dist"}, params=["kw_delay_dist", "info_dist"], props=P),
        dict(name="cfi_delay", file=NODE, func="BaseNode.connect_from_info", loc=("kwarg", "self.connect", 0, "delay"), rename={"info.delay": "info_delay"}, params=["info_delay"], props=P),
        dict(name="cfi_dist", file=NODE, func="BaseNode.connect_from_info", loc=("kwarg", "self.connect", 0, "delay_dist"), ty="β", rename={"info.delay_dist": "info_dist"}, params=["info_dist"], props=P),
        dict(name="cfi_skip", file=NODE, func="BaseNode.connect_from_info", loc=("kwarg", "self.connect", 0, "skip"), result="Bool", rename={"info.skip": "info_skip"}, params=["info_skip"], props=P),
        dict(name="cfi_blocking", file=NODE, func="BaseNode.connect_from_info", loc=("kwarg", "self.connect", 0, "blocking"), result="Bool", rename={"info.blocking": "info_blocking"}, params=["info_blocking"], props=P),
    ],
}
