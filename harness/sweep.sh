#!/bin/sh
# clean-tree sweep: every check, several seeds; prints one line per run
cd "$(dirname "$0")/.."
./check setup > /dev/null 2>&1
for seed in ${SEEDS:-0 1 2}; do
  for id in C01 C02 C03 C04 C05 C06 C07 C08 C09 C10 C11 C12 C13 C14 C15 C16 C17 C18 C19 C20; do
    start=$(date +%s)
    out=$(VERIF_SEED=$seed VERIF_STDERR=/dev/null ./check $id --tier ${TIER:-quick} 2>/dev/null | grep -E "^(OK|VIOLATION|HARNESS|KNOWN)" | cut -c1-220 | tr '\n' '|')
    echo "seed=$seed $id rc=$? $(( $(date +%s) - start ))s $out"
  done
done
