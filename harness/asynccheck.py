"""Shared code of the checks on the asynchronous runtime (C02, C03, C04, C06, C13): run cases in worker
processes, run the Lean machine on the same configurations, compare, and evaluate monitors."""
import json
import struct
import threading

import numpy as onp

import common
import pool

NODE_FIELDS = ["seq", "ts_start", "ts_end", "delay", "ts_scheduled", "ts_max", "ts_end_prev", "phase", "phase_scheduled", "phase_inputs", "phase_last", "state", "output"]
MSG_FIELDS = ["seq_out", "seq_in", "ts_sent", "ts_recv", "delay"]


def f32(x):
    return float(onp.float32(x))


def run_driver_parallel(cmds, nproc=8):
    """Run the Lean driver on many commands, several driver processes at a time."""
    if not cmds:
        return []
    nproc = max(1, min(nproc, len(cmds)))
    chunks = [list(range(i, len(cmds), nproc)) for i in range(nproc)]
    out = [None] * len(cmds)
    errs = []

    def work(idx):
        try:
            res = common.Driver().run([cmds[i] for i in idx], timeout=900)
            for i, r in zip(idx, res):
                out[i] = r
        except Exception as ex:  # noqa
            errs.append(str(ex))

    ths = [threading.Thread(target=work, args=(c,)) for c in chunks if c]
    [t.start() for t in ths]
    [t.join() for t in ths]
    if errs:
        raise RuntimeError("driver: " + errs[0])
    return out


def compare_model(spec, ep, model_out, res, tag):
    """model_out: driver answer for ep['cfg']; ep['record']: the real record. Real must be a prefix of the model
    (per leaf); supervisor rows beyond the answered observations are ignored."""
    if "error" in model_out:
        res.corr_diff("async-machine", f"driver error: {model_out['error']}", dict(tag=tag, spec=spec))
        return 0
    if not all(model_out.get("same", [])):
        res.corr_diff("async-machine", "the Lean machine produced different records under different scheduling policies (model bug)", dict(tag=tag, spec=spec))
    rec = common.unbits(model_out["records"])
    names = [n["name"] for n in spec["nodes"]]
    user_steps = ep["cfg"]["user_steps"]
    compared = 0
    for i, n in enumerate(names):
        m = rec["nodes"][i]
        real = ep["record"][n]
        limit = user_steps if n == spec["supervisor"] else 10 ** 9
        for f in NODE_FIELDS:
            if f not in real:
                continue
            a, b = m[f], real[f]
            k = min(len(b), limit)
            if len(a) < k:
                res.corr_diff("async-machine", f"{tag}: node {n}.{f}: model produced {len(a)} rows, implementation {k}", dict(tag=tag, spec=spec))
                continue
            bad = [j for j in range(k) if a[j] != b[j]]
            compared += k
            if bad:
                j = bad[0]
                res.corr_diff("async-machine", f"{tag}: node {n}.{f}[{j}]: implementation {b[j]!r} vs model {a[j]!r}", dict(tag=tag, spec=spec, node=n, field=f, index=j))
        if "inputs" in real:
            k = min(real["n"], limit, len(m["windows"]))
            for j in range(k):
                for wi, iname in enumerate(sorted(real["inputs"].keys())):
                    ri = real["inputs"][iname]
                    mw = m["windows"][j][wi]
                    ok = (mw["seq"] == ri["seq"][j] and mw["data"] == ri["data"][j] and [f32(x) for x in mw["ts_sent"]] == ri["ts_sent"][j]
                          and [f32(x) for x in mw["ts_recv"]] == ri["ts_recv"][j])
                    compared += 1
                    if not ok:
                        res.corr_diff("async-machine", f"{tag}: node {n} step {j} window of {iname}: implementation seq={ri['seq'][j]} data={ri['data'][j]} vs model seq={mw['seq']} data={mw['data']}",
                                      dict(tag=tag, spec=spec, node=n, step=j, input=iname))
                        break
                else:
                    continue
                break
    for ci, c in enumerate(spec["conns"]):
        m = rec["conns"][ci]
        real = ep["record"][c["dst"]].get("messages", {}).get(c["src"])
        if real is None:
            continue
        for f in MSG_FIELDS:
            a, b = m[f], real[f]
            # only messages consumed by answered steps of the supervisor are comparable when dst is the supervisor
            k = len(b)
            if c["dst"] == spec["supervisor"]:
                k = len([x for x in real["seq_in"] if x < user_steps])
            if len(a) < k:
                res.corr_diff("async-machine", f"{tag}: connection {c['src']}->{c['dst']}.{f}: model produced {len(a)} rows, implementation {k}", dict(tag=tag, spec=spec))
                continue
            bad = [j for j in range(k) if a[j] != b[j]]
            compared += k
            if bad:
                j = bad[0]
                res.corr_diff("async-machine", f"{tag}: connection {c['src']}->{c['dst']}.{f}[{j}]: implementation {b[j]!r} vs model {a[j]!r}", dict(tag=tag, spec=spec, conn=ci, field=f, index=j))
    return compared


def compare_records(spec, a, b, user_steps, ignore=("eps",)):
    """impl-vs-impl: two real records of the same graph state must agree on the common prefix of every leaf.
    Returns a list of difference descriptions."""
    diffs = []
    for n in a:
        ra, rb = a[n], b[n]
        for r_ in (ra, rb):
            for d in r_.get("payload_corrupt", [])[:1]:
                diffs.append(f"node {n}: {d}: the window entry is not one message")
        limit = user_steps if n == spec["supervisor"] else 10 ** 9
        for f in NODE_FIELDS + ["rng"]:
            if f in ra and f in rb:
                k = min(len(ra[f]), len(rb[f]), limit)
                bad = [j for j in range(k) if ra[f][j] != rb[f][j]]
                if bad:
                    diffs.append(f"node {n}.{f}[{bad[0]}]: {ra[f][bad[0]]!r} vs {rb[f][bad[0]]!r}")
        if "inputs" in ra and "inputs" in rb:
            for iname in ra["inputs"]:
                for f in ("seq", "ts_sent", "ts_recv", "data"):
                    xa, xb = ra["inputs"][iname][f], rb["inputs"][iname][f]
                    k = min(len(xa), len(xb), limit)
                    bad = [j for j in range(k) if xa[j] != xb[j]]
                    if bad:
                        diffs.append(f"node {n} window {iname}.{f} at step {bad[0]}: {xa[bad[0]]} vs {xb[bad[0]]}")
        for src in ra.get("messages", {}):
            if src not in rb.get("messages", {}):
                continue
            for f in MSG_FIELDS:
                xa, xb = ra["messages"][src][f], rb["messages"][src][f]
                k = min(len(xa), len(xb))
                if n == spec["supervisor"]:
                    k = min(k, len([x for x in ra["messages"][src]["seq_in"] if x < user_steps]), len([x for x in rb["messages"][src]["seq_in"] if x < user_steps]))
                bad = [j for j in range(k) if xa[j] != xb[j]]
                if bad:
                    diffs.append(f"connection {src}->{n}.{f}[{bad[0]}]: {xa[bad[0]]!r} vs {xb[bad[0]]!r}")
    return diffs


def pool_cases(tasks, res, timeout=240, hang_key=None):
    """run tasks; harness problems raise; returns list of (task, result) for successful ones."""
    outs = pool.run_tasks(tasks, timeout=timeout)
    good = []
    n_to = 0
    for t, r in zip(tasks, outs):
        if r is None or (isinstance(r, dict) and r.get("timeout")):
            n_to += 1
            res.count("worker_timeouts")
            res.notes.append(f"worker timeout ({t.get('timeout', timeout)} s) on {t['fn']} {json.dumps(t['args'])}")
            if hang_key:
                res.fail(hang_key, f"case did not finish within {t.get('timeout', timeout)} s (a lifecycle call did not return?): {json.dumps(t['args'])[:200]}", dict(task=t))
            continue
        if isinstance(r, dict) and r.get("hang"):
            # a lifecycle call of the task did not return (token starvation of the generated graph, or a stall: C05's subject)
            res.count("worker_hangs")
            res.notes.append(f"{t['fn']} {json.dumps(t['args'])}: {r['hang']} did not return within its limit; the case is not judged here (see C05)")
            if hang_key:
                res.fail(hang_key, f"{r['hang']} did not return: {json.dumps(t['args'])[:200]}", dict(task=t))
            continue
        if isinstance(r, dict) and "error" in r:
            res.count("worker_errors")
            res.notes.append(f"worker error on {t['args']}: {r['error'][:300]}")
            res.fail("exception", f"{r['error'][:300]} (task {json.dumps(t['args'])[:160]})", dict(task=t, traceback=r.get("traceback", "")[-1500:]))
            continue
        good.append((t, r))
    if n_to and not hang_key and n_to == len(tasks):
        raise RuntimeError("all worker tasks timed out")
    return good


def run_async_cases(ctx, res, n, nsteps=10, neps=2, use_model=True):
    """n random graphs x neps episodes on the real runtime (+ the Lean machine). Yields (task, case, episode, model_out)."""
    seeds = [ctx.rng.randrange(1 << 30) for _ in range(n)]
    tasks = [dict(fn="tasks_rt:async_case", args=dict(seed=s, nsteps=nsteps, tie=(i % 3 == 2), neps=neps), timeout=400) for i, s in enumerate(seeds)]
    good = pool_cases(tasks, res, timeout=400)
    cmds, where = [], []
    for gi, (t, r) in enumerate(good):
        for ei, ep in enumerate(r["episodes"]):
            cmds.append(ep["cfg"])
            where.append((gi, ei))
    outs = run_driver_parallel(cmds) if (use_model and ctx.driver is not None and cmds) else [None] * len(cmds)
    result = []
    for (gi, ei), mo in zip(where, outs):
        t, r = good[gi]
        result.append((t, r, r["episodes"][ei], mo))
    return result
