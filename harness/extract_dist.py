"""Extractor extension used by the C15 kernels (harness/kernels_c15.py): a subclass of extract.Tr that understands a few
more source forms. It is selected per kernel with `tr_class=TrDist`; every other kernel keeps using extract.Tr.

Extra forms
  * `jnp.clip(x, lo, None)` / `jnp.clip(x, None, hi)`      ==> `(max x lo)` / `(min x hi)`      (one-sided clip)
  * `onp.greater(a, b)`, `greater_equal`, `less`, `less_equal` (onp/jnp/np)  ==> `decide (a > b)` ...
  * `np.sum(V)` / `onp.sum(V, axis=-1)` for a vector expression V  ==> `List.foldl (+) 0 V`
  * result="Vec": vector-valued expressions over the names declared in spec["vecs"] with numpy broadcasting against scalars:
        V op V ==> List.zipWith, V op s / s op V ==> List.map, f(V) for f in spec["funs"] ==> List.map f V,
        V[indices] (fancy indexing by a name) ==> the vector itself when spec["ignore_index"] lists the index name,
        g(V) for g in spec["vecfuns"] ==> `g V` with `g : List α → List α` an abstract parameter
  * `a & b`, `a | b` on boolean operands ==> `&&`, `||`
  * result="Key": PRNG-key expressions. A name bound by `a, b = jax.random.split(k, n)` is `split k n i`; `self.rng` etc. are
    parameters. `split : κ → Nat → Nat → κ` is an abstract parameter of the generated definition (threefry is not modelled).
"""
import ast
import os
import sys

_main = sys.modules.get("__main__")
if _main is not None and os.path.basename(getattr(_main, "__file__", "") or "") == "extract.py" and hasattr(_main, "Tr"):
    extract = _main  # `python3 extract.py`: subclass the classes of the running script, not of a second copy of the module
else:
    import extract
ExtractError, Tr = extract.ExtractError, extract.Tr

_CMP = {"greater": ">", "greater_equal": "≥", "less": "<", "less_equal": "≤"}
_NP = ("onp", "jnp", "np", "numpy")


class TrDist(Tr):
    def __init__(self, spec):
        super().__init__(spec)
        self.vecs = set(spec.get("vecs", []))
        self.ignore_index = set(spec.get("ignore_index", []))
        self.vecfuns = spec.get("vecfuns", {})
        self._top = True
        self._func = None

    # ---------------------------------------------------------------- helpers
    def _name_of(self, e):
        t = ast.unparse(e)
        return self.rename.get(t, extract._san(t))

    def _isvec(self, e):
        if isinstance(e, (ast.Name, ast.Attribute)):
            return self._name_of(e) in self.vecs
        if isinstance(e, ast.Subscript):
            if self._name_of(e) in self.vecs:
                return True
            if isinstance(e.slice, ast.Name) and e.slice.id in self.ignore_index:
                return self._isvec(e.value)
            return False
        if isinstance(e, ast.BinOp):
            return self._isvec(e.left) or self._isvec(e.right)
        if isinstance(e, ast.Call) and (ast.unparse(e.func) in self.funs or ast.unparse(e.func) in self.vecfuns) and len(e.args) == 1:
            return self._isvec(e.args[0])
        return False

    def vec(self, e):
        t = ast.unparse(e)
        if isinstance(e, (ast.Name, ast.Attribute, ast.Subscript)) and self._name_of(e) in self.vecs:
            n = self.var(t)
            self.spec.setdefault("lists", set()).add(n)
            return n
        if isinstance(e, ast.Subscript) and isinstance(e.slice, ast.Name) and e.slice.id in self.ignore_index:
            return self.vec(e.value)
        if isinstance(e, ast.BinOp):
            op = {ast.Add: "+", ast.Sub: "-", ast.Mult: "*", ast.Div: "/"}.get(type(e.op))
            if op is None:
                raise ExtractError(f"unsupported vector operator in `{t}`")
            lv, rv = self._isvec(e.left), self._isvec(e.right)
            if lv and rv:
                return f"(List.zipWith (fun x__ y__ => x__ {op} y__) {self.vec(e.left)} {self.vec(e.right)})"
            if lv:
                return f"(List.map (fun x__ => x__ {op} {self.num(e.right)}) {self.vec(e.left)})"
            if rv:
                return f"(List.map (fun y__ => {self.num(e.left)} {op} y__) {self.vec(e.right)})"
        if isinstance(e, ast.Call) and ast.unparse(e.func) in self.vecfuns and len(e.args) == 1 and not e.keywords:
            fn = self.vecfuns[ast.unparse(e.func)]  # a whole-vector function (List α → List α), an abstract parameter
            if fn not in self.funparams:
                self.funparams.append(fn)
            return f"({fn} {self.vec(e.args[0])})"
        if isinstance(e, ast.Call) and ast.unparse(e.func) in self.funs and len(e.args) == 1 and not e.keywords:
            fn = self.funs[ast.unparse(e.func)]
            if fn not in self.funparams:
                self.funparams.append(fn)
            return f"(List.map {fn} {self.vec(e.args[0])})"
        raise ExtractError(f"unsupported vector expression `{t}`")

    # ---------------------------------------------------------------- keys
    def _function(self):
        if self._func is None:
            path = os.path.join(self.spec["_repo"], self.spec["file"])
            with open(path) as f:
                tree = ast.parse(f.read())
            self._func = extract._find_func(tree, self.spec["func"])
        return self._func

    def key(self, e, depth=0):
        t = ast.unparse(e)
        if depth > 8:
            raise ExtractError(f"key expression `{t}` is defined circularly")
        if t in self.rename:
            return self.var(t)
        if isinstance(e, ast.Name):
            hits = []
            for st in ast.walk(self._function()):
                if not (isinstance(st, ast.Assign) and len(st.targets) == 1):
                    continue
                tg = st.targets[0]
                if isinstance(tg, (ast.Tuple, ast.List)):
                    for i, el in enumerate(tg.elts):
                        if isinstance(el, ast.Name) and el.id == e.id:
                            hits.append((st, i, len(tg.elts)))
                elif isinstance(tg, ast.Name) and tg.id == e.id:
                    hits.append((st, None, None))
            if len(hits) != 1:
                raise ExtractError(f"key `{t}` has {len(hits)} definitions in the function (expected exactly 1)")
            st, i, ntargets = hits[0]
            v = st.value
            if i is None:
                return self.key(v, depth + 1)
            if isinstance(v, ast.Call) and ast.unparse(v.func) in ("jax.random.split", "random.split", "jrandom.split", "rnd.split"):
                kw = {k.arg: k.value for k in v.keywords}
                src = v.args[0] if v.args else kw.get("key")
                num = v.args[1] if len(v.args) > 1 else kw.get("num")
                n = 2 if num is None else (num.value if isinstance(num, ast.Constant) and isinstance(num.value, int) else None)
                if src is None or n is None:
                    raise ExtractError(f"unsupported split call `{ast.unparse(v)}`")
                if n != ntargets:
                    raise ExtractError(f"`{ast.unparse(st)}` unpacks {ntargets} names from a split into {n}")
                if "split" not in self.funparams:
                    self.funparams.append("split")
                return f"(split {self.key(src, depth + 1)} {n} {i})"
            raise ExtractError(f"key `{t}` is not produced by jax.random.split: `{ast.unparse(st)}`")
        raise ExtractError(f"unsupported key expression `{t}`")

    # ---------------------------------------------------------------- overrides
    def num(self, e):
        if self._top:
            self._top = False
            if self.spec.get("result") == "Vec":
                return self.vec(e)
            if self.spec.get("result") == "Key":
                return self.key(e)
        if isinstance(e, ast.Call):
            f = ast.unparse(e.func)
            if f in ("jnp.clip", "onp.clip", "np.clip"):
                kw = {k.arg: k.value for k in e.keywords}
                a = list(e.args) + [kw[k] for k in ("a_min", "min", "a_max", "max") if k in kw]
                isnone = lambda x: isinstance(x, ast.Constant) and x.value is None
                if len(a) == 2:
                    return f"(max {self.num(a[0])} {self.num(a[1])})"
                if len(a) == 3 and isnone(a[2]) and not isnone(a[1]):
                    return f"(max {self.num(a[0])} {self.num(a[1])})"
                if len(a) == 3 and isnone(a[1]) and not isnone(a[2]):
                    return f"(min {self.num(a[0])} {self.num(a[2])})"
            if f.split(".")[-1] == "sum" and (f == "sum" or f.split(".")[0] in _NP) and len(e.args) == 1 and self._isvec(e.args[0]):
                for k in e.keywords:
                    if not (k.arg == "axis" and isinstance(k.value, (ast.Constant, ast.UnaryOp))):
                        raise ExtractError(f"unsupported keyword `{k.arg}` in `{ast.unparse(e)}`")
                return f"(List.foldl (fun x__ y__ => x__ + y__) (Nat.cast 0 : α) {self.vec(e.args[0])})"
        return super().num(e)

    def boolean(self, e):
        self._top = False
        if isinstance(e, ast.BinOp) and isinstance(e.op, (ast.BitAnd, ast.BitOr)) and ast.unparse(e) not in self.opaque:
            return f"({self.boolean(e.left)} {'&&' if isinstance(e.op, ast.BitAnd) else '||'} {self.boolean(e.right)})"
        if isinstance(e, ast.Call):
            f = ast.unparse(e.func)
            parts = f.split(".")
            if len(parts) == 2 and parts[0] in _NP and parts[1] in _CMP and len(e.args) == 2 and not e.keywords:
                return f"decide ({self.num(e.args[0])} {_CMP[parts[1]]} {self.num(e.args[1])})"
        return super().boolean(e)
