"""Regenerates MANIFEST.json from the list of built checks (harness/props/*.py) and properties.jsonl."""
import json
import os
import sys

HERE = os.path.dirname(os.path.abspath(__file__))
VERIF = os.path.dirname(HERE)
sys.path.insert(0, HERE)

CHECKS = json.load(open(os.path.join(HERE, "checks.json")))
props = [json.loads(l) for l in open(os.path.join(VERIF, "properties.jsonl"))]
checks, na = [], []
for p in props:
    pid = p["id"]
    c = CHECKS.get(pid)
    if c is None or not os.path.exists(os.path.join(HERE, "props", pid.lower() + ".py")):
        na.append(dict(property_id=pid, reason="check not built yet in this round (planned: see DESIGN.md section 5); not claimed"))
        continue
    checks.append(
        dict(
            property_id=pid,
            quick_cmd=f"./check {pid} --tier quick",
            thorough_cmd=f"./check {pid} --tier thorough",
            evidence_file=f"evidence/{pid}.json",
            replay_cmd_template=f"./check {pid} --replay {{path}}",
            engine="lean4-proof+correspondence",
            level_claimed=dict(category=c["category"], text=c["text"], design_ref=c["design_ref"]),
            level_note=c["note"],
            technique=c["technique"],
        )
    )
m = dict(
    version=1,
    setup_cmd="./check setup",
    hooks=dict(
        guard="REX_VERIF",
        enable="environment variable REX_VERIF=1 (set by ./check); rex is imported from /repo's working tree (pure Python, nothing to build)",
        baseline_off_cmd="cd /repo && env -u REX_VERIF /venv/bin/python -m pytest -ra -q -p no:cacheprovider --timeout=900 --continue-on-collection-errors",
        source_commits=CHECKS["_hooks"]["source_commits"],
        add_only=True,
    ),
    engines=[
        dict(name="lean4-proof+correspondence", path="lean/ + harness/", serves_properties=[c["property_id"] for c in checks],
             kind_free_text="Lean 4 theorems about models whose arithmetic/decision kernels are regenerated from the rex source on every run (harness/extract.py), plus a correspondence check that runs the model's executable definitions (lake env lean --run Driver/Main.lean) and the real rex code on the same generated inputs and diffs them; property monitors on the real code provide the failing-input search"),
    ],
    checks=checks,
    notes="See DESIGN.md. Fix commits and known findings are listed in known_findings.txt.",
    not_applicable=na,
)
json.dump(m, open(os.path.join(VERIF, "MANIFEST.json"), "w"), indent=1)
print("checks:", [c["property_id"] for c in checks], "not claimed:", len(na))
