"""Kernel extractor: regenerates lean/RexModel/Gen/*.lean from the *current* rex source.

A kernel is a named expression (or small statement) inside a named function of rex. It is located
structurally in the Python AST (n-th lambda / assignment to a given target / return / if-test / while
test of a given function) and translated to a Lean `def` in a tiny expression language. The Lean
theorems in RexModel/Props are stated about these generated definitions, so an edit to the arithmetic
or to a comparison in the source changes the definition the theorems are checked against.

Outcome per kernel: ok (Lean text) or an error string (statement missing / ambiguous / outside the
expression language). Errors are *obligation-broken* events for the properties that use the kernel.
"""
import ast
import hashlib
import json
import os
import re
import sys
import textwrap

HERE = os.path.dirname(os.path.abspath(__file__))
VERIF = os.path.dirname(HERE)
GEN_DIR = os.path.join(VERIF, "lean", "RexModel", "Gen")


class ExtractError(Exception):
    pass


# ------------------------------------------------------------------------------------------------
# locating


def _find_func(tree, qual):
    parts = qual.split(".")
    node = tree
    for p in parts:
        found = None
        for ch in ast.walk(node) if node is tree else ast.iter_child_nodes(node):
            if isinstance(ch, (ast.FunctionDef, ast.ClassDef, ast.AsyncFunctionDef)) and ch.name == p:
                found = ch
                break
        if found is None:
            # nested function inside a function body (any depth)
            for ch in ast.walk(node):
                if isinstance(ch, (ast.FunctionDef, ast.ClassDef)) and ch.name == p and ch is not node:
                    found = ch
                    break
        if found is None:
            raise ExtractError(f"function/class `{p}` of `{qual}` not found")
        node = found
    return node


def _nth(items, n, what):
    if len(items) <= n:
        raise ExtractError(f"{what}: wanted occurrence {n}, found {len(items)}")
    return items[n]


def locate(func, loc):
    """loc = (kind, arg, n). Returns (expr_node, arg_names or None)."""
    kind = loc[0]
    if kind == "lambda":
        lams = [x for x in ast.walk(func) if isinstance(x, ast.Lambda)]
        lams.sort(key=lambda x: (x.lineno, x.col_offset))
        lam = _nth(lams, loc[1], "lambda")
        return lam.body, [a.arg for a in lam.args.args]
    if kind == "assign":
        target, n = loc[1], loc[2] if len(loc) > 2 else 0
        hits = []
        for x in ast.walk(func):
            if isinstance(x, ast.Assign) and len(x.targets) == 1 and ast.unparse(x.targets[0]) == target:
                hits.append(x)
            elif isinstance(x, ast.AugAssign) and ast.unparse(x.target) == target:
                hits.append(x)
            elif isinstance(x, ast.AnnAssign) and x.value is not None and ast.unparse(x.target) == target:
                hits.append(x)
        hits.sort(key=lambda x: (x.lineno, x.col_offset))
        st = _nth(hits, n, f"assignment to `{target}`")
        if isinstance(st, ast.AugAssign):
            # x op= e  ==> x op e
            return ast.copy_location(ast.BinOp(left=st.target, op=st.op, right=st.value), st), None
        return st.value, None
    if kind == "assign_unique":
        target = loc[1]
        e, _ = locate(func, ("assign", target, 0))
        try:
            locate(func, ("assign", target, 1))
        except ExtractError:
            return e, None
        raise ExtractError(f"assignment to `{target}` is not unique")
    if kind == "return":
        rets = [x for x in ast.walk(func) if isinstance(x, ast.Return) and x.value is not None]
        rets.sort(key=lambda x: (x.lineno, x.col_offset))
        return _nth(rets, loc[1], "return").value, None
    if kind == "iftest":
        ifs = [x for x in ast.walk(func) if isinstance(x, ast.If)]
        ifs.sort(key=lambda x: (x.lineno, x.col_offset))
        return _nth(ifs, loc[1], "if").test, None
    if kind == "iftest_containing":
        ifs = [x for x in ast.walk(func) if isinstance(x, ast.If) and loc[1] in ast.unparse(x.test)]
        ifs.sort(key=lambda x: (x.lineno, x.col_offset))
        return _nth(ifs, loc[2] if len(loc) > 2 else 0, f"if containing `{loc[1]}`").test, None
    if kind == "foriter":
        fs = [x for x in ast.walk(func) if isinstance(x, ast.For)]
        fs.sort(key=lambda x: (x.lineno, x.col_offset))
        return _nth(fs, loc[1], "for").iter, None
    if kind == "genexp_elt":
        gs = [x for x in ast.walk(func) if isinstance(x, ast.GeneratorExp)]
        gs.sort(key=lambda x: (x.lineno, x.col_offset))
        hits = [g for g in gs if loc[1] in ast.unparse(g)]
        return _nth(hits, loc[2] if len(loc) > 2 else 0, f"generator containing `{loc[1]}`").elt, None
    if kind in ("for_if", "while_if"):
        cls = ast.For if kind == "for_if" else ast.While
        loops = [x for x in ast.walk(func) if isinstance(x, cls)]
        loops.sort(key=lambda x: (x.lineno, x.col_offset))
        lp = _nth(loops, loc[1], kind)
        ifs = [x for x in ast.walk(lp) if isinstance(x, ast.If)]
        ifs.sort(key=lambda x: (x.lineno, x.col_offset))
        return _nth(ifs, loc[2], f"if #{loc[2]} inside {kind} #{loc[1]}").test, None
    if kind == "assign_genexp":
        e, _ = locate(func, ("assign_unique", loc[1]))
        gs = [x for x in ast.walk(e) if isinstance(x, ast.GeneratorExp)]
        gs.sort(key=lambda x: (x.lineno, x.col_offset))
        return _nth(gs, 0, f"generator in assignment to `{loc[1]}`").elt, None
    if kind == "body":
        # the whole body of the function (used with result="Block"): statements, argument names without `self`
        return func, [a.arg for a in func.args.args if a.arg != "self"]
    if kind == "whiletest":
        ws = [x for x in ast.walk(func) if isinstance(x, ast.While)]
        ws.sort(key=lambda x: (x.lineno, x.col_offset))
        return _nth(ws, loc[1], "while").test, None
    if kind == "call_arg":
        # n-th call whose func unparse == name; return positional arg k
        name, n, k = loc[1], loc[2], loc[3]
        calls = [x for x in ast.walk(func) if isinstance(x, ast.Call) and ast.unparse(x.func) == name]
        calls.sort(key=lambda x: (x.lineno, x.col_offset))
        c = _nth(calls, n, f"call of `{name}`")
        return _nth(c.args, k, f"argument {k} of `{name}`"), None
    if kind == "call_arg_elt":
        # n-th call whose func unparse == name; positional arg k must be a list/tuple display of exactly `size` elements; return element e
        name, n, k, e, size = loc[1], loc[2], loc[3], loc[4], loc[5]
        calls = [x for x in ast.walk(func) if isinstance(x, ast.Call) and ast.unparse(x.func) == name]
        calls.sort(key=lambda x: (x.lineno, x.col_offset))
        c = _nth(calls, n, f"call of `{name}`")
        a = _nth(c.args, k, f"argument {k} of `{name}`")
        if not isinstance(a, (ast.List, ast.Tuple)) or len(a.elts) != size:
            raise ExtractError(f"argument {k} of `{name}` is not a list of {size} element(s): `{ast.unparse(a)}`")
        return a.elts[e], None
    if kind == "kwarg":
        # n-th call whose func unparse == name; keyword kw
        name, n, kw = loc[1], loc[2], loc[3]
        calls = [x for x in ast.walk(func) if isinstance(x, ast.Call) and ast.unparse(x.func) == name]
        calls.sort(key=lambda x: (x.lineno, x.col_offset))
        c = _nth(calls, n, f"call of `{name}`")
        for k in c.keywords:
            if k.arg == kw:
                return k.value, None
        raise ExtractError(f"keyword `{kw}` of `{name}` not found")
    if kind == "comp_if":
        # n-th comprehension (dict/list/set/generator) that has a condition; its k-th `if`
        comps = [x for x in ast.walk(func) if isinstance(x, (ast.DictComp, ast.ListComp, ast.SetComp, ast.GeneratorExp)) and any(g.ifs for g in x.generators)]
        comps.sort(key=lambda x: (x.lineno, x.col_offset))
        c = _nth(comps, loc[1], "comprehension with a condition")
        ifs = [i for g in c.generators for i in g.ifs]
        return _nth(ifs, loc[2] if len(loc) > 2 else 0, "comprehension condition"), None
    if kind == "subscript_store":
        # n-th assignment `name[<key>] = ...`; returns the key expression
        name, n = loc[1], loc[2] if len(loc) > 2 else 0
        hits = [x for x in ast.walk(func) if isinstance(x, ast.Assign) and len(x.targets) == 1 and isinstance(x.targets[0], ast.Subscript) and ast.unparse(x.targets[0].value) == name]
        hits.sort(key=lambda x: (x.lineno, x.col_offset))
        return _nth(hits, n, f"assignment to `{name}[...]`").targets[0].slice, None
    if kind == "range_arg":
        # the single argument of `range(...)` iterated by the n-th for loop
        fs = [x for x in ast.walk(func) if isinstance(x, ast.For)]
        fs.sort(key=lambda x: (x.lineno, x.col_offset))
        it = _nth(fs, loc[1], "for").iter
        if not (isinstance(it, ast.Call) and ast.unparse(it.func) == "range" and len(it.args) == 1 and not it.keywords):
            raise ExtractError(f"for #{loc[1]} does not iterate over range(<one argument>): `{ast.unparse(it)}`")
        return it.args[0], None
    if kind == "fstring_value":
        # n-th f-string of the form f"<prefix>{expr}" ; returns expr
        prefix, n = loc[1], loc[2]
        js = [x for x in ast.walk(func) if isinstance(x, ast.JoinedStr) and len(x.values) == 2 and isinstance(x.values[0], ast.Constant)
              and x.values[0].value == prefix and isinstance(x.values[1], ast.FormattedValue)]
        js.sort(key=lambda x: (x.lineno, x.col_offset))
        return _nth(js, n, f"f-string `{prefix}{{...}}`").values[1].value, None
    if kind == "comp_elt":
        # element expression of the n-th list comprehension / generator expression
        gs = [x for x in ast.walk(func) if isinstance(x, (ast.GeneratorExp, ast.ListComp))]
        gs.sort(key=lambda x: (x.lineno, x.col_offset))
        return _nth(gs, loc[1], "comprehension").elt, None
    if kind == "ifstmt_containing":
        # the n-th `if` statement (the statement node itself) whose test contains the given text and is not an `elif` of such an if
        ifs = [x for x in ast.walk(func) if isinstance(x, ast.If) and loc[1] in ast.unparse(x.test)]
        elifs = {id(x.orelse[0]) for x in ifs if len(x.orelse) == 1 and isinstance(x.orelse[0], ast.If)}
        ifs = [x for x in ifs if id(x) not in elifs]
        ifs.sort(key=lambda x: (x.lineno, x.col_offset))
        return _nth(ifs, loc[2] if len(loc) > 2 else 0, f"if statement containing `{loc[1]}`"), None
    if kind == "assert_containing":
        # n-th `assert <test>` whose test text contains loc[1]
        asr = [x for x in ast.walk(func) if isinstance(x, ast.Assert) and loc[1] in ast.unparse(x.test)]
        asr.sort(key=lambda x: (x.lineno, x.col_offset))
        return _nth(asr, loc[2] if len(loc) > 2 else 0, f"assert containing `{loc[1]}`").test, None
    raise ExtractError(f"unknown locator {loc}")


# ------------------------------------------------------------------------------------------------
# translating


def _san(s):
    s = re.sub(r"[^A-Za-z0-9_]", "_", s)
    s = re.sub(r"_+", "_", s).strip("_")
    if not s or s[0].isdigit():
        s = "v_" + s
    if s in ("at", "from", "fun", "end", "in", "let", "do", "then", "else", "if", "open", "def", "max", "min", "seq", "show", "have", "by", "with", "match", "local", "prefix", "section", "variable", "instance", "structure", "class", "where"):
        s = s + "_"
    return s


class Tr:
    """Translate a Python expression AST to Lean text over a carrier `ty` ("α" or "Int")."""

    def __init__(self, spec):
        self.spec = spec
        self.ty = spec.get("ty", "α")
        self.rename = spec.get("rename", {})
        self.ints = set(spec.get("ints", []))
        self.bools = set(spec.get("bools", []))
        self.funs = spec.get("funs", {})  # python callee text -> (lean fun param name)
        self.opaque = spec.get("opaque", {})  # python subexpression text -> variable name
        self.opaque_re = spec.get("opaque_re", [])  # [(regex matching the WHOLE subexpression text, variable name)]
        self.consts = spec.get("consts", {})  # python text -> lean text (e.g. enum members)
        self.vars = []  # in order of first appearance
        self.funparams = []
        # --- extensions (C16): optional arguments, comprehension-bound variables, keyword dictionaries
        self.opts = set(spec.get("opts", []))  # parameters of type `Option ty` (Python: value or None)
        self.unwrapped = {}  # optional parameter -> name of its value inside a `some` branch
        self.bound = set()  # comprehension variables in scope
        self.elemfuns = []  # (lean name, "num" | "bool"): attributes of a comprehension variable, as functions of the element
        self.kwdicts = spec.get("kwdicts", {})  # python dict expression text -> prefix; `d.get('k', x)` ==> Option.getD <prefix>_k x
        self.bound = set()  # names bound by `let` inside a Block kernel (not parameters)

    def var(self, text):
        name = self.rename.get(text, _san(text))
        if name in self.bound:
            return name
        if name not in self.vars:
            self.vars.append(name)
        return name

    def lit(self, v):
        if isinstance(v, bool):
            return "true" if v else "false"
        if isinstance(v, int):
            if self.ty == "Int":
                return f"({v} : Int)" if v >= 0 else f"(-{-v} : Int)"
            return f"(Nat.cast {v} : α)" if v >= 0 else f"(-(Nat.cast {-v} : α))"
        if isinstance(v, float):
            if self.ty == "Int":
                raise ExtractError(f"float literal {v} in Int kernel")
            from fractions import Fraction

            fr = Fraction(repr(v))
            if fr.denominator == 1:
                return self.lit(int(fr.numerator))
            s = f"((Nat.cast {abs(fr.numerator)} : α) / (Nat.cast {fr.denominator} : α))"
            return s if fr >= 0 else f"(-{s})"
        raise ExtractError(f"unsupported literal {v!r}")

    def _elemfun(self, e, kind):
        """`v.attr` for a comprehension variable v ==> `(v_attr v)` with `v_attr` a function parameter of the kernel"""
        if isinstance(e, ast.Attribute) and isinstance(e.value, ast.Name) and e.value.id in self.bound:
            fn = _san(f"{e.value.id}_{e.attr}")
            for n, k in self.elemfuns:
                if n == fn and k != kind:
                    raise ExtractError(f"`{ast.unparse(e)}` used both as a number and as a boolean")
            if (fn, kind) not in self.elemfuns:
                self.elemfuns.append((fn, kind))
            return f"({fn} {_san(e.value.id)})"
        return None

    def _is_none_test(self, t):
        """`x is None` / `x is not None` on an optional parameter ==> (lean name of x, True if the test is `is not None`)"""
        if isinstance(t, ast.Compare) and len(t.ops) == 1 and isinstance(t.ops[0], (ast.Is, ast.IsNot)) and isinstance(t.comparators[0], ast.Constant) \
                and t.comparators[0].value is None and isinstance(t.left, (ast.Name, ast.Attribute)):
            x = self.rename.get(ast.unparse(t.left), _san(ast.unparse(t.left)))
            if x in self.opts:
                return self.var(ast.unparse(t.left)), isinstance(t.ops[0], ast.IsNot)
        return None

    def _opt_name(self, e):
        if isinstance(e, (ast.Name, ast.Attribute)):
            x = self.rename.get(ast.unparse(e), _san(ast.unparse(e)))
            if x in self.opts:
                return x
        return None

    def lstcomp(self, lc):
        """[elt for v in xs if cond ...] ==> List.map (fun v => elt) (List.filter (fun v => cond) xs); attributes of `v`
        become functions of the (abstract) element type ι"""
        if len(lc.generators) != 1 or lc.generators[0].is_async or not isinstance(lc.generators[0].target, ast.Name):
            raise ExtractError(f"unsupported comprehension `{ast.unparse(lc)}`")
        gen = lc.generators[0]
        v = gen.target.id
        it = self.var(ast.unparse(gen.iter))
        self.spec.setdefault("lists", set()).add(it)
        self.spec.setdefault("list_elem", {})[it] = "ι"
        self.bound.add(v)
        try:
            conds = [self.boolean(c) for c in gen.ifs]
            elt = self.num(lc.elt)
        finally:
            self.bound.discard(v)
        base = it
        if conds:
            base = f"(List.filter (fun {_san(v)} => {' && '.join(conds)}) {base})"
        return f"(List.map (fun {_san(v)} => {elt}) {base})"

    def _num_ext(self, e, t):
        """extensions of `num` (C16): element attributes, optional parameters, `kwargs.get`. Returns None when not applicable."""
        ef = self._elemfun(e, "num")
        if ef is not None:
            return ef
        ox = self._opt_name(e)
        if ox is not None:
            self.var(t)
            if ox in self.unwrapped:
                return self.unwrapped[ox]
            raise ExtractError(f"optional `{t}` used as a value where it may be None")
        if isinstance(e, ast.IfExp) and self._is_none_test(e.test) is not None:
            x, is_not = self._is_none_test(e.test)
            some_b, none_b = (e.body, e.orelse) if is_not else (e.orelse, e.body)
            v = x + "_v"
            self.unwrapped[x] = v
            try:
                sb = self.num(some_b)
            finally:
                del self.unwrapped[x]
            nb = self.num(none_b)
            return f"(match {x} with | some {v} => {sb} | none => {nb})"
        if isinstance(e, ast.BoolOp) and isinstance(e.op, ast.Or) and len(e.values) == 2 and self._opt_name(e.values[0]) is not None:
            # Python `x or y` on an optional number: y when x is None *or falsy (0)*; objects other than numbers are truthy
            x = self.var(ast.unparse(e.values[0]))
            v = x + "_v"
            rest = self.num(e.values[1])
            truthy = f"(!({v} == {self.lit(0)}))" if self.ty in ("α", "Int") else "true"
            return f"(match {x} with | some {v} => (if {truthy} then {v} else {rest}) | none => {rest})"
        if isinstance(e, ast.Call) and isinstance(e.func, ast.Attribute) and e.func.attr == "get" and ast.unparse(e.func.value) in self.kwdicts \
                and len(e.args) == 2 and isinstance(e.args[0], ast.Constant) and isinstance(e.args[0].value, str):
            # kwargs.get('k', default): the override dictionary is modelled by one optional parameter per key
            x = _san(f"{self.kwdicts[ast.unparse(e.func.value)]}_{e.args[0].value}")
            self.opts.add(x)
            if x not in self.vars:
                self.vars.append(x)
            return f"(match {x} with | some {x}_v => {x}_v | none => {self.num(e.args[1])})"
        return None

    def num(self, e):
        """numeric-valued expression"""
        t = ast.unparse(e)
        if t in self.consts:
            return self.consts[t]
        if self.opts or self.bound or self.kwdicts:
            ext = self._num_ext(e, t)
            if ext is not None:
                return ext
        if t in self.opaque:
            if self.opaque[t] not in self.vars:
                self.vars.append(self.opaque[t])
            return self._typed_var(self.opaque[t])
        for rx, nm in self.opaque_re:
            if re.fullmatch(rx, t, flags=re.S):
                if nm not in self.vars:
                    self.vars.append(nm)
                return self._typed_var(nm)
        if isinstance(e, ast.Constant):
            return self.lit(e.value)
        if isinstance(e, (ast.Name, ast.Attribute)):
            return self._typed_var(self.var(t))
        if isinstance(e, ast.Subscript):
            return self._typed_var(self.var(t))
        if isinstance(e, ast.UnaryOp) and isinstance(e.op, ast.USub):
            return f"(-{self.num(e.operand)})"
        if isinstance(e, ast.UnaryOp) and isinstance(e.op, ast.UAdd):
            return self.num(e.operand)
        if isinstance(e, ast.BinOp):
            a, b = self.num(e.left), self.num(e.right)
            if isinstance(e.op, ast.Add):
                return f"({a} + {b})"
            if isinstance(e.op, ast.Sub):
                return f"({a} - {b})"
            if isinstance(e.op, ast.Mult):
                return f"({a} * {b})"
            if isinstance(e.op, ast.Div):
                if self.ty == "Int":
                    raise ExtractError("true division in Int kernel")
                return f"({a} / {b})"
            if isinstance(e.op, ast.FloorDiv):
                if self.ty == "Int":
                    return f"({a} / {b})"
                return f"(Rex.floorDiv {a} {b})"
            if isinstance(e.op, ast.Mod):
                if self.ty == "Int":
                    return f"({a} % {b})"
                raise ExtractError("`%` on non-Int carrier")
            if isinstance(e.op, ast.Pow) and isinstance(e.left, ast.Constant) and isinstance(e.right, ast.Constant) and isinstance(e.left.value, int) and isinstance(e.right.value, int) and 0 <= e.right.value < 64:
                return self.lit(e.left.value ** e.right.value)
            if isinstance(e.op, ast.Pow):
                if isinstance(e.right, ast.Constant) and e.right.value == 2:
                    return f"({a} * {a})"
                raise ExtractError("unsupported power")
            raise ExtractError(f"unsupported operator {type(e.op).__name__}")
        if isinstance(e, ast.IfExp):
            return f"(if {self.boolean(e.test)} then {self.num(e.body)} else {self.num(e.orelse)})"
        if isinstance(e, ast.Call):
            f = ast.unparse(e.func)
            args = e.args
            if f in self.funs:
                fn = self.funs[f]
                if e.keywords:
                    raise ExtractError(f"keyword arguments in call of `{f}`")
                if fn not in self.funparams:
                    self.funparams.append(fn)
                if not args:
                    return fn
                return "(" + fn + " " + " ".join(self.num(a) for a in args) + ")"
            if f == "max" and len(args) == 1 and isinstance(args[0], ast.BinOp) and isinstance(args[0].op, ast.Add) and isinstance(args[0].left, ast.List) and len(args[0].left.elts) == 1:
                # max([a] + xs)  ==> fold of max over xs starting from a
                if isinstance(args[0].right, ast.ListComp):
                    return f"(List.foldl max {self.num(args[0].left.elts[0])} {self.lstcomp(args[0].right)})"
                xs = self.var(ast.unparse(args[0].right))
                self.spec.setdefault("lists", set()).add(xs)
                return f"(List.foldl max {self.num(args[0].left.elts[0])} {xs})"
            if f in ("max", "jnp.maximum", "onp.maximum", "jnp.max", "np.maximum"):
                if len(args) == 1 and isinstance(args[0], (ast.List, ast.Tuple)):
                    args = args[0].elts
                if len(args) == 1 and isinstance(args[0], ast.Call) and ast.unparse(args[0].func) in ("jnp.array", "onp.array"):
                    args = args[0].args[0].elts
                return self._fold("max", [self.num(a) for a in args])
            if f in ("min", "jnp.minimum", "onp.minimum", "jnp.min", "np.minimum"):
                if len(args) == 1 and isinstance(args[0], (ast.List, ast.Tuple)):
                    args = args[0].elts
                return self._fold("min", [self.num(a) for a in args])
            if f in ("jnp.where", "onp.where", "jax.lax.select"):
                return f"(if {self.boolean(args[0])} then {self.num(args[1])} else {self.num(args[2])})"
            if f in ("jnp.clip", "onp.clip"):
                kw = {k.arg: k.value for k in e.keywords}
                a = list(args) + [kw[k] for k in ("a_min", "min", "a_max", "max") if k in kw]
                if len(a) != 3:
                    raise ExtractError("clip needs 3 arguments")
                return f"(Rex.clip {self.num(a[0])} {self.num(a[1])} {self.num(a[2])})"
            if f == "round" and len(args) == 2 and isinstance(args[1], ast.Constant) and args[1].value == 6:
                if "rnd" not in self.funparams:
                    self.funparams.append("rnd")
                return f"(rnd {self.num(args[0])})"
            if f in ("float", "jnp.array", "jnp.asarray", "onp.array", "onp.int32", "jnp.int32", "onp.float32", "jnp.float32") and len(args) >= 1:
                return self.num(args[0])
            if f in ("abs", "jnp.abs"):
                x = self.num(args[0])
                return f"(max {x} (-{x}))"
            if f in ("jnp.square", "onp.square") and len(args) == 1:
                x = self.num(args[0])
                return f"({x} * {x})"
            if f in ("jnp.zeros_like", "jnp.zeros", "onp.zeros_like", "onp.zeros") and len(args) >= 1:
                return self.lit(0)
            if f in ("jnp.ones_like", "jnp.ones", "onp.ones_like", "onp.ones") and len(args) >= 1:
                return self.lit(1)
            if f == "jax.lax.cond" and len(args) == 3 and not e.keywords:
                # cond(pred, a, b) over values (or over names of argument-free local branches, extracted separately)
                return f"(if {self.boolean(args[0])} then {self.num(args[1])} else {self.num(args[2])})"
            raise ExtractError(f"unsupported call `{f}`")
        if isinstance(e, ast.Tuple) and len(e.elts) >= 2:
            # (a, b, ...)  ==> a Lean tuple
            return "(" + ", ".join(self.num(x) for x in e.elts) + ")"
        if isinstance(e, ast.JoinedStr):
            # f"{a}_{b}"  ==> the pair (a, b): identifiers built from a kind and a number are modelled as pairs
            parts = []
            for v in e.values:
                if isinstance(v, ast.FormattedValue) and v.format_spec is None and v.conversion == -1:
                    parts.append(self.num(v.value))
                elif isinstance(v, ast.Constant) and v.value == "_":
                    continue
                else:
                    raise ExtractError(f"unsupported f-string `{t}`")
            if len(parts) < 2:
                raise ExtractError(f"unsupported f-string `{t}`")
            return "(" + ", ".join(parts) + ")"
        raise ExtractError(f"unsupported expression `{t}`")

    def val(self, e):
        """a value: a tuple of values or a numeric/abstract expression"""
        if isinstance(e, ast.Tuple):
            return "(" + ", ".join(self.val(x) for x in e.elts) + ")"
        return self.num(e)

    def _bind(self, pyname):
        n = self.rename.get(pyname, _san(pyname))
        self.bound.add(n)
        return n

    @staticmethod
    def _assigned(stmts):
        out = []
        for s in stmts:
            for x in ast.walk(s):
                tg = []
                if isinstance(x, ast.Assign):
                    tg = x.targets
                elif isinstance(x, (ast.AugAssign, ast.AnnAssign)):
                    tg = [x.target]
                for t in tg:
                    for nm in t.elts if isinstance(t, ast.Tuple) else [t]:
                        if isinstance(nm, ast.Name) and nm.id != "_" and nm.id not in out:
                            out.append(nm.id)
        return out

    def block(self, stmts, final=None):
        """Straight-line statements with `if` -> nested `let … ; …` / `if … then … else …` ending in the returned value.
        Supported: docstrings, `pass`, `name = e`, `a, _ = e`, `name op= e`, `if`/`else` whose branches assign names, `return e`."""
        if not stmts:
            if final is None:
                raise ExtractError("block ends without `return`")
            return final()
        s, rest = stmts[0], stmts[1:]
        if isinstance(s, ast.Pass) or (isinstance(s, ast.Expr) and isinstance(s.value, ast.Constant) and isinstance(s.value.value, str)):
            return self.block(rest, final)
        if isinstance(s, ast.Return):
            if s.value is None:
                raise ExtractError("bare `return`")
            return self.val(s.value)
        if isinstance(s, (ast.Assign, ast.AugAssign, ast.AnnAssign)):
            if isinstance(s, ast.Assign):
                if len(s.targets) != 1:
                    raise ExtractError("chained assignment")
                tgt, v = s.targets[0], self.val(s.value)
            elif isinstance(s, ast.AugAssign):
                tgt, v = s.target, self.num(ast.copy_location(ast.BinOp(left=s.target, op=s.op, right=s.value), s))
            else:
                if s.value is None:
                    return self.block(rest, final)
                tgt, v = s.target, self.val(s.value)
            if isinstance(tgt, ast.Name):
                n = self._bind(tgt.id)
                return f"let {n} := {v}; {self.block(rest, final)}"
            if isinstance(tgt, ast.Tuple) and all(isinstance(x, ast.Name) for x in tgt.elts):
                k = len(tgt.elts)
                out = f"let tup_ := {v}; "
                for i, x in enumerate(tgt.elts):
                    if x.id == "_":
                        continue
                    proj = "tup_" + ".2" * i + (".1" if i < k - 1 else "")
                    out += f"let {self._bind(x.id)} := {proj}; "
                return out + self.block(rest, final)
            raise ExtractError(f"unsupported assignment target `{ast.unparse(tgt)}`")
        if isinstance(s, ast.If):
            test = self.boolean(s.test)
            names = self._assigned(s.body + s.orelse)
            if not names:
                raise ExtractError("`if` without assignments")
            if any(isinstance(x, ast.Return) for b in (s.body, s.orelse) for st in b for x in ast.walk(st)):
                raise ExtractError("`return` inside `if`")

            def fin():
                refs = [self._typed_var(self.var(nm)) for nm in names]
                return refs[0] if len(refs) == 1 else "(" + ", ".join(refs) + ")"

            before = set(self.bound)
            tb = self.block(s.body, fin)
            self.bound = set(before)
            eb = self.block(s.orelse, fin)
            self.bound = set(before)
            pats = [self._bind(nm) for nm in names]
            pat = pats[0] if len(pats) == 1 else "(" + ", ".join(pats) + ")"
            return f"let {pat} := (if {test} then ({tb}) else ({eb})); {self.block(rest, final)}"
        raise ExtractError(f"unsupported statement `{ast.unparse(s)[:80]}`")

    def lst(self, e):
        """list-valued expression: names, attributes, reversal and window slices"""
        t = ast.unparse(e)
        if isinstance(e, (ast.Name, ast.Attribute)):
            n = self.var(t)
            self.spec.setdefault("lists", set()).add(n)
            return n
        if isinstance(e, ast.Call) and ast.unparse(e.func) in ("jax.lax.cummax", "lax.cummax") and len(e.args) == 1 and all(
            k.arg == "axis" and isinstance(k.value, ast.Constant) and k.value.value == 0 for k in e.keywords
        ):
            # running maximum along the leading axis, written with core `List.scanl`
            base = self.lst(e.args[0])
            return f"(match {base} with | [] => [] | x :: r => List.scanl max x r)"
        if isinstance(e, ast.Subscript) and isinstance(e.slice, ast.Slice):
            sl = e.slice
            base = self.lst(e.value)
            if sl.lower is None and sl.upper is None and sl.step is not None and ast.unparse(sl.step) == "-1":
                return f"(List.reverse {base})"
            if sl.step is None and sl.upper is None and isinstance(sl.lower, ast.UnaryOp) and isinstance(sl.lower.op, ast.USub):
                w = self.var(ast.unparse(sl.lower.operand))
                self.spec.setdefault("nats", set()).add(w)
                return f"(Rex.lastN {w} {base})"
            if sl.step is None and sl.lower is None and sl.upper is not None and not isinstance(sl.upper, ast.UnaryOp):
                w = self.var(ast.unparse(sl.upper))
                self.spec.setdefault("nats", set()).add(w)
                return f"(List.take {w} {base})"
        if isinstance(e, ast.Call) and ast.unparse(e.func) == "zip" and len(e.args) >= 2 and not e.keywords:
            # zip(a, b, c)  ==> List.zip a (List.zip b c)   (truncates to the shortest, like Python)
            parts = [self.lst(a) for a in e.args]
            r = parts[-1]
            for p in reversed(parts[:-1]):
                r = f"(List.zip {p} {r})"
            return r
        if isinstance(e, ast.Call) and ast.unparse(e.func) in self.spec.get("listfuns", {}) and not e.keywords:
            # library function on lists passed in as a function parameter (spec["listfuns"]: callee text -> parameter name; type in spec["sigs"])
            fn = self.spec["listfuns"][ast.unparse(e.func)]
            if fn not in self.funparams:
                self.funparams.append(fn)
            return "(" + fn + " " + " ".join(self.lst(a) for a in e.args) + ")"
        raise ExtractError(f"unsupported list expression `{t}`")

    def index(self, e):
        """`xs[i]` (result "Index"): `xs[k]?` for a literal k >= 0, the k-th element from the end for a literal -k (none when out of
        range, where Python raises), `xs[i]?` for an index variable, and the gathered list for an index-list variable named in spec["gather"]."""
        if not isinstance(e, ast.Subscript) or isinstance(e.slice, ast.Slice):
            raise ExtractError(f"expected an indexing expression, got `{ast.unparse(e)}`")
        base = self.lst(e.value)
        s = e.slice
        if isinstance(s, ast.Constant) and isinstance(s.value, int) and not isinstance(s.value, bool) and s.value >= 0:
            return f"({base}[{s.value}]?)"
        if isinstance(s, ast.UnaryOp) and isinstance(s.op, ast.USub) and isinstance(s.operand, ast.Constant) and isinstance(s.operand.value, int) and s.operand.value > 0:
            k = s.operand.value
            return f"(if {k} ≤ List.length {base} then {base}[List.length {base} - {k}]? else none)"
        if isinstance(s, ast.Name):
            n = self.var(s.id)
            if n in self.spec.get("gather", []):
                return f"(List.filterMap (fun i => {base}[i]?) {n})"
            self.spec.setdefault("nats", set()).add(n)
            return f"({base}[{n}]?)"
        raise ExtractError(f"unsupported index `{ast.unparse(s)}`")

    def intexpr(self, e):
        """Int-valued expression over a non-Int carrier: int(a // b), int literals, int variables, conditionals"""
        if isinstance(e, ast.Constant) and isinstance(e.value, int):
            return f"({e.value} : Int)"
        if isinstance(e, ast.UnaryOp) and isinstance(e.op, ast.USub) and isinstance(e.operand, ast.Constant) and isinstance(e.operand.value, int) and not isinstance(e.operand.value, bool):
            return f"(-{e.operand.value} : Int)"
        if isinstance(e, ast.Name):
            n = self.var(e.id)
            self.ints.add(n)
            return n
        if isinstance(e, ast.Call) and ast.unparse(e.func) in ("jnp.where", "onp.where", "jax.lax.select") and len(e.args) == 3:
            # integer-valued selection whose condition may compare carrier (time) values
            return f"(if {self.boolean(e.args[0])} then {self.intexpr(e.args[1])} else {self.intexpr(e.args[2])})"
        if isinstance(e, ast.IfExp):
            t = e.test
            if not (isinstance(t, ast.Compare) and len(t.ops) == 1):
                raise ExtractError("unsupported test in Int conditional")
            a, b = self.intexpr(t.left), self.intexpr(t.comparators[0])
            op = {ast.Gt: ">", ast.GtE: "≥", ast.Lt: "<", ast.LtE: "≤", ast.Eq: "="}.get(type(t.ops[0]))
            if op is None:
                raise ExtractError("unsupported comparison in Int conditional")
            return f"(if {a} {op} {b} then {self.intexpr(e.body)} else {self.intexpr(e.orelse)})"
        if isinstance(e, ast.Call) and ast.unparse(e.func) == "int" and isinstance(e.args[0], ast.BinOp) and isinstance(e.args[0].op, ast.FloorDiv):
            self.spec["_floordiv"] = True
            return f"(Rex.FloorDiv.fdiv {self.num(e.args[0].left)} {self.num(e.args[0].right)})"
        raise ExtractError(f"unsupported Int expression `{ast.unparse(e)}`")

    def _typed_var(self, name):
        if name in self.ints and self.ty != "Int":
            return f"(Int.cast {name} : α)"
        return name

    def _fold(self, op, xs):
        if not xs:
            raise ExtractError(f"empty {op}")
        r = xs[0]
        for x in xs[1:]:
            r = f"({op} {r} {x})"
        return r

    def boolean(self, e):
        t = ast.unparse(e)
        if t in self.consts:
            return self.consts[t]
        if t in self.opaque:
            n = self.opaque[t]
            self.bools.add(n)
            if n not in self.vars:
                self.vars.append(n)
            return n
        if isinstance(e, ast.Constant) and isinstance(e.value, bool):
            return "true" if e.value else "false"
        ef = self._elemfun(e, "bool")
        if ef is not None:
            return ef
        if isinstance(e, ast.BoolOp):
            op = " && " if isinstance(e.op, ast.And) else " || "
            return "(" + op.join(self.boolean(v) for v in e.values) + ")"
        if isinstance(e, ast.UnaryOp) and isinstance(e.op, ast.Not):
            return f"(!{self.boolean(e.operand)})"
        if isinstance(e, ast.Compare):
            parts = []
            left = e.left
            for op, right in zip(e.ops, e.comparators):
                parts.append(self._cmp(op, left, right))
                left = right
            return "(" + " && ".join(parts) + ")" if len(parts) > 1 else parts[0]
        if isinstance(e, ast.Call):
            f = ast.unparse(e.func)
            if f in ("jnp.logical_or", "onp.logical_or"):
                return f"({self.boolean(e.args[0])} || {self.boolean(e.args[1])})"
            if f in ("jnp.logical_and", "onp.logical_and"):
                return f"({self.boolean(e.args[0])} && {self.boolean(e.args[1])})"
            if f in ("jnp.logical_not", "onp.logical_not"):
                return f"(!{self.boolean(e.args[0])})"
            if f in ("jnp.isnan",):
                if "isnan" not in self.funparams:
                    self.funparams.append("isnan")
                return f"(isnan {self.num(e.args[0])})"
        if isinstance(e, ast.IfExp):
            return f"(if {self.boolean(e.test)} then {self.boolean(e.body)} else {self.boolean(e.orelse)})"
        if isinstance(e, (ast.Name, ast.Attribute)):
            n = self.var(t)
            self.bools.add(n)
            return n
        raise ExtractError(f"unsupported boolean expression `{t}`")

    def _cmp(self, op, l, r):
        # membership in a list of enum constants
        if isinstance(op, (ast.In, ast.NotIn)) and isinstance(r, (ast.List, ast.Tuple)):
            x = self.var(ast.unparse(l))
            self.ints.discard(x)
            items = []
            for el in r.elts:
                t = ast.unparse(el)
                if t not in self.consts:
                    raise ExtractError(f"unknown constant `{t}` in membership list")
                items.append(self.consts[t])
            s = "(" + " || ".join(f"({x} == {it})" for it in items) + ")" if items else "false"
            self.spec.setdefault("enums", set()).add(x)
            return s if isinstance(op, ast.In) else f"(!{s})"
        if isinstance(op, (ast.In, ast.NotIn)) and isinstance(r, (ast.Name, ast.Attribute)):
            # membership in a named collection (dict keys / set / list), modelled as a list: declare its type with `types`
            s = f"decide ({self.num(l)} ∈ {self.num(r)})"
            return s if isinstance(op, ast.In) else f"(!{s})"
        a, b = self.num(l), self.num(r)
        if isinstance(op, ast.Lt):
            return f"decide ({a} < {b})"
        if isinstance(op, ast.LtE):
            return f"decide ({a} ≤ {b})"
        if isinstance(op, ast.Gt):
            return f"decide ({a} > {b})"
        if isinstance(op, ast.GtE):
            return f"decide ({a} ≥ {b})"
        if isinstance(op, ast.Eq):
            return f"({a} == {b})"
        if isinstance(op, ast.NotEq):
            return f"(!({a} == {b}))"
        raise ExtractError(f"unsupported comparison {type(op).__name__}")



def translate(spec, src_cache):
    path = os.path.join(spec["_repo"], spec["file"])
    if path not in src_cache:
        with open(path) as f:
            text = f.read()
        src_cache[path] = (text, ast.parse(text))
    text, tree = src_cache[path]
    func = _find_func(tree, spec["func"])
    if spec["loc"][0] == "queue_ops":
        # static kernel: which handler of a class appends to / pops from / reads which deque attribute (`q_*`)
        handlers = spec["loc"][1]
        out = set()
        for m in func.body:
            if not (isinstance(m, ast.FunctionDef) and m.name in handlers):
                continue
            used = set()
            for n in ast.walk(m):
                if isinstance(n, ast.Call) and isinstance(n.func, ast.Attribute) and isinstance(n.func.value, ast.Attribute) and n.func.value.attr.startswith("q_"):
                    kind = {"append": "append", "extend": "append", "appendleft": "append", "popleft": "pop", "pop": "pop", "clear": "pop"}.get(n.func.attr, "read")
                    out.add((m.name, n.func.value.attr, kind))
                    used.add(id(n.func.value))
            for n in ast.walk(m):
                if isinstance(n, ast.Attribute) and n.attr.startswith("q_") and id(n) not in used:
                    out.add((m.name, n.attr, "store" if isinstance(n.ctx, ast.Store) else "read"))
        missing = [h for h in handlers if not any(isinstance(m, ast.FunctionDef) and m.name == h for m in func.body)]
        if missing:
            raise ExtractError(f"handlers {missing} not found in class {spec['func']}")
        rows = sorted(out)
        body = ",\n   ".join(f'("{a}", "{b}", "{c}")' for a, b, c in rows)
        lean = (f"/-- `{spec['file']}` class `{spec['func']}`: every operation of the handlers {handlers} on a deque attribute `q_*` "
                f"(handler, queue, append | pop | read | store) -/\ndef {spec['name']} : List (String × String × String) :=\n  [{body}]\n")
        return lean, f"{len(rows)} queue operations", func.lineno, ast.get_source_segment(text, func)
    if spec["loc"][0] == "stmt_order":
        # static kernel: do the statements matching the given source fragments occur (each exactly once) in the given order?
        frags = spec["loc"][1]
        stmts = [x for x in ast.walk(func) if isinstance(x, ast.stmt) and not isinstance(x, (ast.FunctionDef, ast.ClassDef))]
        pos = []
        for fr in frags:
            hits = sorted({x.lineno for x in stmts if fr in ast.unparse(x).split("\n")[0]})
            pos.append(hits[0] if len(hits) >= 1 else None)
        ok = all(p is not None for p in pos) and all(pos[i] < pos[i + 1] for i in range(len(pos) - 1))
        absent = spec["loc"][2] if len(spec["loc"]) > 2 else []
        for fr in absent:
            if any(fr in ast.unparse(x).split("\n")[0] for x in stmts):
                ok = False
        lean = (f"/-- `{spec['file']}` `{spec['func']}`: the statements {frags} occur in this order (lines {pos})" + (f" and none of {absent} occurs" if absent else "") + f" -/\ndef {spec['name']} : Bool := {'true' if ok else 'false'}\n")
        return lean, f"order of {frags}: {pos}", func.lineno, ast.get_source_segment(text, func)
    if spec["loc"][0] == "count_calls":
        # static kernel: how many call sites of a given callee the function body contains (nested defs excluded unless asked)
        callee = spec["loc"][1]
        calls = [x for x in ast.walk(func) if isinstance(x, ast.Call) and ast.unparse(x.func) == callee]
        lines = sorted(c.lineno for c in calls)
        lean = f"/-- `{spec['file']}` `{spec['func']}`: number of call sites of `{callee}` (lines {lines}) -/\ndef {spec['name']} : Nat := {len(calls)}\n"
        return lean, f"{len(calls)} call site(s) of {callee}", (lines[0] if lines else func.lineno), ast.get_source_segment(text, func)
    expr, lam_args = locate(func, spec["loc"])
    for step in spec.get("path", []):  # descend into the located expression: attribute names / indices of the ast
        try:
            expr = expr[step] if isinstance(step, int) else getattr(expr, step)
        except (AttributeError, IndexError, TypeError):
            raise ExtractError(f"path step `{step}` does not exist in `{ast.unparse(expr) if isinstance(expr, ast.AST) else expr}`")
    if spec.get("path") and not isinstance(expr, ast.AST):
        raise ExtractError("path does not end at an expression")
    tr = spec.get("tr_class", Tr)(spec)  # a kernel spec may name a subclass of Tr that understands a few more source forms
    if lam_args is not None and "params" not in spec:
        for a in lam_args:
            tr.var(a)
    if spec.get("result") in ("IntExpr", "IntSel"):
        body = tr.intexpr(expr)
    elif spec.get("result") == "IntOfFloor0":
        if not (isinstance(expr, ast.BinOp) and isinstance(expr.op, ast.FloorDiv)):
            raise ExtractError(f"expected a // b, got `{ast.unparse(expr)}`")
        body = f"Rex.FloorDiv.fdiv {tr.num(expr.left)} {tr.num(expr.right)}"
    elif spec.get("result") == "IntOfFloor":
        if not (isinstance(expr, ast.Call) and ast.unparse(expr.func) == "int" and isinstance(expr.args[0], ast.BinOp) and isinstance(expr.args[0].op, ast.FloorDiv)):
            raise ExtractError(f"expected int(a // b), got `{ast.unparse(expr)}`")
        body = f"Rex.FloorDiv.fdiv {tr.num(expr.args[0].left)} {tr.num(expr.args[0].right)}"
    elif spec.get("result") == "List":
        body = tr.lst(expr)
    elif spec.get("result") == "Index":
        body = tr.index(expr)
    elif spec.get("result") == "Block":
        if not isinstance(expr, (ast.FunctionDef, ast.AsyncFunctionDef)):
            raise ExtractError("Block kernels need the locator (\"body\",)")
        body = tr.block(list(expr.body))
    elif spec.get("result") == "Tuple":
        body = tr.val(expr)
    else:
        body = tr.boolean(expr) if spec.get("result") == "Bool" else tr.num(expr)
    params = spec.get("params")
    if params is None:
        params = list(tr.vars)
    else:
        missing = [v for v in tr.vars if v not in params]
        if missing:
            raise ExtractError(f"free variables {missing} not among declared parameters {params}")
    enums = spec.get("enums", set())
    enum_ty = spec.get("enum_ty", "Nat")
    ps = []
    sigs = spec.get("sigs", {})  # function parameter -> Lean type (default: carrier → carrier)
    types = spec.get("types", {})  # parameter -> Lean type (default: carrier)
    if sigs:  # stable parameter order: the declared order, independent of the order of use in the source
        tr.funparams.sort(key=lambda f: list(sigs).index(f) if f in sigs else -1)
    for fn in tr.funparams:
        if fn in sigs:
            ps.append(f"({fn} : {sigs[fn]})")
        elif fn == "isnan":
            ps.append(f"(isnan : {tr.ty} → Bool)")
        else:
            ps.append(f"({fn} : {tr.ty} → {tr.ty})")
    for fn, kind in sorted(tr.elemfuns):
        ps.append(f"({fn} : ι → {tr.ty if kind == 'num' else 'Bool'})")
    lists = spec.get("lists", set())
    list_elem = spec.get("list_elem", {})
    nats = spec.get("nats", set())
    elem = spec.get("elem", "β")
    for p in params:
        if p in types:
            ps.append(f"({p} : {types[p]})")
        elif p in list_elem:
            ps.append(f"({p} : List {list_elem[p]})")
        elif p in tr.opts:
            ps.append(f"({p} : Option {tr.ty})")
        elif p in lists:
            ps.append(f"({p} : List {elem if spec.get('result') == 'List' else tr.ty})")
        elif p in nats:
            ps.append(f"({p} : Nat)")
        elif p in spec.get("strs", []):
            ps.append(f"({p} : String)")
        elif p in tr.bools:
            ps.append(f"({p} : Bool)")
        elif p in enums:
            ps.append(f"({p} : {enum_ty})")
        elif p in tr.ints and tr.ty != "Int":
            ps.append(f"({p} : Int)")
        else:
            ps.append(f"({p} : {tr.ty})")
    if spec.get("result") in ("IntOfFloor", "IntOfFloor0", "IntExpr"):
        ps.insert(0, "[Rex.FloorDiv α]")
    rty = "Int" if spec.get("result") in ("IntOfFloor", "IntOfFloor0", "IntExpr", "IntSel") else "Bool" if spec.get("result") == "Bool" else (f"List {elem}" if spec.get("result") == "List" else tr.ty)
    if spec.get("result") == "List" and elem == "β":
        ps.insert(0, "{β : Type}")
    elif tr.ty not in ("α", "Int"):
        ps.insert(0, f"{{{tr.ty} : Type}}")
    if tr.elemfuns or list_elem:
        ps.insert(0, "{ι : Type}")
    if spec.get("rtype"):
        rty = spec["rtype"]
    if spec.get("tyvars"):
        ps.insert(0, "{" + " ".join(spec["tyvars"]) + " : Type}")
    if spec.get("binders"):  # extra binders after the type variables, e.g. "[DecidableEq κ]"
        ps.insert(1 if spec.get("tyvars") else 0, spec["binders"])
    if spec.get("result") == "Block":
        src_txt = " ; ".join(ast.unparse(st) for st in expr.body if not (isinstance(st, ast.Expr) and isinstance(st.value, ast.Constant))).replace("\n", " ")
    else:
        src_txt = ast.unparse(expr)
    lean = f"/-- `{spec['file']}` `{spec['func']}` line {expr.lineno}: `{src_txt[:200]}` -/\n" f"def {spec['name']} {' '.join(ps)} : {rty} :=\n  {body}\n"
    return lean, src_txt, expr.lineno, ast.get_source_segment(text, func)


HEADER = """/- GENERATED by harness/extract.py from the current rex source. Do not edit. -/
import RexModel.Prelude

namespace Rex.Gen.{ns}

section
variable {{α : Type}} [Add α] [Sub α] [Mul α] [Div α] [Neg α] [LT α] [LE α] [DecidableLT α] [DecidableLE α]
  [BEq α] [Max α] [Min α] [NatCast α] [IntCast α]

"""
FOOTER = """
end

end Rex.Gen.{ns}
"""


def run(repo, specs_by_module, write=True):
    """Returns dict: kernel name -> {ok, error, src, line, module, props}; writes Gen files if changed."""
    cache = {}
    report = {}
    for module, specs in specs_by_module.items():
        chunks = []
        for spec in specs:
            spec = dict(spec)
            spec["_repo"] = repo
            entry = {"module": module, "props": spec.get("props", []), "file": spec["file"], "func": spec["func"]}
            try:
                lean, src, line, ftxt = translate(spec, cache)
                entry.update(ok=True, src=src, line=line, func_hash=hashlib.sha1(ftxt.encode()).hexdigest()[:12], lean=lean)
                chunks.append(lean)
            except ExtractError as ex:
                entry.update(ok=False, error=str(ex))
                # keep the file compiling for *other* properties: emit nothing for this kernel
                chunks.append(f"-- EXTRACTION FAILED for {spec['name']}: {ex}\n")
            except (OSError, SyntaxError) as ex:
                entry.update(ok=False, error=f"cannot read/parse {spec['file']}: {ex}")
                chunks.append(f"-- EXTRACTION FAILED for {spec['name']}: {ex}\n")
            report[spec["name"]] = entry
        content = HEADER.format(ns=module) + "\n".join(chunks) + FOOTER.format(ns=module)
        if write:
            os.makedirs(GEN_DIR, exist_ok=True)
            p = os.path.join(GEN_DIR, module + ".lean")
            old = open(p).read() if os.path.exists(p) else None
            if old != content:
                with open(p, "w") as f:
                    f.write(content)
    return report


if __name__ == "__main__":
    from kernels import KERNELS

    repo = os.environ.get("REX_REPO", "/repo")
    rep = run(repo, KERNELS)
    bad = {k: v["error"] for k, v in rep.items() if not v["ok"]}
    print(json.dumps({"kernels": len(rep), "failed": bad}, indent=1))
    sys.exit(1 if bad else 0)
