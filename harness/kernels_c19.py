"""Kernel specifications for C19 (rex/rl.py: Environment.step, AutoResetWrapper, LogWrapper, SquashState / SquashActionWrapper,
ClipActionWrapper, NormalizeVec and the three copies of the running-moments update). See extract.py for the locator language."""

RL = "rex/rl.py"
P = ["C19"]

# ---------------------------------------------------------------------------------------------- LogWrapper
_LOGSTEP = "LogWrapper.step"
_log = [
    dict(name="log_done", file=RL, func=_LOGSTEP, loc=("assign_unique", "done"), result="Bool", params=["terminated", "truncated"], props=P),
    dict(name="log_new_return", file=RL, func=_LOGSTEP, loc=("assign_unique", "new_episode_return"), rename={"log_state.episode_returns": "ep_ret"}, params=["ep_ret", "reward"], props=P),
    dict(name="log_new_length", file=RL, func=_LOGSTEP, loc=("assign_unique", "new_episode_length"), rename={"log_state.episode_lengths": "ep_len"}, params=["ep_len"], props=P),
    dict(name="log_ret", file=RL, func=_LOGSTEP, loc=("kwarg", "log_state.replace", 0, "episode_returns"), params=["new_episode_return", "done"], props=P),
    dict(name="log_len", file=RL, func=_LOGSTEP, loc=("kwarg", "log_state.replace", 0, "episode_lengths"), params=["new_episode_length", "done"], props=P),
    dict(name="log_rret", file=RL, func=_LOGSTEP, loc=("kwarg", "log_state.replace", 0, "returned_episode_returns"), rename={"log_state.returned_episode_returns": "rret"},
         params=["rret", "done", "new_episode_return"], props=P),
    dict(name="log_rlen", file=RL, func=_LOGSTEP, loc=("kwarg", "log_state.replace", 0, "returned_episode_lengths"), rename={"log_state.returned_episode_lengths": "rlen"},
         params=["rlen", "done", "new_episode_length"], props=P),
    dict(name="log_timestep", file=RL, func=_LOGSTEP, loc=("kwarg", "log_state.replace", 0, "timestep"), rename={"log_state.timestep": "t"}, params=["t"], props=P),
    # what is reported in `info` (fields of the *updated* log state)
    dict(name="log_info_returns", file=RL, func=_LOGSTEP, loc=("assign_unique", "info['returned_episode_returns']"), rename={"log_state.returned_episode_returns": "new_rret"}, params=["new_rret"], props=P),
    dict(name="log_info_lengths", file=RL, func=_LOGSTEP, loc=("assign_unique", "info['returned_episode_lengths']"), rename={"log_state.returned_episode_lengths": "new_rlen"}, params=["new_rlen"], props=P),
    dict(name="log_info_timestep", file=RL, func=_LOGSTEP, loc=("assign_unique", "info['timestep']"), rename={"log_state.timestep": "new_t"}, params=["new_t"], props=P),
    dict(name="log_info_done", file=RL, func=_LOGSTEP, loc=("assign_unique", "info['returned_episode']"), params=["done"], props=P),
]
for _k, _kw in [("ret", "episode_returns"), ("len", "episode_lengths"), ("rret", "returned_episode_returns"), ("rlen", "returned_episode_lengths"), ("t", "timestep")]:
    _log.append(dict(name=f"log_init_{_k}", file=RL, func="LogWrapper.reset", loc=("kwarg", "LogState", 0, _kw), params=[], props=P))

# ---------------------------------------------------------------------------------------------- AutoResetWrapper
_AR = "AutoResetWrapper.step"
_ar = [
    dict(name="ar_done", file=RL, func=_AR, loc=("assign_unique", "done"), result="Bool", params=["terminated", "truncated"], props=P),
    dict(name="ar_is_done", file=RL, func=_AR + ".is_done", loc=("body",), result="Block", opaque={"init.graph_state.replace(aux=gs.aux)": "init_gs_aux"},
         rename={"init.obs": "init_obs", "init.info": "init_info"}, types={"init_gs_aux": "G", "init_obs": "O", "init_info": "I"}, tyvars=["G", "O", "I"],
         rtype="G × O × I", params=["init_gs_aux", "init_obs", "init_info"], props=P),
    dict(name="ar_not_done", file=RL, func=_AR + ".not_done", loc=("body",), result="Block", types={"gs": "G", "obs": "O", "info": "I"}, tyvars=["G", "O", "I"],
         rtype="G × O × I", params=["gs", "obs", "info"], props=P),
    dict(name="ar_select", file=RL, func=_AR, loc=("assign_unique", "(next_gs, next_obs, next_info)"), types={"is_done": "T", "not_done": "T"}, tyvars=["T"], rtype="T",
         params=["done", "is_done", "not_done"], props=P),
    dict(name="ar_return", file=RL, func=_AR, loc=("return", 2), result="Tuple",
         types={"next_gs": "G", "next_obs": "O", "reward": "R", "terminated": "B", "truncated": "B", "next_info": "I"}, tyvars=["G", "O", "R", "B", "I"],
         rtype="G × O × R × B × B × I", params=["next_gs", "next_obs", "reward", "terminated", "truncated", "next_info"], props=P),
]

# ---------------------------------------------------------------------------------------------- Environment.step
_env = [
    dict(name="env_step", file=RL, func="Environment.step", loc=("body",), result="Block",
         funs={"self.get_output": "get_output", "self.update_graph_state_pre_step": "pre_step", "self.graph.step": "graph_step", "self.get_step_state": "get_step_state",
               "self.get_reward": "get_reward", "self.get_truncated": "get_truncated", "self.get_terminated": "get_terminated",
               "self.update_graph_state_post_step": "post_step", "self.get_info": "get_info", "self.get_observation": "get_observation"},
         sigs={"get_output": "G → A → Out", "pre_step": "G → A → G", "get_step_state": "G → SS", "graph_step": "G → SS → Out → G × SS", "get_reward": "G → A → R",
               "get_truncated": "G → B", "get_terminated": "G → B", "post_step": "G → A → G", "get_info": "G → A → I", "get_observation": "G → O"},
         types={"graph_state": "G", "action": "A"}, tyvars=["G", "A", "Out", "SS", "R", "B", "I", "O"], rtype="G × O × R × B × B × I",
         params=["graph_state", "action"], props=P),
]

# ---------------------------------------------------------------------------------------------- squash / clip
_SQ = dict(rename={"self.squash": "squash", "self.low": "low", "self.high": "high"}, params=["squash", "x", "low", "high"])
_sq = [
    dict(name="sq_scale", file=RL, func="SquashState.scale", loc=("body",), result="Block", funs={"jnp.arctanh": "arctanh"}, props=P, **_SQ),
    dict(name="sq_unsquash", file=RL, func="SquashState.unsquash", loc=("body",), result="Block", funs={"jnp.tanh": "tanh"}, props=P, **_SQ),
    dict(name="sqw_step", file=RL, func="SquashActionWrapper.step", loc=("body",), result="Block",
         funs={"act_scaling.unsquash": "unsquash", "self._env.step": "env_step"}, sigs={"unsquash": "A → A", "env_step": "G → A → Ret"},
         rename={"graph_state.aux['act_scaling']": "stored_scaling"}, types={"graph_state": "G", "action": "A", "stored_scaling": "S"},
         tyvars=["G", "A", "S", "Ret"], rtype="Ret", params=["stored_scaling", "graph_state", "action"], props=P),
    dict(name="sqw_low", file=RL, func="SquashActionWrapper.reset", loc=("kwarg", "SquashState", 0, "low"), rename={"act_space.low": "space_low"}, params=["space_low"], props=P),
    dict(name="sqw_high", file=RL, func="SquashActionWrapper.reset", loc=("kwarg", "SquashState", 0, "high"), rename={"act_space.high": "space_high"}, params=["space_high"], props=P),
    dict(name="sqw_squash", file=RL, func="SquashActionWrapper.reset", loc=("kwarg", "SquashState", 0, "squash"), result="Bool", rename={"self.squash": "wrapper_squash"},
         params=["wrapper_squash"], props=P),
    dict(name="clip_action", file=RL, func="ClipActionWrapper.step", loc=("assign_unique", "action"), rename={"act_space.low": "low", "act_space.high": "high"},
         params=["action", "low", "high"], props=P),
    dict(name="clip_step_action", file=RL, func="ClipActionWrapper.step", loc=("call_arg", "self._env.step", 0, 1), params=["action"], props=P),
]

# ---------------------------------------------------------------------------------------------- NormalizeVec
_NV = dict(funs={"jnp.sqrt": "sqrt"}, rename={"self.mean": "mean", "self.var": "var", "self.clip": "clipv", "clip": "do_clip"})
_nv = [
    dict(name="nv_normalize", file=RL, func="NormalizeVec.normalize", loc=("body",), result="Block", params=["do_clip", "subtract_mean", "x", "mean", "var", "clipv"], props=P, **_NV),
    dict(name="nv_denormalize", file=RL, func="NormalizeVec.denormalize", loc=("body",), result="Block", params=["add_mean", "x", "mean", "var"], props=P, **_NV),
]

# ---------------------------------------------------------------------------------------------- running moments (three copies)
_REN = {"norm_state.mean": "mean", "norm_state.var": "var", "norm_state.count": "count"}
_mom = []
for _p, _f, _ctor, _data in [
    ("obs0", "NormalizeVecObservationWrapper.reset", 1, "obs"),
    ("obs", "NormalizeVecObservationWrapper.step", 0, "obs"),
    ("rew", "NormalizeVecReward.step", 0, "return_val"),
]:
    _mom += [
        dict(name=f"{_p}_delta", file=RL, func=_f, loc=("assign_unique", "delta"), rename=_REN, params=["batch_mean", "mean"], props=P),
        dict(name=f"{_p}_tot_count", file=RL, func=_f, loc=("assign_unique", "tot_count"), rename=_REN, params=["count", "batch_count"], props=P),
        dict(name=f"{_p}_new_mean", file=RL, func=_f, loc=("assign_unique", "new_mean"), rename=_REN, params=["mean", "delta", "batch_count", "tot_count"], props=P),
        dict(name=f"{_p}_m_a", file=RL, func=_f, loc=("assign_unique", "m_a"), rename=_REN, params=["var", "count"], props=P),
        dict(name=f"{_p}_m_b", file=RL, func=_f, loc=("assign_unique", "m_b"), rename=_REN, params=["batch_var", "batch_count"], props=P),
        dict(name=f"{_p}_M2", file=RL, func=_f, loc=("assign_unique", "M2"), rename=_REN, params=["m_a", "m_b", "delta", "count", "batch_count", "tot_count"], props=P),
        dict(name=f"{_p}_new_var", file=RL, func=_f, loc=("assign_unique", "new_var"), rename=_REN, params=["M2", "tot_count"], props=P),
        dict(name=f"{_p}_new_count", file=RL, func=_f, loc=("assign_unique", "new_count"), rename=_REN, params=["tot_count"], props=P),
        # what the new normaliser state is built from, and which data the batch statistics are taken of
        dict(name=f"{_p}_out_mean", file=RL, func=_f, loc=("kwarg", "NormalizeVec", _ctor, "mean"), params=["new_mean"], props=P),
        dict(name=f"{_p}_out_var", file=RL, func=_f, loc=("kwarg", "NormalizeVec", _ctor, "var"), params=["new_var"], props=P),
        dict(name=f"{_p}_out_count", file=RL, func=_f, loc=("kwarg", "NormalizeVec", _ctor, "count"), params=["new_count"], props=P),
        dict(name=f"{_p}_mean_of", file=RL, func=_f, loc=("call_arg", "jnp.mean", 0, 0), params=[_data], props=P),
        dict(name=f"{_p}_var_of", file=RL, func=_f, loc=("call_arg", "jnp.var", 0, 0), params=[_data], props=P),
        dict(name=f"{_p}_count_of", file=RL, func=_f, loc=("assign_unique", "batch_count"), rename={"obs.shape[0]": "obs_rows"}, params=["obs_rows"], props=P),
        dict(name=f"{_p}_norm_arg", file=RL, func=_f, loc=("call_arg", "norm_state.normalize", 0, 0), params=["obs" if _data == "obs" else "reward"], props=P),
        dict(name=f"{_p}_norm_clip", file=RL, func=_f, loc=("kwarg", "norm_state.normalize", 0, "clip"), result="Bool", params=[], props=P),
        dict(name=f"{_p}_norm_submean", file=RL, func=_f, loc=("kwarg", "norm_state.normalize", 0, "subtract_mean"), result="Bool", params=[], props=P),
    ]
_mom += [
    # the priors the code starts from
    dict(name="obs0_prior_mean", file=RL, func="NormalizeVecObservationWrapper.reset", loc=("kwarg", "NormalizeVec", 0, "mean"), params=[], props=P),
    dict(name="obs0_prior_var", file=RL, func="NormalizeVecObservationWrapper.reset", loc=("kwarg", "NormalizeVec", 0, "var"), params=[], props=P),
    dict(name="obs0_prior_count", file=RL, func="NormalizeVecObservationWrapper.reset", loc=("kwarg", "NormalizeVec", 0, "count"), params=[], props=P),
    dict(name="rew_prior_mean", file=RL, func="NormalizeVecReward.reset", loc=("kwarg", "NormalizeVec", 0, "mean"), params=[], props=P),
    dict(name="rew_prior_var", file=RL, func="NormalizeVecReward.reset", loc=("kwarg", "NormalizeVec", 0, "var"), params=[], props=P),
    dict(name="rew_prior_count", file=RL, func="NormalizeVecReward.reset", loc=("kwarg", "NormalizeVec", 0, "count"), params=[], props=P),
    dict(name="rew_prior_return_val", file=RL, func="NormalizeVecReward.reset", loc=("kwarg", "NormalizeVec", 0, "return_val"), params=[], props=P),
    dict(name="rew_done", file=RL, func="NormalizeVecReward.step", loc=("assign_unique", "done"), result="Bool", params=["terminated", "truncated"], props=P),
    dict(name="rew_return_val", file=RL, func="NormalizeVecReward.step", loc=("assign_unique", "return_val"), rename={"norm_state.return_val": "prev_return_val", "self.gamma": "gamma"},
         params=["prev_return_val", "gamma", "done", "reward"], props=P),
    dict(name="rew_out_return_val", file=RL, func="NormalizeVecReward.step", loc=("kwarg", "NormalizeVec", 0, "return_val"), params=["return_val"], props=P),
]

KERNELS = {"Rl": _log + _ar + _env + _sq + _nv + _mom}
