"""Worker process: reads one JSON task per line {"fn": "module:function", "args": {...}}, prints @@RESULT@@<json>."""
import importlib
import json
import os
import sys
import traceback

HERE = os.path.dirname(os.path.abspath(__file__))
sys.path.insert(0, HERE)
real_stdout = sys.stdout
sys.stdout = sys.stderr  # anything the library prints must not corrupt the protocol


def main():
    for line in sys.stdin:
        line = line.strip()
        if not line:
            continue
        t = json.loads(line)
        dump = os.environ.get("VERIF_DUMP_AFTER")  # debugging aid: dump all thread stacks of a task that runs longer than this many seconds
        if dump:
            import faulthandler

            faulthandler.dump_traceback_later(float(dump), exit=False, file=open(f"/var/tmp/verif_stacks_{os.getpid()}.log", "a"))
        try:
            mod, fn = t["fn"].split(":")
            f = getattr(importlib.import_module(mod), fn)
            r = f(**t.get("args", {}))
        except Exception as ex:
            r = {"error": f"{type(ex).__name__}: {ex}", "traceback": traceback.format_exc()[-3000:]}
        if dump:
            faulthandler.cancel_dump_traceback_later()
        try:  # a reused worker keeps jax's executables mapped; see rt.relieve_maps
            import rt

            rt.relieve_maps(6000)
        except Exception:  # noqa
            pass
        real_stdout.write("@@RESULT@@" + json.dumps(r, default=str) + "\n")
        real_stdout.flush()


if __name__ == "__main__":
    main()
