"""Kernel specifications for C14 (records and graphs convert, stack, pad, index, filter and convert to networkx without loss).

Every test / pad value / pad width / key / selected field that the theorems of lean/RexModel/Props/C14.lean are about is regenerated
from the current source into lean/RexModel/Gen/PadStack.lean.  Node names have type κ (decidable equality), array entries type α."""

BASE = "rex/base.py"
UTILS = "rex/utils.py"
P = ["C14"]

K = dict(tyvars=["κ"], binders="[DecidableEq κ]")  # kernels over node names
NAMES = "List κ"
CONNS = "List (κ × κ)"


def _k(**kw):
    d = dict(props=P)
    d.update(kw)
    return d


def _kk(**kw):
    d = dict(props=P, **K)
    d.update(kw)
    return d


KERNELS = {
    "PadStack": [
        # ---- Graph.stack: pad every leaf at the end with -1 up to the longest episode, stack on a new leading axis
        _k(name="gstack_fill", file=BASE, func="Graph.stack._stack", loc=("kwarg", "onp.pad", 0, "constant_values"), params=[]),
        _k(name="gstack_pad_width", file=BASE, func="Graph.stack._stack", loc=("call_arg", "onp.pad", 0, 1), ty="Int", rtype="Int × Int",
           opaque={"len(arr)": "len_arr"}, rename={"_max_len": "max_len"}, params=["max_len", "len_arr"]),
        _k(name="gstack_axis", file=BASE, func="Graph.stack._stack", loc=("kwarg", "onp.stack", 0, "axis"), ty="Int", params=[]),
        # ---- ExperimentRecord.stack / _padded_stack
        _k(name="rstack_fill", file=BASE, func="ExperimentRecord.stack", loc=("kwarg", "self._padded_stack", 0, "fill_value"), params=[]),
        _k(name="rpad_fill", file=BASE, func="ExperimentRecord._padded_stack._pad", loc=("kwarg", "onp.pad", 0, "constant_values"), params=["fill_value"]),
        _k(name="rpad_width", file=BASE, func="ExperimentRecord._padded_stack._pad", loc=("call_arg", "onp.pad", 0, 1), path=["left", "elts", 0], ty="Int",
           rtype="Int × Int", opaque={"len(arr)": "len_arr"}, rename={"_max_len": "max_len"}, params=["max_len", "len_arr"]),
        # ---- Graph.__len__ / __getitem__
        _k(name="glen_batched", file=BASE, func="Graph.__len__", loc=("iftest", 0), result="Bool", ty="Int", opaque={"len(shape)": "ndim"}, params=["ndim"]),
        _k(name="glen_then", file=BASE, func="Graph.__len__", loc=("return", 0), ty="Int", rename={"shape[0]": "shape0"}, params=["shape0"]),
        _k(name="glen_else", file=BASE, func="Graph.__len__", loc=("return", 1), ty="Int", params=[]),
        _k(name="ggetitem_unbatched", file=BASE, func="Graph.__getitem__", loc=("iftest", 0), result="Bool", ty="Int", opaque={"len(shape)": "ndim"}, params=["ndim"]),
        _k(name="ggetitem_leaf", file=BASE, func="Graph.__getitem__", loc=("lambda", 0), tyvars=["C"], types=dict(v_at_val="C"), rtype="C", rename={"v[val]": "v_at_val"}, params=["v_at_val"]),
        _k(name="rgetitem_leaf", file=BASE, func="EpisodeRecord.__getitem__", loc=("lambda", 0), tyvars=["C"], types=dict(x_at_val="C"), rtype="C", rename={"x[val]": "x_at_val"}, params=["x_at_val"]),
        # ---- Graph.filter
        _k(name="gfilter_flag", file=BASE, func="Graph.filter", loc=("for_if", 0, 0), result="Bool", params=["filter_edges"]),
        _kk(name="gfilter_in_nodes_e", file=BASE, func="Graph.filter", loc=("for_if", 1, 0), result="Bool", types=dict(n1="κ", nodes=NAMES), params=["n1", "nodes"]),
        _kk(name="gfilter_add_e", file=BASE, func="Graph.filter", loc=("call_arg", "connections.add", 0, 0), types=dict(n1="κ", n2="κ"), rtype="κ × κ", params=["n1", "n2"]),
        _kk(name="gfilter_dst_present", file=BASE, func="Graph.filter", loc=("for_if", 0, 2), result="Bool", rename={"self.vertices": "vkeys"},
            types=dict(n2="κ", vkeys=NAMES), params=["n2", "vkeys"]),
        _kk(name="gfilter_edge_into", file=BASE, func="Graph.filter", loc=("lambda", 0), result="Bool", rename={"x[1]": "x_dst"}, types=dict(x_dst="κ", n2="κ"), params=["x_dst", "n2"]),
        _kk(name="gfilter_in_nodes_v", file=BASE, func="Graph.filter", loc=("for_if", 2, 0), result="Bool", types=dict(n1="κ", nodes=NAMES), params=["n1", "nodes"]),
        _kk(name="gfilter_add_v", file=BASE, func="Graph.filter", loc=("call_arg", "connections.add", 1, 0), types=dict(n1="κ", n2="κ"), rtype="κ × κ", params=["n1", "n2"]),
        _kk(name="gfilter_pop_vertex", file=BASE, func="Graph.filter", loc=("for_if", 3, 0), result="Bool", types=dict(k="κ", nodes=NAMES), params=["k", "nodes"]),
        _kk(name="gfilter_pop_edge", file=BASE, func="Graph.filter", loc=("for_if", 4, 0), result="Bool", types=dict(n1="κ", n2="κ", connections=CONNS),
            params=["n1", "n2", "connections"]),
        # ---- EpisodeRecord.filter
        _k(name="rfilter_flag", file=BASE, func="EpisodeRecord.filter", loc=("for_if", 0, 1), result="Bool", params=["filter_connections"]),
        _kk(name="rfilter_in_nodes_c", file=BASE, func="EpisodeRecord.filter", loc=("for_if", 1, 0), result="Bool", types=dict(n1="κ", nodes=NAMES), params=["n1", "nodes"]),
        _kk(name="rfilter_add_c", file=BASE, func="EpisodeRecord.filter", loc=("call_arg", "connections.add", 0, 0), types=dict(n1="κ", n2="κ"), rtype="κ × κ", params=["n1", "n2"]),
        _kk(name="rfilter_dst_present", file=BASE, func="EpisodeRecord.filter", loc=("for_if", 0, 3), result="Bool", rename={"self.nodes": "rkeys"},
            types=dict(n2="κ", rkeys=NAMES), params=["n2", "rkeys"]),
        _kk(name="rfilter_in_nodes_r", file=BASE, func="EpisodeRecord.filter", loc=("for_if", 2, 0), result="Bool", types=dict(n1="κ", nodes=NAMES), params=["n1", "nodes"]),
        _kk(name="rfilter_add_r", file=BASE, func="EpisodeRecord.filter", loc=("call_arg", "connections.add", 1, 0), types=dict(n1="κ", n2="κ"), rtype="κ × κ", params=["n1", "n2"]),
        _kk(name="rfilter_keep_info", file=BASE, func="EpisodeRecord.filter", loc=("comp_if", 0, 0), result="Bool", types=dict(n1="κ", n2="κ", connections=CONNS),
            params=["n1", "n2", "connections"]),
        _kk(name="rfilter_keep_input", file=BASE, func="EpisodeRecord.filter", loc=("comp_if", 1, 0), result="Bool", types=dict(n1="κ", n2="κ", connections=CONNS),
            params=["n1", "n2", "connections"]),
        # ---- EpisodeRecord.to_graph: which record fields become vertex / edge columns, and the edge key
        _k(name="tg_vertex_seq", file=BASE, func="EpisodeRecord.to_graph", loc=("kwarg", "Vertex", 0, "seq"), tyvars=["C"], types=dict(steps_seq="C"), rtype="C",
           rename={"v.steps.seq": "steps_seq"}, params=["steps_seq"]),
        _k(name="tg_vertex_ts_start", file=BASE, func="EpisodeRecord.to_graph", loc=("kwarg", "Vertex", 0, "ts_start"), tyvars=["C"], types=dict(steps_ts_start="C"), rtype="C",
           rename={"v.steps.ts_start": "steps_ts_start"}, params=["steps_ts_start"]),
        _k(name="tg_vertex_ts_end", file=BASE, func="EpisodeRecord.to_graph", loc=("kwarg", "Vertex", 0, "ts_end"), tyvars=["C"], types=dict(steps_ts_end="C"), rtype="C",
           rename={"v.steps.ts_end": "steps_ts_end"}, params=["steps_ts_end"]),
        _k(name="tg_seq_in", file=BASE, func="EpisodeRecord.to_graph", loc=("assign_unique", "seq_in"), tyvars=["C"], types=dict(messages_seq_in="C"), rtype="C",
           rename={"i.messages.seq_in": "messages_seq_in"}, params=["messages_seq_in"]),
        _k(name="tg_seq_out", file=BASE, func="EpisodeRecord.to_graph", loc=("assign_unique", "seq_out"), tyvars=["C"], types=dict(messages_seq_out="C"), rtype="C",
           rename={"i.messages.seq_out": "messages_seq_out"}, params=["messages_seq_out"]),
        _k(name="tg_ts_recv", file=BASE, func="EpisodeRecord.to_graph", loc=("assign_unique", "ts_recv"), tyvars=["C"], types=dict(messages_ts_recv="C"), rtype="C",
           rename={"i.messages.ts_recv": "messages_ts_recv"}, params=["messages_ts_recv"]),
        _k(name="tg_edge_seq_out", file=BASE, func="EpisodeRecord.to_graph", loc=("kwarg", "Edge", 0, "seq_out"), tyvars=["C"], types=dict(seq_out="C", seq_in="C", ts_recv="C"), rtype="C", params=["seq_out", "seq_in", "ts_recv"]),
        _k(name="tg_edge_seq_in", file=BASE, func="EpisodeRecord.to_graph", loc=("kwarg", "Edge", 0, "seq_in"), tyvars=["C"], types=dict(seq_out="C", seq_in="C", ts_recv="C"), rtype="C", params=["seq_out", "seq_in", "ts_recv"]),
        _k(name="tg_edge_ts_recv", file=BASE, func="EpisodeRecord.to_graph", loc=("kwarg", "Edge", 0, "ts_recv"), tyvars=["C"], types=dict(seq_out="C", seq_in="C", ts_recv="C"), rtype="C", params=["seq_out", "seq_in", "ts_recv"]),
        _kk(name="tg_edge_key", file=BASE, func="EpisodeRecord.to_graph", loc=("subscript_store", "edges", 0), types=dict(n1="κ", n2="κ"), rtype="κ × κ", params=["n1", "n2"]),
        # ---- to_networkx_graph
        _k(name="nx_vertex_zip", file=UTILS, func="to_networkx_graph", loc=("foriter", 2), result="List", elem="α", rtype="List (α × α × α)",
           rename={"v.seq": "v_seq", "v.ts_start": "v_ts_start", "v.ts_end": "v_ts_end"}, params=["v_seq", "v_ts_start", "v_ts_end"]),
        _k(name="nx_vertex_skip", file=UTILS, func="to_networkx_graph", loc=("for_if", 2, 0), result="Bool", params=["seq_"]),
        _k(name="nx_has_pred", file=UTILS, func="to_networkx_graph", loc=("for_if", 2, 1), result="Bool", params=["seq_"]),
        _k(name="nx_vname", file=UTILS, func="to_networkx_graph", loc=("assign_unique", "vname"), tyvars=["κ"], types=dict(n="κ"), rtype="κ × α", params=["n", "seq_"]),
        _k(name="nx_uname", file=UTILS, func="to_networkx_graph", loc=("assign_unique", "uname"), tyvars=["κ"], types=dict(n="κ"), rtype="κ × α", params=["n", "seq_"]),
        _k(name="nx_node_id", file=UTILS, func="to_networkx_graph", loc=("call_arg", "G.add_node", 0, 0), tyvars=["κ"], types=dict(vname="κ × α"), rtype="κ × α", params=["vname"]),
        _k(name="nx_node_seq", file=UTILS, func="to_networkx_graph", loc=("kwarg", "G.add_node", 0, "seq"), params=["seq_", "ts_start", "ts_end"]),
        _k(name="nx_node_ts_start", file=UTILS, func="to_networkx_graph", loc=("kwarg", "G.add_node", 0, "ts_start"), params=["seq_", "ts_start", "ts_end"]),
        _k(name="nx_node_ts_end", file=UTILS, func="to_networkx_graph", loc=("kwarg", "G.add_node", 0, "ts_end"), params=["seq_", "ts_start", "ts_end"]),
        _k(name="nx_sedge_src", file=UTILS, func="to_networkx_graph", loc=("call_arg", "G.add_edge", 0, 0), tyvars=["κ"], types=dict(uname="κ × α", vname="κ × α"), rtype="κ × α",
           params=["uname", "vname"]),
        _k(name="nx_sedge_dst", file=UTILS, func="to_networkx_graph", loc=("call_arg", "G.add_edge", 0, 1), tyvars=["κ"], types=dict(uname="κ × α", vname="κ × α"), rtype="κ × α",
           params=["uname", "vname"]),
        _k(name="nx_edge_zip", file=UTILS, func="to_networkx_graph", loc=("foriter", 4), result="List", elem="α", rtype="List (α × α × α)",
           rename={"e.seq_out": "e_seq_out", "e.seq_in": "e_seq_in", "e.ts_recv": "e_ts_recv"}, params=["e_seq_out", "e_seq_in", "e_ts_recv"]),
        _k(name="nx_edge_skip", file=UTILS, func="to_networkx_graph", loc=("for_if", 4, 0), result="Bool", params=["seq_out", "seq_in"]),
        _k(name="nx_u", file=UTILS, func="to_networkx_graph", loc=("assign_unique", "u"), tyvars=["κ"], types=dict(n1="κ"), rtype="κ × α", params=["n1", "seq_out"]),
        _k(name="nx_v", file=UTILS, func="to_networkx_graph", loc=("assign_unique", "v"), tyvars=["κ"], types=dict(n2="κ"), rtype="κ × α", params=["n2", "seq_in"]),
        _k(name="nx_medge_src", file=UTILS, func="to_networkx_graph", loc=("call_arg", "G.add_edge", 1, 0), tyvars=["κ"], types=dict(u="κ × α", v="κ × α"), rtype="κ × α", params=["u", "v"]),
        _k(name="nx_medge_dst", file=UTILS, func="to_networkx_graph", loc=("call_arg", "G.add_edge", 1, 1), tyvars=["κ"], types=dict(u="κ × α", v="κ × α"), rtype="κ × α", params=["u", "v"]),
        _k(name="nx_medge_ts_recv", file=UTILS, func="to_networkx_graph", loc=("kwarg", "G.add_edge", 1, "ts_recv"), params=["seq_out", "seq_in", "ts_recv"]),
    ],
}
