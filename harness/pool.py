"""A pool of worker *processes* (each imports jax + rex once) fed with JSON tasks, with per-task timeouts.
A task that times out kills its worker (a hang in the threaded runtime cannot be interrupted from inside)."""
import json
import os
import queue
import select
import subprocess
import sys
import tempfile
import threading
import time

HERE = os.path.dirname(os.path.abspath(__file__))


class _Worker:
    def __init__(self, env):
        self.err = tempfile.TemporaryFile()  # unlinked at once; read back only when the worker dies
        self.p = subprocess.Popen([sys.executable, os.path.join(HERE, "worker.py")], stdin=subprocess.PIPE, stdout=subprocess.PIPE, stderr=self.err, env=env, text=True, bufsize=1)

    def err_tail(self, n=400):
        try:
            self.err.seek(0, 2)
            size = self.err.tell()
            self.err.seek(max(0, size - 20000))
            lines = [ln for ln in self.err.read().decode("utf-8", "replace").splitlines() if "ERROR" in ln or "rror:" in ln or "Fatal" in ln]
            return " | ".join(lines[-3:])[-n:]
        except Exception:  # noqa
            return ""

    def call(self, task, timeout):
        self.p.stdin.write(json.dumps(task) + "\n")
        self.p.stdin.flush()
        deadline = time.time() + timeout
        buf = ""
        fd = self.p.stdout.fileno()
        while True:
            rem = deadline - time.time()
            if rem <= 0:
                return None
            r, _, _ = select.select([fd], [], [], min(rem, 1.0))
            if r:
                line = self.p.stdout.readline()
                if line == "":
                    return {"error": "worker died: " + self.err_tail(), "crashed": True}
                if line.startswith("@@RESULT@@"):
                    return json.loads(line[len("@@RESULT@@"):])
            elif self.p.poll() is not None:
                return {"error": f"worker exited rc={self.p.returncode}: " + self.err_tail(), "crashed": True}

    def kill(self):
        try:
            self.p.kill()
            self.p.wait(timeout=5)
        except Exception:
            pass
        try:
            self.err.close()
        except Exception:
            pass


def run_tasks(tasks, nproc=None, timeout=120, env_extra=None):
    """tasks: list of dict(fn="module:function", args={...}). Returns list of results in order; a timed-out
    task yields {"timeout": True}."""
    nproc = min(nproc or int(os.environ.get("VERIF_NPROC", "12")), max(1, len(tasks)))
    env = dict(os.environ)
    env.setdefault("JAX_PLATFORMS", "cpu")
    env["REX_VERIF"] = "1"
    env["XLA_FLAGS"] = env.get("XLA_FLAGS", "") + " --xla_cpu_multi_thread_eigen=false intra_op_parallelism_threads=1"
    env["OMP_NUM_THREADS"] = "1"
    if env_extra:
        env.update(env_extra)
    q = queue.Queue()
    for i, t in enumerate(tasks):
        q.put((i, t))
    results = [None] * len(tasks)

    def loop():
        w = None
        while True:
            try:
                i, t = q.get_nowait()
            except queue.Empty:
                break
            if w is None:
                w = _Worker(env)
            r = w.call(t, t.get("timeout", timeout))
            if r is None:
                results[i] = {"timeout": True}
                w.kill()
                w = None
            else:
                results[i] = r
                if isinstance(r, dict) and r.get("crashed"):
                    # the interpreter itself died (native abort / kill): not behaviour of the code under test that a property
                    # speaks about. Once more in a fresh worker; a second death is a harness error (raised below), never a verdict.
                    w.kill()
                    w = None
                    if not t.get("_retried") and not r.get("hang"):
                        q.put((i, dict(t, _retried=True)))
                        results[i] = None
        if w is not None:
            try:
                w.p.stdin.close()
            except Exception:
                pass
            w.kill()

    ths = [threading.Thread(target=loop) for _ in range(nproc)]
    [t.start() for t in ths]
    [t.join() for t in ths]
    if not q.empty():  # a retry queued after every loop thread had finished
        loop()
    dead = [(t, r) for t, r in zip(tasks, results) if isinstance(r, dict) and r.get("crashed") and not r.get("hang")]
    if dead:
        raise RuntimeError(f"worker process died twice on {dead[0][0].get('fn')} {json.dumps(dead[0][0].get('args'))[:200]}: {dead[0][1].get('error')}")
    return results
