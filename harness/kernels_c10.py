"""Kernels of TrainableDist (zero-order hold) for C10."""
BASE = "rex/base.py"

KERNELS = {
    "Delay": [
        dict(name="td_sample", file=BASE, func="TrainableDist.sample", loc=("assign_unique", "samples"), rename={"self.min": "dmin", "self.max": "dmax", "self.alpha": "alpha"},
             opaque={"jnp.ones(shape)": "ones"}, params=["dmin", "alpha", "dmax", "ones"], props=["C10"]),
        dict(name="td_mean", file=BASE, func="TrainableDist.mean", loc=("return", 0), rename={"self.min": "dmin", "self.max": "dmax", "self.alpha": "alpha"}, params=["dmin", "alpha", "dmax"], props=["C10"]),
        dict(name="td_get_alpha_raw", file=BASE, func="TrainableDist._get_alpha", loc=("return", 0), rename={"min": "dmin", "max": "dmax"}, params=["delay", "dmin", "dmax"], props=["C10"]),
        dict(name="td_get_alpha", file=BASE, func="TrainableDist.get_alpha", loc=("return", 0), opaque={"self._get_alpha(delay, self.min, self.max)": "raw"}, params=["raw"], props=["C10"]),
        dict(name="td_window_arg", file=BASE, func="TrainableDist.window", loc=("call_arg", "onp.ceil", 0, 0), rename={"self.min": "dmin", "self.max": "dmax"}, params=["rate_out", "dmax", "dmin"], props=["C10"]),
        dict(name="zoh_recv", file=BASE, func="TrainableDist.apply_delay", loc=("assign", "ts_recv", 0), rename={"input.ts_sent": "ts_sent"}, params=["ts_sent", "d"], props=["C10", "C11"]),
        dict(name="zoh_recv_masked", file=BASE, func="TrainableDist.apply_delay", loc=("assign", "ts_recv", 1), rename={"input.seq": "seq_", "input.ts_recv": "ts_recv_orig"}, ints=["seq_"],
             params=["seq_", "ts_recv_orig", "ts_recv"], props=["C10", "C11"]),
        dict(name="zoh_future", file=BASE, func="TrainableDist.apply_delay", loc=("call_arg", "jnp.argwhere", 0, 0), result="Bool", params=["ts_recv", "ts_start"], props=["C10", "C11"]),
        dict(name="zoh_idx_min", file=BASE, func="TrainableDist.apply_delay", loc=("assign", "idx_min", 0), ty="Int", params=["idx_max", "window"], props=["C10"]),
        dict(name="zoh_window", file=BASE, func="TrainableDist.apply_delay", loc=("assign_unique", "window"), ty="Int", params=["cum_window", "window_delayed"], props=["C10", "C11"]),
    ],
}
