"""Summarise seeded/<name>/{meta,confirmed,result}.json into seeded/RESULTS.md"""
import glob
import json
import os

VERIF = os.path.dirname(os.path.dirname(os.path.abspath(__file__)))
rows = []
for d in sorted(glob.glob(os.path.join(VERIF, "seeded", "C*_*"))):
    name = os.path.basename(d)
    meta = json.load(open(os.path.join(d, "meta.json"))) if os.path.exists(os.path.join(d, "meta.json")) else {}
    conf = json.load(open(os.path.join(d, "confirmed.json"))) if os.path.exists(os.path.join(d, "confirmed.json")) else None
    res = json.load(open(os.path.join(d, "result.json"))) if os.path.exists(os.path.join(d, "result.json")) else None
    caught, how = "not run", ""
    if res:
        for c, v in res["checks"].items():
            lines = v.get("lines", [])
            vio = [l for l in lines if l.startswith("VIOLATION")]
            if v["exit"] == 1 and vio:
                caught = f"{c}: VIOLATION" + (" (no-failing-input-found)" if "no-failing-input-found" in vio[0] else "")
                fi = [l.strip() for l in lines if l.strip().startswith(("failing input", "broken obligation"))]
                how = (fi[0] if fi else "")[:260]
            elif "VIOLATION" in caught:
                continue  # another check already reported it
            elif v["exit"] == 0:
                caught = f"{c}: MISSED"
            else:
                caught = f"{c}: exit {v['exit']}"
    cstr = "—"
    if conf:
        cstr = "yes" if conf.get("confirmed") else f"NO ({ {k: conf.get(k) for k in ('patch_applies', 'demo_clean_exit', 'demo_changed_exit', 'unit_ok')} })"
    rows.append((name, (meta.get("summary") or "")[:200].replace("|", "/").replace("\n", " "), (meta.get("needs") or "")[:160].replace("|", "/").replace("\n", " "), cstr, caught, how.replace("|", "/")))
with open(os.path.join(VERIF, "seeded", "RESULTS.md"), "w") as f:
    f.write("# Seeded changes: independent confirmation and detection\n\n"
            "Each change was written by a sub-agent that saw only the property text. `confirmed` = my own run in scratch copies (harness/seedconfirm.py): patch applies, "
            "tests/unit unchanged (only the 3 environment failures), demo passes on the clean tree and fails with the change. `detected` = `harness/seedtest.py <name>` "
            "(quick tier of the property's check against a scratch copy with the change).\n\n| seed | change | needs | confirmed | detected | first reported line |\n|---|---|---|---|---|---|\n")
    for r in rows:
        f.write("| " + " | ".join(r) + " |\n")
print(f"{len(rows)} seeds;", sum(1 for r in rows if 'VIOLATION' in r[4]), "detected;", sum(1 for r in rows if r[3] == 'yes'), "confirmed")
