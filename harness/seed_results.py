"""Summarise seeded/<name>/{meta,confirmed,result}.json into seeded/RESULTS.md"""
import glob
import json
import os

VERIF = os.path.dirname(os.path.dirname(os.path.abspath(__file__)))
rows = []
for d in sorted(glob.glob(os.path.join(VERIF, "seeded", "C*_*"))):
    name = os.path.basename(d)
    meta = json.load(open(os.path.join(d, "meta.json"))) if os.path.exists(os.path.join(d, "meta.json")) else {}
    conf = json.load(open(os.path.join(d, "confirmed.json"))) if os.path.exists(os.path.join(d, "confirmed.json")) else None
    res = json.load(open(os.path.join(d, "result.json"))) if os.path.exists(os.path.join(d, "result.json")) else None
    caught, how = "not run", ""
    if res:
        best = None
        own = name.split("_")[0]
        for c, v in res["checks"].items():
            lines = v.get("lines", [])
            vio = [l for l in lines if l.startswith("VIOLATION")]
            if v["exit"] == 1 and vio:
                concrete = "no-failing-input-found" not in vio[0]
                score = (2 if concrete else 0) + (1 if c == own else 0)
                fi = [l.strip() for l in lines if l.strip().startswith(("failing input", "broken obligation"))]
                cand = (score, f"{c}: VIOLATION" + ("" if concrete else " (no-failing-input-found)"), (fi[0] if fi else "")[:260])
                if best is None or cand[0] > best[0]:
                    best = cand
            elif best is None:
                caught = f"{c}: MISSED" if v["exit"] == 0 else f"{c}: exit {v['exit']}"
        if best:
            caught, how = best[1], best[2]
    cstr = "—"
    if conf:
        cstr = "yes" if conf.get("confirmed") else f"NO ({ {k: conf.get(k) for k in ('patch_applies', 'demo_clean_exit', 'demo_changed_exit', 'unit_ok')} })"
    rows.append((name, (meta.get("summary") or "")[:200].replace("|", "/").replace("\n", " "), (meta.get("needs") or "")[:160].replace("|", "/").replace("\n", " "), cstr, caught, how.replace("|", "/")))
with open(os.path.join(VERIF, "seeded", "RESULTS.md"), "w") as f:
    f.write("# Seeded changes: independent confirmation and detection\n\n"
            "Each change was written by a sub-agent that saw only the property text. `confirmed` = my own run in scratch copies (harness/seedconfirm.py): patch applies, "
            "tests/unit unchanged (only the 3 environment failures), demo passes on the clean tree and fails with the change. `detected` = `harness/seedtest.py <name>` "
            "(quick tier of the property's check against a scratch copy with the change).\n\n| seed | change | needs | confirmed | detected | first reported line |\n|---|---|---|---|---|---|\n")
    for r in rows:
        f.write("| " + " | ".join(r) + " |\n")
print(f"{len(rows)} seeds;", sum(1 for r in rows if 'VIOLATION' in r[4]), "detected;", sum(1 for r in rows if r[3] == 'yes'), "confirmed")
