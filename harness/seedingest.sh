#!/bin/sh
# ingest round-2 seeds: seedingest.sh C03 [C04 ...]  (copies /tmp/wt/R2<id>_out/{C,D} to seeded/<id>_{C,D})
for id in "$@"; do
  for v in C D; do
    src=/tmp/wt/R2${id}_out/$v
    [ -f $src/patch.diff ] || { echo "missing $src"; continue; }
    dst=/verif/seeded/${id}_$v
    mkdir -p $dst
    cp $src/patch.diff $src/demo.py $src/meta.json $dst/
    echo "ingested $dst"
  done
done
