"""Kernel specifications for harness/extract.py: which statements of the rex source are regenerated
into Lean on every run. See extract.py for the locator and translation language."""

BASE = "rex/base.py"
ASYNC = "rex/asynchronous.py"

KERNELS = {
    "Transform": [
        dict(name="denorm_offset", file=BASE, func="Denormalize.init", loc=("lambda", 0), props=["C17"]),
        dict(name="denorm_scale", file=BASE, func="Denormalize.init", loc=("lambda", 1), props=["C17"]),
        dict(name="denorm_normalize", file=BASE, func="Denormalize.normalize", loc=("lambda", 0), props=["C17"]),
        dict(name="denorm_denormalize", file=BASE, func="Denormalize.denormalize", loc=("lambda", 0), props=["C17"]),
        dict(name="chain_apply_iter", file=BASE, func="Chain.apply", loc=("foriter", 0), result="List", rename={"self.transforms": "ts"}, props=["C17"]),
        dict(name="chain_inv_iter", file=BASE, func="Chain.inv", loc=("foriter", 0), result="List", rename={"self.transforms": "ts"}, props=["C17"]),
        dict(name="exp_apply", file=BASE, func="Exponential.apply", loc=("lambda", 0), funs={"jnp.exp": "exp"}, props=["C17"]),
        dict(name="exp_inv", file=BASE, func="Exponential.inv", loc=("lambda", 0), funs={"jnp.log": "log"}, props=["C17"]),
    ],
}
