"""Kernel specifications for harness/extract.py: which statements of the rex source are regenerated
into Lean on every run. See extract.py for the locator and translation language."""

BASE = "rex/base.py"
ASYNC = "rex/asynchronous.py"

KERNELS = {
    "Transform": [
        dict(name="denorm_offset", file=BASE, func="Denormalize.init", loc=("lambda", 0), props=["C17"]),
        dict(name="denorm_scale", file=BASE, func="Denormalize.init", loc=("lambda", 1), props=["C17"]),
        dict(name="denorm_normalize", file=BASE, func="Denormalize.normalize", loc=("lambda", 0), props=["C17"]),
        dict(name="denorm_denormalize", file=BASE, func="Denormalize.denormalize", loc=("lambda", 0), props=["C17"]),
        dict(name="chain_apply_iter", file=BASE, func="Chain.apply", loc=("foriter", 0), result="List", rename={"self.transforms": "ts"}, props=["C17"]),
        dict(name="chain_inv_iter", file=BASE, func="Chain.inv", loc=("foriter", 0), result="List", rename={"self.transforms": "ts"}, props=["C17"]),
        dict(name="exp_apply", file=BASE, func="Exponential.apply", loc=("lambda", 0), funs={"jnp.exp": "exp"}, props=["C17"]),
        dict(name="exp_inv", file=BASE, func="Exponential.inv", loc=("lambda", 0), funs={"jnp.log": "log"}, props=["C17"]),
    ],
    "Async": [
        dict(name="scheduled_ts", file=ASYNC, func="_AsyncNodeWrapper.push_scheduled_ts", loc=("assign_unique", "scheduled_ts"),
             rename={"self.node.rate": "rate", "self.phase": "phase"}, ints=["tick"], params=["tick", "rate", "phase"], props=["C02", "C03", "C04"]),
        dict(name="only_blocking", file=ASYNC, func="_AsyncNodeWrapper.push_phase_shift", loc=("assign_unique", "only_blocking"), result="Bool",
             rename={"self.node.advance": "advance"}, opaque={"all((i.connection.blocking for i in self.inputs.values()))": "all_blocking"},
             params=["advance", "all_blocking"], props=["C02", "C04"]),
        dict(name="phase_inputs", file=ASYNC, func="_AsyncNodeWrapper.push_phase_shift", loc=("assign_unique", "phase_inputs"), params=["ts_max", "ts_scheduled"], props=["C02", "C04"]),
        dict(name="phase_last", file=ASYNC, func="_AsyncNodeWrapper.push_phase_shift", loc=("assign_unique", "phase_last"), params=["ts_end_prev", "ts_scheduled"], props=["C02", "C04"]),
        dict(name="phase", file=ASYNC, func="_AsyncNodeWrapper.push_phase_shift", loc=("assign_unique", "phase"), bools=["only_blocking"],
             params=["only_blocking", "phase_inputs", "phase_last", "phase_scheduled"], props=["C02", "C04"]),
        dict(name="sched_is_frequency", file=ASYNC, func="_AsyncNodeWrapper.push_phase_shift", loc=("iftest_containing", "self.node.scheduling"), result="Bool",
             rename={"self.node.scheduling": "scheduling"}, consts={"Scheduling.FREQUENCY": "0", "Scheduling.PHASE": "1"}, params=["scheduling"], props=["C02", "C04"]),
        dict(name="phase_scheduled_freq", file=ASYNC, func="_AsyncNodeWrapper.push_phase_shift", loc=("assign", "self._phase_scheduled", 0),
             rename={"self._phase_scheduled": "cur"}, params=["cur", "phase_last", "phase_scheduled"], props=["C02", "C04"]),
        dict(name="phase_scheduled_phase", file=ASYNC, func="_AsyncNodeWrapper.push_phase_shift", loc=("assign", "self._phase_scheduled", 1), params=[], props=["C02", "C04"]),
        dict(name="ts_start", file=ASYNC, func="_AsyncNodeWrapper.push_phase_shift", loc=("assign_unique", "ts_start"), params=["ts_scheduled", "phase"], props=["C02", "C04"]),
        dict(name="ts_output", file=ASYNC, func="_AsyncNodeWrapper.push_phase_shift", loc=("assign_unique", "ts_output"), params=["ts_start", "delay"], props=["C02", "C04"]),
        dict(name="ts_end_sc", file=ASYNC, func="_AsyncNodeWrapper.push_step", loc=("assign", "ts_end_sc", 0), params=["ts_start_sc", "delay_sc"], props=["C02", "C04"]),
        dict(name="recv_sc", file=ASYNC, func="_AsyncConnectionWrapper.push_ts_input", loc=("assign", "recv_sc", 0),
             rename={"self._prev_recv_sc": "prev_recv"}, params=["sent_sc", "delay", "prev_recv"], props=["C02", "C03", "C04"]),
        dict(name="delay_sc", file=ASYNC, func="_AsyncConnectionWrapper.push_ts_input", loc=("assign_unique", "delay_sc"), params=["recv_sc", "sent_sc"], props=["C02", "C03"]),
        dict(name="zip_recv_sc", file=ASYNC, func="_AsyncConnectionWrapper.push_zip", loc=("assign", "recv_sc", 0), params=["sent_sc", "delay_sc"], props=["C02", "C03"]),
        dict(name="nb_has_future", file=ASYNC, func="_AsyncConnectionWrapper.push_expected_nonblocking", loc=("assign_genexp", "has_ts_in_future"), result="Bool",
             params=["ts", "ts_step"], props=["C02", "C03"]),
        dict(name="nb_latest_break", file=ASYNC, func="_AsyncConnectionWrapper.push_expected_nonblocking", loc=("for_if", 1, 0), result="Bool",
             rename={"self.connection.skip": "skip"}, params=["skip", "ts", "ts_step"], props=["C02", "C03"]),
        dict(name="nb_buffer_expected", file=ASYNC, func="_AsyncConnectionWrapper.push_expected_nonblocking", loc=("assign_unique", "ts_expected"),
             rename={"self.connection.output_node.rate": "rate_out", "seq": "seq_"}, ints=["seq_"], params=["seq_", "rate_out", "phase"], props=["C02", "C03"]),
        dict(name="nb_buffer_break_expected", file=ASYNC, func="_AsyncConnectionWrapper.push_expected_nonblocking", loc=("for_if", 0, 0), result="Bool",
             params=["ts_expected", "ts_step"], props=["C02", "C03"]),
        dict(name="nb_buffer_break_recv", file=ASYNC, func="_AsyncConnectionWrapper.push_expected_nonblocking", loc=("for_if", 0, 1), result="Bool",
             rename={"self.connection.skip": "skip"}, params=["skip", "ts_recv", "ts_step"], props=["C02", "C03"]),
        dict(name="ts_max_fold", file=ASYNC, func="_AsyncConnectionWrapper.push_ts_max", loc=("assign_unique", "ts_max"), params=["input_ts"], props=["C02", "C03", "C04"]),
        dict(name="sel_window", file=ASYNC, func="_AsyncConnectionWrapper.push_selection", loc=("call_arg", "self.q_grouped.append", 0, 0), result="List",
             rename={"self.connection.window": "window"}, params=["grouped", "window"], props=["C01", "C02", "C03"]),
        # blocking arithmetic
        dict(name="bl_t_high", file=ASYNC, func="_AsyncConnectionWrapper.push_expected_blocking", loc=("assign", "t_high", 0), ints=["N_node"], params=["dt_node", "N_node", "phase_node"], props=["C02", "C03"]),
        dict(name="bl_t_low", file=ASYNC, func="_AsyncConnectionWrapper.push_expected_blocking", loc=("assign", "t_low", 0), ints=["N_node"], params=["dt_node", "N_node", "phase_node"], props=["C02", "C03"]),
        dict(name="bl_t_high_rnd", file=ASYNC, func="_AsyncConnectionWrapper.push_expected_blocking", loc=("assign", "t_high", 1), params=["t_high"], props=["C02", "C03"]),
        dict(name="bl_t_low_rnd", file=ASYNC, func="_AsyncConnectionWrapper.push_expected_blocking", loc=("assign", "t_low", 1), params=["t_low"], props=["C02", "C03"]),
        dict(name="bl_i0", file=ASYNC, func="_AsyncConnectionWrapper.push_expected_blocking", loc=("assign", "i", 0), result="IntExpr", params=["N_node", "t_low", "phase_in", "dt_in"], props=["C02", "C03"]),
        dict(name="bl_t", file=ASYNC, func="_AsyncConnectionWrapper.push_expected_blocking", loc=("assign", "t", 0), ints=["i"], params=["i", "rate_in", "phase_in"], props=["C02", "C03"]),
        dict(name="bl_t_next", file=ASYNC, func="_AsyncConnectionWrapper.push_expected_blocking", loc=("assign", "t", 1), ints=["i"], params=["i", "rate_in", "phase_in"], props=["C02", "C03"]),
        dict(name="bl_while", file=ASYNC, func="_AsyncConnectionWrapper.push_expected_blocking", loc=("whiletest", 0), result="Bool", params=["t", "t_high"], props=["C02", "C03"]),
        dict(name="bl_after_phase", file=ASYNC, func="_AsyncConnectionWrapper.push_expected_blocking", loc=("while_if", 0, 0), result="Bool", params=["t", "phase_in"], props=["C02", "C03"]),
        dict(name="bl_first_noskip", file=ASYNC, func="_AsyncConnectionWrapper.push_expected_blocking", loc=("while_if", 0, 2), result="Bool", params=["t", "t_low", "skip"], props=["C02", "C03"]),
        dict(name="bl_first_skip", file=ASYNC, func="_AsyncConnectionWrapper.push_expected_blocking", loc=("while_if", 0, 3), result="Bool", params=["t", "t_low", "skip"], props=["C02", "C03"]),
        dict(name="bl_in_noskip", file=ASYNC, func="_AsyncConnectionWrapper.push_expected_blocking", loc=("while_if", 0, 4), result="Bool", params=["t", "t_low", "t_high", "skip"], props=["C02", "C03"]),
        dict(name="bl_in_skip", file=ASYNC, func="_AsyncConnectionWrapper.push_expected_blocking", loc=("while_if", 0, 5), result="Bool", params=["t", "t_low", "t_high", "skip"], props=["C02", "C03"]),
    ],
}


# kernel specifications contributed per property live in harness/kernels_<id>.py (each defines KERNELS = {...})
import glob as _glob
import importlib as _importlib
import os as _os

for _f in sorted(_glob.glob(_os.path.join(_os.path.dirname(_os.path.abspath(__file__)), "kernels_*.py"))):
    _m = _importlib.import_module(_os.path.basename(_f)[:-3])
    for _k, _v in _m.KERNELS.items():
        assert _k not in KERNELS, f"duplicate kernel module {_k}"
        KERNELS[_k] = _v
