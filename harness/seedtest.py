"""Judge a seeded change: copy /repo and /verif to a scratch directory outside both, apply seeded/<name>/patch.diff to
the copy, run the demo on the clean tree and on the changed copy, run the named checks of the copied framework against
the changed copy (REX_REPO), remove the scratch directory.
usage: seedtest.py <seed-name> [check ids...] [--skip-demo] [--tier quick|thorough]"""
import json
import os
import shutil
import subprocess
import sys
import tempfile
import time

VERIF = os.path.dirname(os.path.dirname(os.path.abspath(__file__)))
REPO = "/repo"


def sh(cmd, **kw):
    return subprocess.run(cmd, shell=True, capture_output=True, text=True, **kw)


def main():
    args = [a for a in sys.argv[1:] if not a.startswith("--")]
    name = args[0]
    d = os.path.join(VERIF, "seeded", name)
    checks = args[1:] or [name.split("_")[0]]
    scratch = tempfile.mkdtemp(prefix=f"seed_{name}_", dir="/var/tmp")
    out = dict(seed=name, checks={})
    try:
        sh(f"rsync -a --exclude .git --exclude replays --exclude __pycache__ {VERIF}/ {scratch}/verif/")
        sh(f"rsync -a --exclude .git --exclude __pycache__ {REPO}/ {scratch}/repo/")
        r = sh(f"cd {scratch}/repo && git apply {d}/patch.diff")
        assert r.returncode == 0, r.stderr
        env = dict(os.environ, JAX_PLATFORMS="cpu")
        if "--skip-demo" not in sys.argv:
            r = subprocess.run(["/venv/bin/python", os.path.join(d, "demo.py")], env=dict(env, REX_REPO=REPO), capture_output=True, text=True, timeout=1200)
            out["demo_clean_exit"] = r.returncode
            r = subprocess.run(["/venv/bin/python", os.path.join(d, "demo.py")], env=dict(env, REX_REPO=f"{scratch}/repo"), capture_output=True, text=True, timeout=1200)
            out["demo_changed_exit"] = r.returncode
        tier = "thorough" if "--thorough" in sys.argv else "quick"
        for c in checks:
            t0 = time.time()
            r = subprocess.run([f"{scratch}/verif/check", c, "--tier", tier], cwd=f"{scratch}/verif", env=dict(os.environ, VERIF_STDERR="/dev/null", REX_REPO=f"{scratch}/repo"),
                               capture_output=True, text=True, timeout=7200)
            lines = [l for l in r.stdout.splitlines() if l.startswith(("VIOLATION", "OK ", "KNOWN", "HARNESS", "  failing", "  broken", "  corr"))]
            lines = [l for l in lines if l.startswith(("VIOLATION", "OK ", "HARNESS"))] + [l for l in lines if l.startswith("  failing")][:5] + [l for l in lines if l.startswith(("  broken", "  corr", "KNOWN"))][:4]
            out["checks"][c] = dict(exit=r.returncode, wall=round(time.time() - t0), lines=[l[:400] for l in lines])
    finally:
        shutil.rmtree(scratch, ignore_errors=True)
    print(json.dumps(out, indent=1))
    try:
        json.dump(out, open(os.path.join(d, "result.json"), "w"), indent=1)
    except OSError:
        pass
    return out


if __name__ == "__main__":
    main()
