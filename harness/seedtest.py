"""Apply a seeded change from seeded/<name>/patch.diff to /repo, run its demo and the named checks, undo it.
usage: seedtest.py <seed-name> [check ids...]   (default check = the property the seed is filed under)"""
import json
import os
import subprocess
import sys
import time

VERIF = os.path.dirname(os.path.dirname(os.path.abspath(__file__)))
REPO = "/repo"


def sh(cmd, **kw):
    return subprocess.run(cmd, shell=True, capture_output=True, text=True, **kw)


def main():
    name = sys.argv[1]
    d = os.path.join(VERIF, "seeded", name)
    checks = sys.argv[2:] or [name.split("_")[0]]
    env = dict(os.environ, JAX_PLATFORMS="cpu", REX_REPO=REPO)
    out = dict(seed=name, checks={})
    assert sh(f"git -C {REPO} status --porcelain").stdout.strip() == "", "/repo not clean"
    if "--skip-demo" not in sys.argv:
        r = subprocess.run(["/venv/bin/python", os.path.join(d, "demo.py")], env=env, capture_output=True, text=True, timeout=900)
        out["demo_clean_exit"] = r.returncode
    r = sh(f"git -C {REPO} apply {d}/patch.diff")
    assert r.returncode == 0, r.stderr
    try:
        if "--skip-demo" not in sys.argv:
            r = subprocess.run(["/venv/bin/python", os.path.join(d, "demo.py")], env=env, capture_output=True, text=True, timeout=900)
            out["demo_changed_exit"] = r.returncode
        for c in [c for c in checks if not c.startswith("--")]:
            t0 = time.time()
            r = subprocess.run([os.path.join(VERIF, "check"), c], cwd=VERIF, env=dict(os.environ, VERIF_STDERR="/dev/null"), capture_output=True, text=True, timeout=3600)
            lines = [l for l in r.stdout.splitlines() if l.startswith(("VIOLATION", "OK ", "KNOWN", "HARNESS", "  failing", "  broken", "  corr"))]
            out["checks"][c] = dict(exit=r.returncode, wall=round(time.time() - t0), lines=lines[:8])
    finally:
        sh(f"git -C {REPO} checkout -- .")
        sh(f"rm -rf {VERIF}/replays")
    print(json.dumps(out, indent=1))


if __name__ == "__main__":
    main()
