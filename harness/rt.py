"""Runtime harness shared by the checks that exercise the asynchronous and compiled runtimes:
probe nodes, random graph specifications, episode runners, record extraction.

Everything here runs *inside a worker process* (see pool.py) with rex imported from $REX_REPO.
"""
import math
import os
import random
import sys
import threading
import time

REPO = os.environ.get("REX_REPO", "/repo")
if REPO not in sys.path:
    sys.path.insert(0, REPO)

M = 1000003
RATES = [3, 5, 7, 8, 10, 11, 13, 16, 17, 20, 25, 40]

# host-side trace of probe calls: list of (node, seq) in call order; and counters
CALLS = {}
CALL_LOCK = threading.Lock()


CALLS_EPS = {}  # node -> list of (eps, seq) as seen by the step function


def _bump(name, seq, eps=0):
    with CALL_LOCK:
        CALLS.setdefault(name, []).append(int(seq))
        CALLS_EPS.setdefault(name, []).append((int(eps), int(seq)))


def make_probe_class():
    import jax
    import jax.numpy as jnp
    from flax import struct
    from rex.base import Base, GraphState, StepState
    from rex.node import BaseNode

    @struct.dataclass
    class PParams(Base):
        w: jax.Array

    @struct.dataclass
    class PState(Base):
        s: jax.Array

    @struct.dataclass
    class POut(Base):
        y: jax.Array
        v: jax.Array  # payload with more than one element per message: always (y + [0, 1, 2]) % M

    class Probe(BaseNode):
        """Integer probe: any wrong slot / wrong order / double execution changes every later value."""

        def __init__(self, *a, count_calls=False, **kw):
            super().__init__(*a, **kw)
            self.count_calls = count_calls

        def init_params(self, rng=None, graph_state=None):
            k = sum(ord(c) for c in self.name) % 5 + 2
            return PParams(w=jnp.array(k, dtype=jnp.int32))

        def init_state(self, rng=None, graph_state=None):
            k = sum(ord(c) for c in self.name) % 97 + 1
            return PState(s=jnp.array(k, dtype=jnp.int32))

        def init_output(self, rng=None, graph_state=None):
            k = sum(ord(c) for c in self.name) % 89 + 3
            return POut(y=jnp.array(k, dtype=jnp.int32), v=(jnp.array(k, dtype=jnp.int32) + jnp.arange(3, dtype=jnp.int32)) % M)

        def step(self, step_state):
            ss = step_state
            new_rng, rng_draw = jax.random.split(ss.rng)
            draw = jax.random.randint(rng_draw, (), 0, 1000, dtype=jnp.int32)
            acc = jnp.array(0, dtype=jnp.int32)
            for idx, (name, i) in enumerate(sorted(ss.inputs.items())):
                win = i.seq.shape[0]
                wts = jnp.arange(1, win + 1, dtype=jnp.int32) * (idx + 1)
                acc = acc + jnp.sum(wts * (i.data.y.astype(jnp.int32) % 1009)) + 13 * jnp.sum(wts * jnp.maximum(i.seq.astype(jnp.int32), -1))
            seq = jnp.asarray(ss.seq, dtype=jnp.int32)
            s = (31 * ss.state.s + ss.params.w * (acc % M) + draw + seq) % M
            y = (7 * s + seq) % M
            if self.count_calls:
                jax.debug.callback(_bump, self.name, seq, jnp.asarray(ss.eps, dtype=jnp.int32), ordered=True)
            return ss.replace(rng=new_rng, state=PState(s=s.astype(jnp.int32))), POut(y=y.astype(jnp.int32), v=((y.astype(jnp.int32) + jnp.arange(3, dtype=jnp.int32)) % M).astype(jnp.int32))

    return Probe, PParams, PState, POut


# ------------------------------------------------------------------------------------------------
# graph specifications


def rand_delay(rng, period, jitter, allow_overrun, comm=False):
    kind = rng.choice(["det", "det", "normal"]) if jitter else "det"
    frac = rng.choice([0.0, 0.1, 0.3, 0.5, 0.9]) if not allow_overrun else rng.choice([0.3, 0.9, 1.2, 1.7])
    loc = round(frac * period, 4)
    if kind == "det":
        return dict(kind="det", loc=loc, scale=0.0)
    return dict(kind="normal", loc=loc, scale=round(rng.choice([0.05, 0.2, 0.5, 1.5] if comm else [0.05, 0.2, 0.5]) * period, 4))


def rand_spec(rng, n_nodes=None, tie_stream=False, allow_trainable=False):
    """Mostly-valid random graph. Nodes are ordered; forward connections (i<j) are unskipped, backward
    ones are skipped (so no algebraic loop). The last node is the supervisor's predecessor chain end."""
    n = n_nodes or rng.randint(2, 5)
    if tie_stream:
        rates = [rng.choice([4, 8, 16]) for _ in range(n)]
    else:
        base = rng.choice(RATES)
        rates = [rng.choice([r for r in RATES if 0.25 <= r / base <= 4.0]) for _ in range(n)]
    jitter = (not tie_stream) and rng.random() < 0.6
    nodes = []
    for i in range(n):
        period = 1.0 / rates[i]
        overrun = (not tie_stream) and rng.random() < 0.25
        comp = dict(kind="det", loc=rng.choice([0.0, 0.0625, 0.125]), scale=0.0) if tie_stream else rand_delay(rng, period, jitter, overrun)
        nodes.append(dict(name=f"n{i}", rate=rates[i], comp=comp, advance=False, scheduling=rng.choice(["FREQUENCY", "FREQUENCY", "PHASE"])))
    conns = []
    have = set()
    # chain to make the graph connected
    for j in range(1, n):
        i = rng.randrange(0, j)
        have.add((i, j))
    # extra forward / backward edges
    for _ in range(rng.randint(0, n)):
        i, j = rng.randrange(n), rng.randrange(n)
        if i != j:
            have.add((i, j))
    # make sure there is at least one backward (skipped) edge often
    if n >= 2 and rng.random() < 0.7:
        j = rng.randrange(1, n)
        have.add((j, rng.randrange(0, j)))
    # every node must be able to influence the supervisor (with pruning, a node that is no ancestor of any supervisor
    # step has no slot in the compiled graph, and Graph.init_record cannot represent it)
    sup_i = rng.randrange(n)
    changed = True
    while changed:
        changed = False
        reach = {sup_i}
        grow = True
        while grow:
            grow = False
            for (a, b) in have:
                if b in reach and a not in reach:
                    reach.add(a)
                    grow = True
        for a in range(n):
            if a not in reach:
                have.add((a, sup_i))
                changed = True
                break
    for (i, j) in sorted(have):
        back = i > j
        period = 1.0 / rates[i]
        comm = dict(kind="det", loc=rng.choice([0.0, 0.0625, 0.125]), scale=0.0) if tie_stream else rand_delay(rng, period, jitter, False, comm=True)
        blocking = rng.random() < 0.35
        conns.append(
            dict(src=f"n{i}", dst=f"n{j}", blocking=blocking, skip=bool(back or rng.random() < 0.15), jitter=rng.choice(["LATEST", "LATEST", "BUFFER"]),
                 window=rng.randint(1, 4), comm=comm)
        )
    # advance=True needs >=1 blocking input (simulated clock); use it sometimes
    for nd in nodes:
        ins = [c for c in conns if c["dst"] == nd["name"]]
        if ins and any(c["blocking"] for c in ins) and rng.random() < 0.3:
            nd["advance"] = True
    sup = f"n{sup_i}"
    return dict(nodes=nodes, conns=conns, supervisor=sup, seed=rng.randrange(1 << 30))


def spec_features(spec):
    f = set()
    for c in spec["conns"]:
        f.add("blocking" if c["blocking"] else "nonblocking")
        if c["skip"]:
            f.add("skip")
        if c["jitter"] == "BUFFER" and not c["blocking"]:
            f.add("buffer")
        if c["window"] > 1:
            f.add("window>1")
        if c["comm"]["kind"] == "normal":
            f.add("comm_jitter")
    for nd in spec["nodes"]:
        if nd["advance"]:
            f.add("advance")
        if nd["scheduling"] == "PHASE":
            f.add("phase_sched")
        if nd["comp"]["loc"] > 1.0 / nd["rate"]:
            f.add("overrun")
        if nd["comp"]["kind"] == "normal":
            f.add("comp_jitter")
    if len({nd["rate"] for nd in spec["nodes"]}) > 1:
        f.add("mixed_rates")
    return f


def make_dist(d):
    import distrax

    if d["kind"] == "det":
        return distrax.Deterministic(loc=d["loc"])
    if d["kind"] == "trainable":
        from rex import base

        return base.TrainableDist.create(delay=d["delay"], min=d["min"], max=d["max"], interp=d.get("interp", "zoh"))
    return distrax.Normal(loc=d["loc"], scale=d["scale"])


def build_nodes(spec, count_calls=False, cls=None):
    import rex.constants as const

    Probe = cls or make_probe_class()[0]
    nodes = {}
    for nd in spec["nodes"]:
        extra = {"delay": nd["delay"]} if "delay" in nd else {}  # expected computation delay (phase) given explicitly
        nodes[nd["name"]] = Probe(
            name=nd["name"], rate=nd["rate"], delay_dist=make_dist(nd["comp"]), advance=nd["advance"], **extra,
            scheduling=const.Scheduling.PHASE if nd["scheduling"] == "PHASE" else const.Scheduling.FREQUENCY, count_calls=count_calls,
        )
    for c in spec["conns"]:
        kw = {"delay": c["delay"]} if "delay" in c else {}  # expected communication delay (phase) given explicitly
        if c.get("name"):
            kw["name"] = c["name"]  # a custom ("shadow") input name: the receiver sees this connection under that name
        if "delay_dist_obj" in c:
            dd = c["delay_dist_obj"]
        else:
            dd = make_dist(c["comm"])
        nodes[c["dst"]].connect(
            nodes[c["src"]], blocking=c["blocking"], skip=c["skip"], window=c["window"], delay_dist=dd,
            jitter=const.Jitter.BUFFER if c["jitter"] == "BUFFER" else const.Jitter.LATEST, **kw,
        )
    return nodes


# ------------------------------------------------------------------------------------------------
# record extraction (everything becomes plain python: ints, floats, lists)


def _key_data(k):
    import jax
    import numpy as onp

    try:
        return [int(x) for x in onp.asarray(jax.random.key_data(k) if hasattr(k, "dtype") and jax.dtypes.issubdtype(k.dtype, jax.dtypes.prng_key) else k).reshape(-1)]
    except Exception:
        return [int(x) for x in onp.asarray(k).reshape(-1)]


def make_out(node, value):
    """a probe output with payload `value` (both leaves consistent)"""
    import jax.numpy as jnp

    y = jnp.array(value, dtype=jnp.int32)
    return type(node.init_output())(y=y, v=((y + jnp.arange(3, dtype=jnp.int32)) % M).astype(jnp.int32))


def payload_corrupt(data, step_seq=None):
    """the probes' payload carries y and v = (y + [0, 1, 2]) % M; returns the first (step, entry, y, v) where a window entry's
    elements do not belong together (rows of different messages mixed), or None"""
    import numpy as onp

    if getattr(data, "v", None) is None:
        return None
    y = onp.asarray(data.y).astype(onp.int64)
    v = onp.asarray(data.v).astype(onp.int64)
    if v.shape != y.shape + (3,):
        return (-1, -1, list(y.shape), list(v.shape))
    want = (y[..., None] + onp.arange(3)) % M
    wrong = (want != v).any(axis=-1)
    if step_seq is not None:  # rows of steps that were not executed hold no window
        ok_rows = onp.asarray(step_seq).reshape(-1) >= 0
        wrong = wrong & ok_rows.reshape((-1,) + (1,) * (wrong.ndim - 1))
    bad = onp.argwhere(wrong)
    if len(bad) == 0:
        return None
    idx = tuple(bad[0])
    return (int(idx[0]), int(idx[-1]) if len(idx) > 1 else 0, int(y[idx]), v[idx].tolist())


def node_record_to_dict(rec, with_inputs=True):
    """rec: base.NodeRecord with stacked steps (async get_record or compiled aux record)."""
    import numpy as onp

    st = rec.steps
    n = len(onp.asarray(st.seq))
    out = dict(n=n, seq=[int(x) for x in onp.asarray(st.seq)], eps=[int(x) for x in onp.asarray(st.eps)],
               ts_start=[float(x) for x in onp.asarray(st.ts_start)], ts_end=[float(x) for x in onp.asarray(st.ts_end)],
               delay=[float(x) for x in onp.asarray(st.delay)])
    for f in ("ts_scheduled", "ts_max", "ts_end_prev", "phase", "phase_scheduled", "phase_inputs", "phase_last"):
        if hasattr(st, f) and getattr(st, f) is not None:
            out[f] = [float(x) for x in onp.asarray(getattr(st, f))]
    if st.rng is not None:
        a = onp.asarray(st.rng)
        out["rng"] = [[int(v) for v in row.reshape(-1)] for row in a]
    if st.state is not None:
        out["state"] = [int(x) for x in onp.asarray(st.state.s)]
    if st.output is not None:
        out["output"] = [int(x) for x in onp.asarray(st.output.y)]
    if st.inputs is not None and with_inputs:
        ins = {}
        for name, i in st.inputs.items():
            ins[name] = dict(seq=onp.asarray(i.seq).astype(int).tolist(), ts_sent=onp.asarray(i.ts_sent).astype(float).tolist(),
                             ts_recv=onp.asarray(i.ts_recv).astype(float).tolist(), data=onp.asarray(i.data.y).astype(int).tolist())
            bad = payload_corrupt(i.data, st.seq)
            if bad:
                out.setdefault("payload_corrupt", []).append(f"input {name}: step {bad[0]} window entry {bad[1]}: y={bad[2]} but v={bad[3]} (must be (y + [0, 1, 2]) % M)")
        out["inputs"] = ins
    if getattr(rec, "inputs", None) is not None:
        msgs = {}
        for name, ir in rec.inputs.items():
            m = ir.messages
            if m is None:
                continue
            msgs[name] = dict(seq_out=onp.asarray(m.seq_out).astype(int).reshape(-1).tolist(), seq_in=onp.asarray(m.seq_in).astype(int).reshape(-1).tolist(),
                              ts_sent=onp.asarray(m.ts_sent).astype(float).reshape(-1).tolist(), ts_recv=onp.asarray(m.ts_recv).astype(float).reshape(-1).tolist(),
                              delay=onp.asarray(m.delay).astype(float).reshape(-1).tolist())
        out["messages"] = msgs
    return out


def episode_record_to_dict(erec):
    return {n: node_record_to_dict(r) for n, r in erec.nodes.items()}


# ------------------------------------------------------------------------------------------------
# asynchronous episodes


def _guarded(fn, name, limit, info):
    import functools
    import json
    import os
    import sys

    def fire():
        out = getattr(sys.modules.get("__main__"), "real_stdout", sys.__stdout__)
        out.write("@@RESULT@@" + json.dumps(dict(info, hang=f"AsyncGraph.{name}()", crashed=True, skipped="a lifecycle call did not return"), default=str) + "\n")
        out.flush()
        os._exit(3)

    @functools.wraps(fn)
    def call(*a, **kw):
        t = threading.Timer(limit, fire)
        t.daemon = True
        t.start()
        try:
            return fn(*a, **kw)
        finally:
            t.cancel()

    return call


class AsyncRun:
    """Builds the AsyncGraph for a spec once (warm-up is expensive) and runs episodes on it."""

    def __init__(self, spec, jit_step=True, count_calls=False, rtf=0, record=None, max_records=None, clock="SIMULATED"):
        import jax
        import rex.constants as const
        from rex.asynchronous import AsyncGraph

        self.spec = spec
        self.nodes = build_nodes(spec, count_calls=count_calls)
        self.sup = self.nodes[spec["supervisor"]]
        clk = const.Clock.SIMULATED if clock == "SIMULATED" else const.Clock.WALL_CLOCK
        self.graph = AsyncGraph(nodes=self.nodes, supervisor=self.sup, clock=clk, real_time_factor=rtf if clock == "SIMULATED" else const.RealTimeFactor.REAL_TIME)
        rs = dict(params=True, rng=True, inputs=True, state=True, output=True)
        if record is not None:
            rs.update(record)
        if max_records is not None:
            rs["max_records"] = max_records
        self.graph.set_record_settings(**rs)
        self.gs0 = self.graph.init(rng=jax.random.PRNGKey(spec["seed"]))
        self.graph.warmup(self.gs0, jit_step=jit_step)
        # last-resort guard for worker tasks without a watchdog of their own: a lifecycle call that does not return within 170 s
        # (token starvation of the generated graph, or a stall: C05's subject) ends the task with a `hang` result
        for meth in ("run", "reset", "step", "stop"):
            setattr(self.graph, meth, _guarded(getattr(self.graph, meth), meth, 170.0, dict(spec=spec)))

    def episode(self, nsteps, eps=0, api="run", override=None, gs0=None):
        """api: 'run' | 'step' (reset + step). override: function(step_index, step_state) -> (new_step_state, output) or None.
        Returns (record dict, observations list, final graph_state)."""
        import numpy as onp

        gs = (gs0 or self.gs0).replace(eps=onp.int32(eps))
        obs = []
        if api == "run":
            for _ in range(nsteps):
                gs = self.graph.run(gs)
                sup = gs.step_state[self.sup.name]
                obs.append(dict(seq=int(sup.seq), ts=float(sup.ts), state=int(sup.state.s)))
        else:
            gs, ss = self.graph.reset(gs)
            obs.append(self._obs(ss))
            for k in range(nsteps):
                if override is not None:
                    nss, out = override(k, ss)
                    gs, ss = self.graph.step(gs, nss, out)
                else:
                    gs, ss = self.graph.step(gs)
                obs.append(self._obs(ss))
        self.graph.stop()
        rec = safe_get_record(self.graph)
        self.last_executed = self.executed_steps()
        return rec, obs, gs

    def executed_steps(self):
        """{node: number of steps the node executed in the episode just stopped} = rows kept + rows discarded after max_records
        was reached (the wrapper's own counters; None if they are not there)"""
        out = {}
        for n, w in getattr(self.graph, "_async_nodes", {}).items():
            try:
                out[n] = len(w._record_steps) + int(w._discarded)
            except Exception:  # noqa
                out[n] = None
        return out

    def _obs(self, ss):
        import numpy as onp

        ins = {k: dict(seq=onp.asarray(v.seq).astype(int).tolist(), data=onp.asarray(v.data.y).astype(int).tolist(),
                       ts_sent=onp.asarray(v.ts_sent).astype(float).tolist(), ts_recv=onp.asarray(v.ts_recv).astype(float).tolist()) for k, v in ss.inputs.items()}
        return dict(seq=int(ss.seq), ts=float(ss.ts), state=int(ss.state.s), inputs=ins, rng=[int(x) for x in onp.asarray(ss.rng).reshape(-1)])


class _Rec:
    def __init__(self, nodes):
        self.nodes = nodes


class _EmptySteps:
    seq = []
    eps = []
    ts_start = []
    ts_end = []
    delay = []
    rng = None
    state = None
    output = None
    inputs = None


class _EmptyNodeRecord:
    steps = _EmptySteps()
    inputs = None


class _EmptyMsgs:
    seq_out = []
    seq_in = []
    ts_sent = []
    ts_recv = []
    delay = []


class _InputRec:
    def __init__(self, messages):
        self.messages = messages


class _NodeRec:
    def __init__(self, steps, inputs):
        self.steps, self.inputs = steps, inputs


def safe_get_record(graph):
    """graph.get_record(), except that a node that has not executed a single step, or a connection that has not
    delivered a single message to an executed step (get_record raises a bare TypeError from tree_map for both),
    yields an empty record instead of an exception. (Robustness gap of rex outside the 20 properties; see DESIGN.)"""
    import jax
    import numpy as onp

    recs = {}
    for name, w in graph._async_nodes.items():
        try:
            recs[name] = w.get_record()
            continue
        except TypeError:
            pass
        if w._record_steps is not None and len(w._record_steps) > 0:
            to_array = lambda *x: onp.array(x[:-1]) if (len(x) > 0 and x[-1] is None) else onp.array(x)
            steps = w._record.steps if w._record.steps is not None else jax.tree_util.tree_map(to_array, *w._record_steps)
            last = steps.seq[-1] if len(steps.seq) > 0 else -1
        else:
            steps, last = _EmptySteps(), -1
        inputs = {}
        for i, c in w.inputs.items():
            try:
                inputs[c.connection.output_node.name] = c.get_record(last)
            except TypeError:
                inputs[c.connection.output_node.name] = _InputRec(_EmptyMsgs())
        recs[name] = _NodeRec(steps, inputs)
    return _Rec(recs)


def delay_streams(run: AsyncRun, n=100, gs0=None):
    """The exact delay samples the async runtime will draw: the wrappers' own jitted reset/sample functions,
    called exactly as _reset / push_phase_shift / push_ts_input call them (a non-jitted call of the same
    distribution can differ in the last bits)."""
    import jax.numpy as jnp
    import jax.random as rnd
    import numpy as onp

    gs0 = gs0 or run.gs0
    out = dict(comp={}, comm={})
    for name, w in run.graph._async_nodes.items():
        rng = gs0.rng[name]
        rng = jnp.array(rng) if isinstance(rng, onp.ndarray) else rng
        ds = w._jit_reset(rng)
        xs = []
        while len(xs) < n:
            ds, s = w._jit_sample(ds, shape=w._num_buffer)
            xs += [float(v) for v in s.tolist()]
        out["comp"][name] = xs
        rngs_in = rnd.split(rng, num=len(w.inputs))
        for r, cw in zip(rngs_in, w.inputs.values()):
            ds = cw._jit_reset(r)
            xs = []
            while len(xs) < n:
                ds, s = cw._jit_sample(ds, shape=cw._num_buffer)
                xs += [float(v) for v in s.tolist()]
            out["comm"][f"{cw.connection.output_node.name}->{name}"] = xs
    return out


def graph_from_dict(d, like=None):
    """inverse of graph_to_dict (dtypes of `like`, a rex.base.Graph, where given; the float values in the file are exact)"""
    import numpy as onp
    from rex import base

    def arr(x, ref, default):
        return onp.asarray(x, dtype=(onp.asarray(ref).dtype if ref is not None else default))

    V = {}
    for n, v in d["vertices"].items():
        rv = like.vertices[n] if like is not None else None
        V[n] = base.Vertex(seq=arr(v["seq"], rv.seq if rv else None, onp.int64), ts_start=arr(v["ts_start"], rv.ts_start if rv else None, onp.float64),
                           ts_end=arr(v["ts_end"], rv.ts_end if rv else None, onp.float64))
    E = {}
    for k, e in d["edges"].items():
        a, b = k.split("->")
        re_ = like.edges[(a, b)] if like is not None else None
        E[(a, b)] = base.Edge(seq_out=arr(e["seq_out"], re_.seq_out if re_ else None, onp.int64), seq_in=arr(e["seq_in"], re_.seq_in if re_ else None, onp.int64),
                              ts_recv=arr(e["ts_recv"], re_.ts_recv if re_ else None, onp.float64))
    return base.Graph(vertices=V, edges=E)


# ------------------------------------------------------------------------------------------------
# compiled runtime


MAPS_LIMIT = 12000  # vm.max_map_count is 65530 here; one eager call of a large partition can add > 10000 mappings


def relieve_maps(limit=MAPS_LIMIT):
    """Un-jitted execution of a compiled graph makes XLA compile (and mmap) one small executable per lax.cond; a large
    graph exhausts vm.max_map_count ("LLVM ERROR: Unable to allocate section memory", the process aborts). This is a
    limit of the sandbox, not behaviour of rex: drop jax's executable caches when the process holds many mappings.
    Never done while tracing."""
    try:
        from jax._src import core

        if not core.trace_state_clean():
            return False
        with open("/proc/self/maps") as f:
            n = sum(1 for _ in f)
        if n < limit:
            return False
        import gc

        import jax

        jax.effects_barrier()
        jax.clear_caches()
        gc.collect()
        return True
    except Exception:  # noqa
        return False


def _guard_eager(g):
    """wrap the entry points of a compiled graph with relieve_maps (instance attributes; the class is untouched)"""
    import functools

    for name in ("run", "step", "reset", "rollout", "init"):
        f = getattr(g, name, None)
        if f is None:
            continue

        def mk(f):
            @functools.wraps(f)
            def w(*a, **k):
                relieve_maps()
                return f(*a, **k)

            return w

        try:
            object.__setattr__(g, name, mk(f))
        except Exception:  # noqa
            pass
    return g


def compile_graph(nodes, sup, graphs_raw, mode="MCS", prune=True, **kw):
    import rex.constants as const
    from rex.graph import Graph

    sg = dict(MCS=const.Supergraph.MCS, GENERATIONAL=const.Supergraph.GENERATIONAL, TOPOLOGICAL=const.Supergraph.TOPOLOGICAL)[mode]
    try:
        return _guard_eager(Graph(nodes=nodes, supervisor=sup, graphs_raw=graphs_raw, supergraph=sg, prune=prune, progress_bar=False, **kw))
    except Exception as ex:
        import traceback

        if type(ex).__name__ == "NetworkXUnfeasible" and not prune:
            # to_connected_graph (prune=False) attaches a vertex that ends exactly when a supervisor step starts to that
            # step even if it *depends* on it (zero delays, exact tie) -> cycle. Observed on the unchanged tree; see DESIGN.
            raise CompileUnsupported(f"prune=False with zero-delay ties: {ex}")
        if isinstance(ex, KeyError) and ex.args and ex.args[0] in nodes and any(fr.name == "get_buffer_sizes" for fr in traceback.extract_tb(ex.__traceback__)):
            # with pruning, a node none of whose recorded steps is an ancestor of the last supervisor step of the horizon (short
            # horizon, node reachable only through slow/skipped connections) has no vertex in the compiled graphs, but its
            # receivers' windows still name it: Timings.get_buffer_sizes (and init_record) raise KeyError. Observed on the
            # unchanged tree (rand_spec seed 646725470); a loud limitation of the library, not a wrong result; see DESIGN.
            # The same happens without pruning when none of the node's steps finishes before a supervisor step of the horizon
            # starts (a slow node with a long computation delay in a short recording; sched_case seed 903409789).
            raise CompileUnsupported(f"prune={prune}: node {ex.args[0]} has no vertex in the compiled horizon: KeyError in get_buffer_sizes")
        if not isinstance(ex, AssertionError):
            raise

        tb = traceback.format_exc()
        if "site-packages/supergraph" in tb.splitlines()[-3] or "site-packages/supergraph" in "".join(tb.splitlines()[-4:]):
            # an internal assertion of the external supergraph library (observed: MCS with prune=False, "Should be a leaf node.")
            raise CompileUnsupported(f"supergraph library assertion: {ex}")
        raise


class CompileUnsupported(Exception):
    pass


def _unused():
    pass


def timings_to_dict(timings):
    """Export a rex Timings object: slots -> kind, generation, run/seq/ts arrays [eps][step], windows."""
    import numpy as onp

    out = {}
    for sname, s in timings.slots.items():
        out[sname] = dict(kind=s.kind, generation=int(s.generation), run=onp.asarray(s.run).astype(int).tolist(), seq=onp.asarray(s.seq).astype(int).tolist(),
                          ts_start=onp.asarray(s.ts_start).astype(float).tolist(), ts_end=onp.asarray(s.ts_end).astype(float).tolist(),
                          windows={n: dict(seq=onp.asarray(w.seq).astype(int).tolist(), ts_sent=onp.asarray(w.ts_sent).astype(float).tolist(),
                                           ts_recv=onp.asarray(w.ts_recv).astype(float).tolist()) for n, w in s.windows.items()})
    return out


def graph_to_dict(g):
    """rex.base.Graph (stacked over episodes) -> plain dict"""
    import numpy as onp

    return dict(
        vertices={n: dict(seq=onp.asarray(v.seq).astype(int).tolist(), ts_start=onp.asarray(v.ts_start).astype(float).tolist(), ts_end=onp.asarray(v.ts_end).astype(float).tolist())
                  for n, v in g.vertices.items()},
        edges={f"{a}->{b}": dict(seq_out=onp.asarray(e.seq_out).astype(int).tolist(), seq_in=onp.asarray(e.seq_in).astype(int).tolist(), ts_recv=onp.asarray(e.ts_recv).astype(float).tolist())
               for (a, b), e in g.edges.items()},
    )


# ------------------------------------------------------------------------------------------------
# machine configuration for the Lean model (Driver "async.run")


def fb(x):
    import struct

    return {"b": struct.unpack("<Q", struct.pack("<d", float(x)))[0]}


def probe_draws(rng, n):
    """draw_k of the probe's rng chain: rng_{k+1}, rng_draw = split(rng_k); draw = randint(rng_draw, 0, 1000)"""
    import jax
    import jax.numpy as jnp
    import numpy as onp

    def body(r, _):
        new, rd = jax.random.split(r)
        return new, jax.random.randint(rd, (), 0, 1000, dtype=jnp.int32)

    _, ds = jax.lax.scan(body, rng, None, length=n)
    return [int(x) for x in onp.asarray(ds)]


def machine_cfg(run: AsyncRun, counts, user_steps, gs0=None, fuel=200000, policies=(0, 1, 7)):
    gs0 = gs0 or run.gs0
    spec = run.spec
    names = [nd["name"] for nd in spec["nodes"]]
    idx = {n: i for i, n in enumerate(names)}
    cid = {(c["src"], c["dst"]): k for k, c in enumerate(spec["conns"])}
    ds = delay_streams(run, n=max(200, max(counts.values()) + 60), gs0=gs0)
    nodes = []
    for nd in spec["nodes"]:
        node = run.nodes[nd["name"]]
        ins = [cid[(c.output_node.name, nd["name"])] for c in node.inputs.values()]
        assert [c.output_node.name for c in node.inputs.values()] == sorted(c.output_node.name for c in node.inputs.values())
        outs = [cid[(nd["name"], dst)] for dst in node.outputs.keys()]
        k = counts.get(nd["name"], 0) + 14
        nodes.append(dict(rate=fb(node.rate), phase=fb(float(node.phase)), advance=bool(node.advance), scheduling=1 if nd["scheduling"] == "PHASE" else 0,
                          inputs=ins, outputs=outs, comp=[fb(x) for x in ds["comp"][nd["name"]]], init_state=int(gs0.state[nd["name"]].s),
                          w=int(gs0.params[nd["name"]].w), draws=probe_draws(gs0.rng[nd["name"]], k + 5), max_ticks=k))
    conns = []
    for c in spec["conns"]:
        conn = run.nodes[c["dst"]].inputs[c["src"]]
        import numpy as onp

        conns.append(dict(src=idx[c["src"]], dst=idx[c["dst"]], blocking=bool(c["blocking"]), skip=bool(c["skip"]), jitter=1 if c["jitter"] == "BUFFER" else 0,
                          window=int(c["window"]), phase=fb(float(conn.phase)), rate_out=fb(conn.output_node.rate), comm=[fb(x) for x in ds["comm"][f"{c['src']}->{c['dst']}"]],
                          init_data=int(onp.asarray(gs0.inputs[c["dst"]][c["src"]].data.y)[0]), phase_node=fb(conn.input_node.phase), phase_in=fb(conn.output_node.phase),
                          rate_node=fb(conn.input_node.rate), rate_in=fb(conn.output_node.rate)))
    return dict(cmd="async.run", nodes=nodes, conns=conns, sup=idx[spec["supervisor"]], user_steps=int(user_steps), fuel=fuel, policies=list(policies))


def probe_recompute(rec, w):
    """Recompute every recorded step of a probe node from what the record says the step used (state before, input
    windows, rng, seq) -> (next_state, output) per row. rec: node record dict (with rng/state/inputs)."""
    import jax
    import jax.numpy as jnp
    import numpy as onp

    n = len(rec["state"])
    if n == 0:
        return [], []
    keys = jnp.asarray(onp.array(rec["rng"][:n], dtype=onp.uint32))
    draws = onp.asarray(jax.vmap(lambda k: jax.random.randint(jax.random.split(k)[1], (), 0, 1000, dtype=jnp.int32))(keys)).astype(int)
    ns, ys = [], []
    for i in range(n):
        acc = 0
        for idx, name in enumerate(sorted(rec.get("inputs", {}).keys())):
            win = rec["inputs"][name]
            for j, (d, q) in enumerate(zip(win["data"][i], win["seq"][i])):
                wt = (j + 1) * (idx + 1)
                acc += wt * (d % 1009) + 13 * wt * max(q, -1)
        s = (31 * rec["state"][i] + w * (acc % M) + int(draws[i]) + rec["seq"][i]) % M
        ns.append(s)
        ys.append((7 * s + rec["seq"][i]) % M)
    return ns, ys


# ------------------------------------------------------------------------------------------------
# schedule instances for the Lean checker (Driver "sched.check" / "sched.replay")


def _bits(x):
    import struct

    x = float(x)
    if x < 0:
        x = 0.0
    return struct.unpack("<Q", struct.pack("<d", x))[0]


def sched_instance(g, names, sup, prune, e):
    """One episode of a compiled rex.graph.Graph as an instance for Rex.Sched.checkSchedule."""
    import numpy as onp

    kid = {n: i for i, n in enumerate(names)}
    wg = g._windowed_graphs
    verts = []
    for n in names:
        v = wg.vertices[n]
        seqs = onp.asarray(v.seq)[e]
        srcs = sorted(v.windows.keys())
        for k, s in enumerate(seqs):
            if int(s) < 0:
                continue
            wins = [[kid[src], [int(x) for x in onp.asarray(v.windows[src].seq)[e][k]], [_bits(x) for x in onp.asarray(v.windows[src].ts_sent)[e][k]],
                     [_bits(x) for x in onp.asarray(v.windows[src].ts_recv)[e][k]]] for src in srcs]
            verts.append(dict(kind=kid[n], seq=int(s), ts_start=_bits(onp.asarray(v.ts_start)[e][k]), ts_end=_bits(onp.asarray(v.ts_end)[e][k]), wins=wins))
    cells = []
    slots = g.timings.slots
    gens = max(int(s.generation) for s in slots.values()) + 1
    P = None
    for si, (sname, s) in enumerate(slots.items()):
        run = onp.asarray(s.run)[e]
        P = len(run)
        srcs = sorted(s.windows.keys())
        for p in range(P):
            r = bool(run[p])
            wins = [[kid[src], [int(x) for x in onp.asarray(s.windows[src].seq)[e][p]], [_bits(x) for x in onp.asarray(s.windows[src].ts_sent)[e][p]],
                     [_bits(x) for x in onp.asarray(s.windows[src].ts_recv)[e][p]]] for src in srcs] if r else []
            cells.append(dict(slot=si, kind=kid[s.kind], gen=int(s.generation), part=p, run=r, seq=int(onp.asarray(s.seq)[e][p]) if r else -1,
                              ts_start=_bits(onp.asarray(s.ts_start)[e][p]) if r else 0, ts_end=_bits(onp.asarray(s.ts_end)[e][p]) if r else 0, wins=wins))
    return dict(sup=kid[sup], parts=P, gens=gens, prune=bool(prune), verts=verts, cells=cells)


def buffer_sizes_list(g, names, extra_padding=0, sizes=None):
    sizes = sizes if sizes is not None else g._buffer_sizes
    out = []
    for n in names:
        s = sizes.get(n, [])
        s = [s] if isinstance(s, int) else list(s)
        out.append(int(max(s) + extra_padding) if len(s) > 0 else max(1, extra_padding))
    return out


def rand_spec_equal_rates(rng):
    """all nodes at one rate, communication delays around one period: producers and consumers share generations and
    the automatically sized buffers are tight"""
    n = rng.randint(3, 4)
    rate = rng.choice([5, 10, 20])
    per = 1.0 / rate
    nodes = [dict(name=f"n{i}", rate=rate, comp=dict(kind="det", loc=round(rng.choice([0.05, 0.1, 0.2]) * per, 4), scale=0.0), advance=False, scheduling="FREQUENCY") for i in range(n)]
    sup_i = n - 1
    have = set()
    for i in range(n - 1):
        have.add((i, sup_i))
    for _ in range(rng.randint(1, 3)):
        i, j = rng.randrange(n - 1), rng.randrange(n - 1)
        if i != j:
            have.add((i, j))
            have.add((j, i))
    conns = []
    peers_same_tick = rng.random() < 0.6
    for (i, j) in sorted(have):
        if peers_same_tick and j != sup_i:
            # peers read each other through *skipped* connections with a short delay: all peers tick at k/rate, the message of tick k
            # is consumed at tick k+1, so producer and consumer steps share a generation and the buffers have size 1
            conns.append(dict(src=f"n{i}", dst=f"n{j}", blocking=False, skip=True, jitter="LATEST", window=1, comm=dict(kind="det", loc=round(0.3 * per, 4), scale=0.0)))
        else:
            conns.append(dict(src=f"n{i}", dst=f"n{j}", blocking=False, skip=bool(i > j), jitter="LATEST", window=rng.choice([1, 1, 2]),
                              comm=dict(kind="det", loc=round(rng.choice([0.85, 1.0, 1.15]) * per, 4) if not peers_same_tick else round(0.3 * per, 4), scale=0.0)))
    return dict(nodes=nodes, conns=conns, supervisor=f"n{sup_i}", seed=rng.randrange(1 << 30))


def rand_spec_high_ratio(rng):
    """a fast node against a slow supervisor: more than 10 slots of one kind per partition"""
    sup_rate = 2
    fast = rng.choice([30, 36])  # 15-18 slots of the fast kind per partition: slot names s<kind>_10.. sort before s<kind>_2
    nodes = [dict(name="n0", rate=fast, comp=dict(kind="det", loc=round(0.2 / fast, 4), scale=0.0), advance=False, scheduling="FREQUENCY"),
             dict(name="n1", rate=rng.choice([6, 12]), comp=dict(kind="det", loc=0.01, scale=0.0), advance=False, scheduling="FREQUENCY"),
             dict(name="n2", rate=sup_rate, comp=dict(kind="det", loc=0.01, scale=0.0), advance=False, scheduling="FREQUENCY")]
    conns = [dict(src="n0", dst="n1", blocking=False, skip=False, jitter="LATEST", window=rng.choice([1, 2, 3]), comm=dict(kind="det", loc=0.004, scale=0.0)),
             dict(src="n1", dst="n2", blocking=False, skip=False, jitter="LATEST", window=2, comm=dict(kind="det", loc=0.004, scale=0.0)),
             dict(src="n0", dst="n2", blocking=False, skip=False, jitter="LATEST", window=rng.choice([1, 4]), comm=dict(kind="det", loc=0.004, scale=0.0)),
             dict(src="n2", dst="n0", blocking=False, skip=True, jitter="LATEST", window=1, comm=dict(kind="det", loc=0.004, scale=0.0))]
    return dict(nodes=nodes, conns=conns, supervisor="n2", seed=rng.randrange(1 << 30))


def spec_fifo_blocking(rng):
    """a fast sender into a blocking connection whose communication delay jitters by more than the sender's period, so that later
    messages overtake earlier ones and the FIFO rule (receive time >= previous receive time) actually binds, whatever part of the
    arrival queue the receiver's side has already consumed"""
    r_src = rng.choice([16, 20, 25])
    r_dst = rng.choice([5, 8])
    per = 1.0 / r_src
    nodes = [dict(name="n0", rate=r_src, comp=dict(kind="det", loc=round(0.1 * per, 4), scale=0.0), advance=False, scheduling="FREQUENCY"),
             dict(name="n1", rate=r_dst, comp=dict(kind="det", loc=0.01, scale=0.0), advance=rng.random() < 0.5, scheduling="FREQUENCY")]
    conns = [dict(src="n0", dst="n1", blocking=True, skip=False, jitter="LATEST", window=rng.choice([1, 3]), comm=dict(kind="normal", loc=round(1.5 * per, 4), scale=round(1.5 * per, 4))),
             dict(src="n1", dst="n0", blocking=False, skip=True, jitter="LATEST", window=1, comm=dict(kind="det", loc=0.002, scale=0.0))]
    return dict(nodes=nodes, conns=conns, supervisor="n1", seed=rng.randrange(1 << 30))


def rand_spec_trainable(rng):
    """dyadic rates / delays (exact float32 ties between arrivals and step starts) and one or two non-blocking LATEST connections with a
    trainable (zero-order hold) delay created at its minimum: the recorded graph is at the minimal delay, the compiled windows are
    extended by ceil(rate_sender * (max - min)) entries and `apply_delay` cuts them back at run time"""
    spec = rand_spec(rng, tie_stream=True)
    cands = [c for c in spec["conns"] if not c["blocking"] and not c["skip"]]
    if not cands:
        c = rng.choice(spec["conns"])
        c["blocking"] = False
        cands = [c]
    rng.shuffle(cands)
    for c in cands[: rng.randint(1, 2)]:
        mn = rng.choice([0.0, 0.0625, 0.125])
        c["jitter"] = "LATEST"
        c["comm"] = dict(kind="trainable", min=mn, max=mn + rng.choice([0.0625, 0.1875, 0.25]), delay=mn, interp="zoh", loc=mn, scale=0.0)
    # advance=True needs at least one blocking input on the simulated clock (rex raises NotImplementedError otherwise): a connection
    # made non-blocking above may have been a node's last blocking input
    for nd in spec["nodes"]:
        if nd["advance"] and not any(c["dst"] == nd["name"] and c["blocking"] for c in spec["conns"]):
            nd["advance"] = False
    return spec


def spec_sink_tie(rng):
    """supervisor -> world -> logger where the logger is a sink (no path back to the supervisor) and every period, phase and delay is
    dyadic: with pruning off, logger steps end exactly when a supervisor step starts and must still be attached to that step"""
    if rng.random() < 0.5:
        # expected delays (phases) dyadic, actual delays small and not dyadic: every step starts on its phase grid; the sink's computation
        # delay (1/64) makes its steps end exactly on the supervisor's grid
        nodes = [dict(name="n0", rate=8, delay=0.0, comp=dict(kind="det", loc=0.01, scale=0.0), advance=False, scheduling="FREQUENCY"),
                 dict(name="n1", rate=16, delay=0.0, comp=dict(kind="det", loc=0.01, scale=0.0), advance=False, scheduling="FREQUENCY"),
                 dict(name="n2", rate=8, delay=0.0, comp=dict(kind="det", loc=0.015625, scale=0.0), advance=False, scheduling="FREQUENCY")]
        conns = [dict(src="n0", dst="n1", blocking=False, skip=False, jitter="LATEST", window=1, delay=0.03125, comm=dict(kind="det", loc=0.005, scale=0.0)),
                 dict(src="n1", dst="n0", blocking=False, skip=True, jitter="LATEST", window=2, delay=0.0, comm=dict(kind="det", loc=0.005, scale=0.0)),
                 dict(src="n1", dst="n2", blocking=False, skip=False, jitter="LATEST", window=1, delay=0.078125, comm=dict(kind="det", loc=0.005, scale=0.0))]
        return dict(nodes=nodes, conns=conns, supervisor="n0", seed=rng.randrange(1 << 30))
    r = rng.choice([4, 8])
    cd = rng.choice([0.015625, 0.03125])
    nodes = [dict(name="n0", rate=r, comp=dict(kind="det", loc=0.0, scale=0.0), advance=False, scheduling="FREQUENCY"),
             dict(name="n1", rate=2 * r, comp=dict(kind="det", loc=0.0, scale=0.0), advance=False, scheduling="FREQUENCY"),
             dict(name="n2", rate=r, comp=dict(kind="det", loc=cd, scale=0.0), advance=False, scheduling="FREQUENCY")]
    conns = [dict(src="n0", dst="n1", blocking=False, skip=False, jitter="LATEST", window=1, comm=dict(kind="det", loc=1.0 / (4 * r), scale=0.0)),
             dict(src="n1", dst="n0", blocking=False, skip=True, jitter="LATEST", window=2, comm=dict(kind="det", loc=0.0, scale=0.0)),
             dict(src="n1", dst="n2", blocking=False, skip=False, jitter="LATEST", window=1, comm=dict(kind="det", loc=1.0 / (2 * r) - cd + rng.choice([0.0, 1.0 / (4 * r)]), scale=0.0))]
    return dict(nodes=nodes, conns=conns, supervisor="n0", seed=rng.randrange(1 << 30))


def spec_raw_sinks(rng):
    """A computation graph written down directly (no recording): supervisor n0 in a loop with n1, and two sinks that no supervisor step
    depends on — n2 whose steps take longer than its period (one of them is still running when the last supervisor step of the horizon
    starts) and n3 which is slow for its first steps and fast afterwards (many short steps that start while n2's long step runs and end
    before the last supervisor step starts). With pruning off all of n3's finished steps are owed a slot. spec["raw"] holds the
    per-node piecewise durations and the horizon."""
    import math

    r = rng.choice([4, 5, 8])
    T = 1.0 / r
    m, P = rng.choice([(3, 10), (3, 11), (4, 13), (4, 12), (5, 14)])
    delta = rng.choice([0.2, 0.4, 0.6])
    long_d = (P - 1 + delta) * T / (m + 1)          # n2's step m starts before and ends after the start of supervisor step P-1 ...
    horizon = (P - 1) * T + 0.9 * T                 # ... and still ends within the horizon
    n_slow = min(P - 2, int(math.ceil(m * long_d / T)) + rng.choice([0, 1]))  # n3 turns fast while that step of n2 is running
    nodes = [dict(name="n0", rate=r, comp=dict(kind="det", loc=T / 16, scale=0.0), advance=False, scheduling="FREQUENCY"),
             dict(name="n1", rate=2 * r, comp=dict(kind="det", loc=3 * T / 16, scale=0.0), advance=False, scheduling="FREQUENCY"),
             dict(name="n2", rate=r / 2, comp=dict(kind="det", loc=long_d, scale=0.0), advance=False, scheduling="FREQUENCY"),
             dict(name="n3", rate=4 * r, comp=dict(kind="det", loc=T / 16, scale=0.0), advance=False, scheduling="FREQUENCY")]
    conns = [dict(src="n1", dst="n0", blocking=False, skip=False, jitter="LATEST", window=rng.choice([1, 2]), comm=dict(kind="det", loc=T / 16, scale=0.0)),
             dict(src="n0", dst="n1", blocking=False, skip=True, jitter="LATEST", window=1, comm=dict(kind="det", loc=T / 32, scale=0.0)),
             dict(src="n0", dst="n2", blocking=False, skip=False, jitter="LATEST", window=1, comm=dict(kind="det", loc=0.0, scale=0.0)),
             dict(src="n0", dst="n3", blocking=False, skip=False, jitter="LATEST", window=rng.choice([1, 2]), comm=dict(kind="det", loc=0.0, scale=0.0))]
    raw = dict(ts_max=horizon, durations={"n0": [[0, T / 16]], "n1": [[0, 3 * T / 16]], "n2": [[0, long_d]], "n3": [[0, T], [n_slow, T / 16]]})
    return dict(nodes=nodes, conns=conns, supervisor="n0", seed=rng.randrange(1 << 30), raw=raw)


def raw_graph_of(spec):
    """the computation graph of spec (with spec["raw"]) as a stacked rex.base.Graph of one episode: step k+1 of a node starts at
    max(end of step k, start of step k + period); message k of a connection arrives at max(end + delay, previous arrival) and is
    consumed by the first step of the receiver that starts at (skip: after) the arrival"""
    import numpy as onp
    from rex.base import Edge, Graph, Vertex

    raw = spec["raw"]
    verts = {}
    for nd in spec["nodes"]:
        pieces = raw["durations"][nd["name"]]
        seqs, t0s, t1s = [], [], []
        t, k = 0.0, 0
        while True:
            d = [x[1] for x in pieces if x[0] <= k][-1]
            te = t + d
            if te > raw["ts_max"]:
                break
            seqs.append(k)
            t0s.append(t)
            t1s.append(te)
            t = max(te, t + 1.0 / nd["rate"])
            k += 1
        verts[nd["name"]] = (onp.array(seqs, dtype=onp.int32), onp.array(t0s, dtype=onp.float32), onp.array(t1s, dtype=onp.float32))
    edges = {}
    for c in spec["conns"]:
        so, si, tr = [], [], []
        last = -onp.inf
        ts_in = verts[c["dst"]][1]
        for k in range(len(verts[c["src"]][0])):
            t_recv = max(float(verts[c["src"]][2][k]) + c["comm"]["loc"], last)
            last = t_recv
            cand = onp.nonzero(ts_in > t_recv if c["skip"] else ts_in >= t_recv)[0]
            so.append(k)
            si.append(int(cand[0]) if len(cand) else -1)
            tr.append(t_recv)
        edges[(c["src"], c["dst"])] = Edge(seq_out=onp.array(so, dtype=onp.int32), seq_in=onp.array(si, dtype=onp.int32), ts_recv=onp.array(tr, dtype=onp.float32))
    g = Graph(vertices={n: Vertex(seq=v[0], ts_start=v[1], ts_end=v[2]) for n, v in verts.items()}, edges=edges)
    return Graph.stack([g])


def truncate_graph(g, lens):
    """the recorded graph as it would be had node n recorded only lens[n][e] steps in episode e (how far a node other than the supervisor
    has got when an episode is stopped depends on the thread schedule): later vertices and every message from / to them become padding"""
    import numpy as onp
    from rex import base

    V = {}
    for n, v in g.vertices.items():
        seq, ts, te = onp.array(v.seq).copy(), onp.array(v.ts_start).copy(), onp.array(v.ts_end).copy()
        for e in range(seq.shape[0]):
            seq[e, lens[n][e]:] = -1
            ts[e, lens[n][e]:] = -1
            te[e, lens[n][e]:] = -1
        V[n] = base.Vertex(seq=seq, ts_start=ts, ts_end=te)
    E = {}
    for (a, b), ed in g.edges.items():
        so, si, tr = onp.array(ed.seq_out).copy(), onp.array(ed.seq_in).copy(), onp.array(ed.ts_recv).copy()
        for e in range(so.shape[0]):
            bad = (so[e] >= lens[a][e]) | (si[e] >= lens[b][e])
            so[e][bad] = -1
            si[e][bad] = -1
            tr[e][bad] = -1
        E[(a, b)] = base.Edge(seq_out=so, seq_in=si, ts_recv=tr)
    return base.Graph(vertices=V, edges=E)


def expected_windows(spec, graphs_raw, e):
    """Independent window oracle from the raw recorded graph: for vertex (dst, k) and input src the last W sequence numbers of
    [-1] * W ++ [seq_out of the edges src->dst with 0 <= seq_in <= k, in edge order], W = window + ceil(rate_src * (max - min)) for a
    trainable delay. Returns {(dst, src): {k: [seqs]}}."""
    import math

    import numpy as onp

    rates = {n["name"]: n["rate"] for n in spec["nodes"]}
    out = {}
    for c in spec["conns"]:
        W = c["window"]
        if c["comm"].get("kind") == "trainable":
            W += int(math.ceil(round(rates[c["src"]] * (c["comm"]["max"] - c["comm"]["min"]), 9)))
        ed = graphs_raw.edges[(c["src"], c["dst"])]
        so = onp.asarray(ed.seq_out)[e].astype(int).tolist()
        si = onp.asarray(ed.seq_in)[e].astype(int).tolist()
        nsteps = int((onp.asarray(graphs_raw.vertices[c["dst"]].seq)[e] >= 0).sum())
        pairs = [(a, b) for a, b in zip(so, si) if a >= 0 and b >= 0]
        res = {}
        for k in range(nsteps):
            cons = [a for a, b in pairs if b <= k]
            res[k] = ([-1] * W + cons)[-W:]
        out[(c["dst"], c["src"])] = res
    return out


def spec_tie_advance(rng):
    """X -> Y (twice the rate, advance=True, zero delays, blocking on X) -> Z: Y emits two outputs with *identical* timestamps
    that reach Z exactly at one of Z's step starts — the situation in which `push_expected_nonblocking` must wait for a
    message strictly in the future before it counts."""
    r = rng.choice([4, 8])
    d = 1.0 / (2 * r)
    nodes = [dict(name="n0", rate=r, comp=dict(kind="det", loc=0.0, scale=0.0), advance=False, scheduling="FREQUENCY"),
             dict(name="n1", rate=2 * r, comp=dict(kind="det", loc=0.0, scale=0.0), advance=True, scheduling="FREQUENCY"),
             dict(name="n2", rate=r, comp=dict(kind="det", loc=0.0, scale=0.0), advance=False, scheduling="FREQUENCY")]
    conns = [dict(src="n0", dst="n1", blocking=True, skip=False, jitter="LATEST", window=1, comm=dict(kind="det", loc=d, scale=0.0)),
             dict(src="n1", dst="n2", blocking=False, skip=False, jitter=rng.choice(["LATEST", "BUFFER"]), window=rng.choice([1, 2, 3]), comm=dict(kind="det", loc=d, scale=0.0)),
             dict(src="n2", dst="n0", blocking=False, skip=True, jitter="LATEST", window=1, comm=dict(kind="det", loc=d, scale=0.0))]
    return dict(nodes=nodes, conns=conns, supervisor="n2", seed=rng.randrange(1 << 30))
