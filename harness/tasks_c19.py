"""Worker-side functions for C19 (rex/rl.py wrappers): run the REAL wrappers over multi-step histories and evaluate the
property's own statements as monitors. Each function returns a JSON-serialisable dict:
    violations: [dict(key, desc, replay)]     property fails on the implementation
    cases:      [...]                          data for the model-vs-implementation comparison (done in props/c19.py)
    stats:      {...}                          input distribution
"""
import math
import os
import random
import sys

REPO = os.environ.get("REX_REPO", "/repo")
if REPO not in sys.path:
    sys.path.insert(0, REPO)

_G = {}


def _m():
    """lazy imports (jax + rex once per worker)"""
    if _G:
        return _G
    import jax
    import jax.numpy as jnp
    import numpy as onp
    from flax import struct
    from flax.core import FrozenDict

    import rex.rl as rl
    from rex import base

    @struct.dataclass
    class Sys(base.Base):
        x: jax.Array

    class FakeEnv:
        """A small deterministic inner environment over a real rex GraphState (duck-typed like rl.Environment).
        action = [reward, terminate-flag, truncate-flag, u_0 .. u_{d-1}];  x' = 0.5 x + u;  obs = [x', 0.1 k].
        The action that reaches this environment is recorded in gs.aux['applied'] (aux survives auto-resets)."""

        def __init__(self, low, high, d, off=None):
            self.low = jnp.asarray(low, dtype=jnp.float32)
            self.high = jnp.asarray(high, dtype=jnp.float32)
            self.d = d
            self.off = off  # optional extra observation feature off + 0.5 tanh(x_0): a large offset with a small spread
            self.params = {}  # read by AutoResetWrapper(fixed_init=False)
            self.max_steps = 10_000

        def action_space(self, gs):
            return rl.Box(self.low, self.high)

        def observation_space(self, gs):
            n = self.d + 1 + (0 if self.off is None else 1)
            return rl.Box(-jnp.ones(n) * 1e4, jnp.ones(n) * 1e4)

        def _obs(self, x, k):
            o = jnp.concatenate([x, jnp.asarray([0.1], dtype=jnp.float32) * k])
            if self.off is not None:
                o = jnp.concatenate([o, jnp.float32(self.off) + 0.5 * jnp.tanh(x[:1])])
            return o

        def reset(self, rng=None):
            rng = jax.random.PRNGKey(0) if rng is None else rng
            keep, init = jax.random.split(rng)
            x0 = jax.random.uniform(init, (self.d,), minval=-1.0, maxval=1.0)
            gs = base.GraphState(
                step=jnp.int32(0),
                eps=jnp.int32(0),
                rng=FrozenDict({"sys": keep}),
                seq=FrozenDict({"sys": jnp.int32(0)}),
                ts=FrozenDict({"sys": jnp.float32(0.0)}),
                state=FrozenDict({"sys": Sys(x=x0)}),
                aux=FrozenDict({"applied": jnp.zeros_like(self.low)}),
            )
            return gs, self._obs(x0, 0), {"k": jnp.int32(0)}

        def step(self, gs, action):
            x = gs.state["sys"].x
            k = gs.seq["sys"] + 1
            x2 = 0.5 * x + action[3 : 3 + self.d]
            gs2 = gs.replace(step=gs.step + 1, seq=FrozenDict({"sys": k}), ts=FrozenDict({"sys": gs.ts["sys"] + 0.1}), state=FrozenDict({"sys": Sys(x=x2)}))
            gs2 = gs2.replace_aux({"applied": action})
            return gs2, self._obs(x2, k), action[0], action[1] > 0.5, action[2] > 0.5, {"k": k}

    _G.update(jax=jax, jnp=jnp, onp=onp, struct=struct, FrozenDict=FrozenDict, rl=rl, base=base, Sys=Sys, FakeEnv=FakeEnv)
    return _G


# ------------------------------------------------------------------------------------------------ helpers


def _f(x):
    return float(_m()["onp"].asarray(x))


def _fl(x):
    return [float(v) for v in _m()["onp"].asarray(x, dtype="float64").reshape(-1)]


def _close(a, b, rtol=1e-5, atol=1e-5):
    onp = _m()["onp"]
    a, b = onp.asarray(a, dtype="float64"), onp.asarray(b, dtype="float64")
    if a.shape != b.shape:
        return False
    with onp.errstate(invalid="ignore"):
        ok = (onp.abs(a - b) <= atol + rtol * onp.maximum(onp.abs(a), onp.abs(b))) | (a == b) | (onp.isnan(a) & onp.isnan(b))
    return bool(onp.all(ok))


def _tree_diff(a, b, rtol=1e-5, atol=1e-5):
    """first differing leaf (path, a, b) of two pytrees, or None. Integer / key leaves are compared exactly."""
    jax, onp = _m()["jax"], _m()["onp"]
    la, ta = jax.tree_util.tree_flatten_with_path(a)
    lb, tb = jax.tree_util.tree_flatten_with_path(b)
    if ta != tb:
        return ("<structure>", str(ta)[:200], str(tb)[:200])
    for (pa, va), (_, vb) in zip(la, lb):
        va, vb = onp.asarray(va), onp.asarray(vb)
        if va.shape != vb.shape:
            return (jax.tree_util.keystr(pa), f"shape {va.shape}", f"shape {vb.shape}")
        if onp.issubdtype(va.dtype, onp.floating):
            if not _close(va, vb, rtol, atol):
                return (jax.tree_util.keystr(pa), va.tolist(), vb.tolist())
        elif not onp.array_equal(va, vb):
            return (jax.tree_util.keystr(pa), va.tolist(), vb.tolist())
    return None


def _no_aux(gs, keep=()):
    FrozenDict = _m()["FrozenDict"]
    return gs.replace(aux=FrozenDict({k: v for k, v in gs.aux.items() if k in keep}))


def build_stack(env, layers, gamma=0.99):
    """layers: inner -> outer"""
    rl = _m()["rl"]
    for l in layers:
        if l == "autoreset_fixed":
            env = rl.AutoResetWrapper(env, fixed_init=True)
        elif l == "autoreset_fresh":
            env = rl.AutoResetWrapper(env, fixed_init=False)
        elif l == "log":
            env = rl.LogWrapper(env)
        elif l == "squash":
            env = rl.SquashActionWrapper(env, squash=True)
        elif l == "nosquash":
            env = rl.SquashActionWrapper(env, squash=False)
        elif l == "clip":
            env = rl.ClipActionWrapper(env)
        elif l == "vec":
            env = rl.VecEnvWrapper(env)
        elif l == "normobs":
            env = rl.NormalizeVecObservationWrapper(env)
        elif l == "normrew":
            env = rl.NormalizeVecReward(env, gamma)
        else:
            raise ValueError(l)
    return env


def ref_chain(layers, z, low, high):
    """The action that must reach the innermost environment (float64 reference of the statement): layers are applied from the
    outermost inwards; `squash` -> tanh into [low, high], `nosquash` / `clip` -> clip to the action space seen by that layer."""
    onp = _m()["onp"]
    z = onp.asarray(z, dtype="float64")
    low, high = onp.asarray(low, dtype="float64"), onp.asarray(high, dtype="float64")
    for i in range(len(layers) - 1, -1, -1):
        l = layers[i]
        if l == "squash":
            with onp.errstate(over="ignore"):
                z = 0.5 * (onp.tanh(z) + 1.0) * (high - low) + low
        elif l == "nosquash":
            z = onp.clip(z, low, high)
        elif l == "clip":
            if "squash" in layers[:i]:  # the action space of a squashing wrapper further inside is [-1, 1]
                z = onp.clip(z, -1.0, 1.0)
            else:
                z = onp.clip(z, low, high)
    return z


def rand_layers(rnd):
    ar = rnd.choices(["none", "autoreset_fixed", "autoreset_fresh"], [0.12, 0.5, 0.38])[0]
    core = ([] if ar == "none" else [ar]) + (["log"] if rnd.random() < 0.88 else [])
    acts = rnd.choices([[], ["squash"], ["nosquash"], ["clip"], ["squash", "clip"], ["clip", "squash"], ["nosquash", "clip"]], [0.1, 0.3, 0.22, 0.1, 0.1, 0.08, 0.1])[0]
    layers = list(core)
    for a in acts:  # insert each action layer at a random depth, keeping the relative order of the action layers
        lo = max([layers.index(x) + 1 for x in acts[: acts.index(a)] if x in layers] or [0])
        layers.insert(rnd.randint(lo, len(layers)), a)
    return layers


def rand_bounds(rnd, adim):
    low, high = [], []
    for i in range(adim):
        if i in (1, 2):
            low.append(0.0)
            high.append(1.0)
        else:
            lo = rnd.choice([-1.0, -2.0, 0.0, round(rnd.uniform(-5, 1), 3)])
            low.append(lo)
            high.append(lo + rnd.choice([1.0, 2.0, 4.0, round(rnd.uniform(0.5, 8), 3)]))
    return low, high


def rand_history(rnd, adim, T, extremes, maxlen=12):
    """policy outputs z_t; coordinates 1/2 are +-3 (robustly beyond the 0.5 threshold through every action layer)"""
    hist, meta = [], []
    mode = rnd.choice(["dense", "dense", "dense", "terminal_only", "mixed"])
    while len(hist) < T:
        L = rnd.choice([x for x in [1, 1, 2, 2, 3, 4, 5, 7, 9, 12] if x <= maxlen])
        kind = rnd.choice(["term", "trunc", "both", "term", "trunc"])
        for i in range(L):
            last = i == L - 1
            z = [0.0] * adim
            for j in range(adim):
                if j in (1, 2):
                    continue
                r = rnd.random()
                if extremes and r < 0.12:
                    z[j] = rnd.choice([40.0, -40.0, 1e6, -1e6, 3e38, -3e38, math.inf, -math.inf])
                elif r < 0.2:
                    z[j] = 0.0
                else:
                    z[j] = rnd.gauss(0, 1.2)
            if mode == "terminal_only" and not last:
                z[0] = 0.0
            z[1] = 3.0 if last and kind in ("term", "both") else -3.0
            z[2] = 3.0 if last and kind in ("trunc", "both") else -3.0
            hist.append(z)
            meta.append(kind if last else "")
    return hist[:T], mode


# ------------------------------------------------------------------------------------------------ scalar histories


class _Mon:
    def __init__(self, ctxdesc, replay):
        self.v = []
        self.ctxdesc, self.replay = ctxdesc, replay

    def fail(self, key, msg, **kw):
        if len(self.v) < 6:
            self.v.append(dict(key=key, desc=f"{msg} | {self.ctxdesc}", replay=dict(self.replay, **kw)))


def run_scalar_history(inner, layers, zs, low, high, rng_seed, use_jit, mon, applied_key="applied", fresh_names=("sys",), env=None, step_fn=None):
    """Run the wrapped environment over the history of policy outputs `zs` and check, step by step:
      M1 log accounting, M2 auto-reset / pass-through, M3 actions reaching the inner environment.
    `inner` is the innermost environment (shadow-stepped here with the action that actually reached it)."""
    g = _m()
    jax, jnp, onp = g["jax"], g["jnp"], g["onp"]
    env = env if env is not None else build_stack(inner, layers)
    key = jax.random.PRNGKey(rng_seed)
    gs, obs, info = env.reset(key)
    gs0_i, obs0_i, info0_i = inner.reset(key)  # what the innermost reset produced (deterministic in the key)
    d = _tree_diff(obs, obs0_i)
    if d:
        mon.fail("reset_obs", f"wrapper reset observation differs from the inner reset observation: {d}")
    step = step_fn or (jax.jit(env.step) if use_jit else env.step)
    has_ar = "autoreset_fixed" in layers or "autoreset_fresh" in layers
    fixed = "autoreset_fixed" in layers
    has_log = "log" in layers
    act_layers = [l for l in layers if l in ("squash", "nosquash", "clip")]
    bounded = bool(act_layers)
    lo64, hi64 = onp.asarray(low, dtype="float64"), onp.asarray(high, dtype="float64")
    tolb = 1e-5 * onp.maximum(1.0, onp.maximum(onp.abs(lo64), onp.abs(hi64)))
    shadow = gs0_i
    acc_r, acc_n, last_ret, last_len, n_ends = 0.0, 0, 0.0, 0, 0
    rewards, terms, truncs, infos, applied_l, tokens = [], [], [], [], [], []
    for t, z in enumerate(zs):
        za = jnp.asarray(z, dtype=jnp.float32)
        gs, obs, r, te, tr, info = step(gs, za)
        r_w, te_w, tr_w = _f(r), bool(te), bool(tr)
        done_w = te_w or tr_w
        # ---- M3: the action that reached the inner environment
        a_act = onp.asarray(gs.aux[applied_key], dtype="float64")
        a_ref = ref_chain(layers, onp.asarray(za, dtype="float64"), lo64, hi64)
        applied_l.append(_fl(a_act))
        if bounded and not (onp.all(onp.isfinite(a_act)) and onp.all(a_act >= lo64 - tolb) and onp.all(a_act <= hi64 + tolb)):
            mon.fail("action_out_of_bounds", f"step {t}: policy output {_fl(za)} reaches the inner environment as {_fl(a_act)}, outside the action bounds low={low} high={high} (layers {layers})", step=t, z=_fl(za))
        if not _close(a_act, a_ref, 2e-5, 2e-5 * float(onp.max(onp.maximum(1.0, hi64 - lo64)))):
            mon.fail("action_transform", f"step {t}: policy output {_fl(za)} reaches the inner environment as {_fl(a_act)}, expected {_fl(a_ref)} (layers {layers}, low={low}, high={high})", step=t, z=_fl(za))
        # ---- shadow step of the inner environment with the action that actually reached it
        g_i, o_i, r_i, te_i, tr_i, info_i = inner.step(shadow, jnp.asarray(a_act, dtype=jnp.float32))
        done_i = bool(te_i) or bool(tr_i)
        # ---- M2: reward and flags always describe the inner step
        if not _close(r_w, _f(r_i), 1e-5, 1e-6) or te_w != bool(te_i) or tr_w != bool(tr_i):
            mon.fail("reward_flags", f"step {t}: wrapper returned (reward, terminated, truncated)=({r_w}, {te_w}, {tr_w}) but the inner step gave ({_f(r_i)}, {bool(te_i)}, {bool(tr_i)})", step=t)
        if has_ar and not fixed:
            # fresh mode: rng of the first non-preset node is split; one half continues, the other seeds the reset
            name = fresh_names[0]
            new_rng, rng_init = jax.random.split(g_i.rng[name])
        if has_ar and done_i:
            if fixed:
                e_gs = gs0_i.replace(rng=g_i.rng)
                e_obs, e_info = obs0_i, info0_i
            else:
                e_gs, e_obs, e_info = inner.reset(rng_init)
            what = "initial"
        else:
            e_gs = g_i if (fixed or not has_ar) else g_i.replace(rng=g_i.rng.copy({name: new_rng}))
            e_obs, e_info = o_i, info_i
            what = "passed-through"
        dg = _tree_diff(_no_aux(gs), _no_aux(e_gs))
        do = _tree_diff(obs, e_obs)
        di = _tree_diff({k: info[k] for k in e_info}, e_info) if all(k in info for k in e_info) else ("<info keys>", sorted(info), sorted(e_info))
        if dg or do or di:
            kind = "autoreset" if (has_ar and done_i) else "pass_through"
            mon.fail(kind, f"step {t} (inner done={done_i}): expected the {what} state/observation/info; graph_state diff={dg} obs diff={do} info diff={di} (layers {layers})", step=t)
        # token view of the selection for the model comparison: inner = (1,2,..), init = (4,5,6)
        if has_ar and _tree_diff(o_i, obs0_i if fixed else e_obs) is not None:
            sel_init = _tree_diff(obs, o_i) is not None
            tokens.append([1, 2, 7, bool(te_i), bool(tr_i), 3, 4, 5, 6, sel_init])
        shadow = e_gs
        # ---- M1: log accounting
        acc_r += r_w
        acc_n += 1
        if has_log:
            ret, ln, ts, fl = _f(info["returned_episode_returns"]), int(info["returned_episode_lengths"]), int(info["timestep"]), bool(info["returned_episode"])
            infos.append([ret, ln, ts, fl])
            if fl != done_w:
                mon.fail("log_flag", f"step {t}: info['returned_episode']={fl} but done={done_w}", step=t)
            if ts != t + 1:
                mon.fail("log_timestep", f"step {t}: info['timestep']={ts}, expected {t + 1}", step=t)
            if done_w:
                if not _close(ret, acc_r, 1e-5, 1e-4) or ln != acc_n:
                    mon.fail("log_accounting", f"episode #{n_ends + 1} ended at step {t}: LogWrapper reports return={ret}, length={ln}; sum of rewards since the previous end={acc_r}, steps={acc_n}; "
                             f"rewards so far={[round(x, 5) for x in rewards + [r_w]]} done flags={[a or b for a, b in zip(terms + [te_w], truncs + [tr_w])]}", step=t)
                last_ret, last_len = ret, ln
            elif not _close(ret, last_ret, 0, 0) or ln != last_len:
                mon.fail("log_between", f"step {t} (not an episode end): reported return/length changed to {ret}/{ln} from {last_ret}/{last_len}", step=t)
        if done_w:
            acc_r, acc_n, n_ends = 0.0, 0, n_ends + 1
        rewards.append(r_w)
        terms.append(te_w)
        truncs.append(tr_w)
    return dict(rewards=rewards, term=terms, trunc=truncs, infos=infos, applied=applied_l, ends=n_ends, tokens=tokens)


def scalar_histories(seed, n, search=False):
    """n random (stacking, bounds, history) cases over the fake inner environment."""
    g = _m()
    rnd = random.Random(f"c19-scalar-{seed}")
    out = dict(violations=[], cases=[], stats={})

    def cnt(k):
        out["stats"][k] = out["stats"].get(k, 0) + 1

    per_cfg = 3
    cfg = None
    for case in range(n):
        if case % per_cfg == 0:
            layers = rand_layers(rnd)
            d = rnd.choice([1, 2, 3])
            adim = 3 + d
            low, high = rand_bounds(rnd, adim)
            bounded = any(l in ("squash", "nosquash", "clip") for l in layers)
            inner = g["FakeEnv"](low, high, d)
            env = build_stack(inner, layers)
            jstep = g["jax"].jit(env.step)
        T = rnd.randint(8, 60 if search else 36)
        zs, mode = rand_history(rnd, adim, T, extremes=bounded)
        use_jit = rnd.random() < 0.85
        rng_seed = rnd.randint(0, 2**20)
        replay = dict(fn="tasks_c19:scalar_histories", seed=seed, n=n, search=search, case=case, layers=layers, low=low, high=high, rng_seed=rng_seed, jit=use_jit, zs=zs)
        mon = _Mon(f"layers(inner->outer)={layers} low={low} high={high} T={T} jit={use_jit}", replay)
        try:
            res = run_scalar_history(inner, layers, zs, low, high, rng_seed, use_jit, mon, env=env, step_fn=jstep if use_jit else env.step)
        except Exception as ex:  # the implementation raised on a valid input
            import traceback

            mon.fail("exception", f"{type(ex).__name__}: {str(ex)[:300]} :: {traceback.format_exc()[-600:]}")
            res = None
        out["violations"] += mon.v
        cnt("scalar_cases")
        cnt("layers=" + "+".join(layers))
        cnt(f"reward_mode={mode}")
        cnt("jit" if use_jit else "eager")
        if res is not None:
            cnt(f"episode_ends={'0' if res['ends'] == 0 else '1' if res['ends'] == 1 else '2-4' if res['ends'] <= 4 else '5+'}")
            out["cases"].append(dict(kind="scalar", layers=layers, low=low, high=high, zs=zs, **res))
    return out


# ------------------------------------------------------------------------------------------------ vector histories


def run_vector_history(inner_factory, inner_layers, norm_layers, B, zs_batch, low, high, rng_seed, gamma, mon, cache=None):
    """Vec + NormalizeVecObservation / NormalizeVecReward on top of a scalar stack. The stack without the normalisers is run in
    lock-step as the source of the raw observations / rewards; monitors:
      M5 statistics = exact moments (with the 1e-4 prior) of everything seen so far; outputs normalised with the updated
         statistics; everything else passes through unchanged."""
    g = _m()
    jax, jnp, onp = g["jax"], g["jnp"], g["onp"]
    if cache is not None and "c" in cache:
        raw_env, env, step, rstep = cache["c"]
    else:
        raw_env = build_stack(inner_factory(), inner_layers + ["vec"])
        env = build_stack(inner_factory(), inner_layers + ["vec"] + norm_layers, gamma=gamma)
        step, rstep = jax.jit(env.step), jax.jit(raw_env.step)
        if cache is not None:
            cache["c"] = (raw_env, env, step, rstep)
    keys = jax.random.split(jax.random.PRNGKey(rng_seed), B)
    gs, obs, info = env.reset(keys)
    rgs, robs, rinfo = raw_env.reset(keys)
    has_o, has_r = "normobs" in norm_layers, "normrew" in norm_layers
    C0 = 1e-4
    robs64 = onp.asarray(robs, dtype="float64")
    nfeat = robs64.shape[1]
    S1, S2, N = robs64.sum(0), (robs64**2).sum(0), B
    obs_batches = [robs64.tolist()]
    stats_o, outs_o, stats_r, outs_r, rv_l = [], [], [], [], []
    rv = onp.zeros(B)
    R1, R2, RN = 0.0, 0.0, 0
    rew_l, te_l, tr_l = [], [], []

    def check_obs(tag, gs_, obs_, raw):
        ns = gs_.aux["norm_obs"]
        mean, var, count = onp.asarray(ns.mean, dtype="float64"), onp.asarray(ns.var, dtype="float64"), float(ns.count)
        e_count = C0 + N
        e_mean = S1 / e_count
        e_var = (C0 + S2) / e_count - e_mean**2
        # float32 tolerance of an exact-moment algorithm: relative to the variance itself, plus a term far below float32's epsilon times
        # the mean square (a two-pass / Welford-style update loses nothing to a large offset; E[x^2] - E[x]^2 in float32 would)
        tolv = 2e-4 * (1.0 + onp.abs(e_var)) + 1e-4 + 2e-9 * (S2 / e_count)
        if abs(count - e_count) > 1e-3 or not _close(mean, e_mean, 1e-4, 1e-4) or not bool(onp.all(onp.abs(var - e_var) <= tolv)):
            mon.fail("obs_moments", f"{tag}: running observation statistics count={count} mean={mean.tolist()} var={var.tolist()} but the exact moments of the {N} observations per feature seen so far "
                     f"(prior: weight 1e-4, mean 0, var 1) are count={e_count} mean={e_mean.tolist()} var={e_var.tolist()}; batches so far (feature 0)={[[round(r[0], 4) for r in b] for b in obs_batches][:6]}", tag=tag)
        e_out = onp.clip((raw - mean) / onp.sqrt(var + 1e-8), -10.0, 10.0)
        if not _close(onp.asarray(obs_, dtype="float64"), e_out, 2e-4, 2e-4):
            mon.fail("obs_normalised", f"{tag}: returned observation {onp.asarray(obs_).tolist()} is not clip((raw - mean)/sqrt(var + 1e-8), +-10) = {e_out.tolist()} for raw={raw.tolist()}", tag=tag)
        stats_o.append(dict(mean=mean.tolist(), var=var.tolist(), count=count))
        outs_o.append(onp.asarray(obs_, dtype="float64").tolist())

    if has_o:
        check_obs("reset", gs, obs, robs64)
    else:
        if _tree_diff(obs, robs):
            mon.fail("pass_through", "reset: observation changed although no observation normaliser is stacked")
    n_ends = 0
    for t, zb in enumerate(zs_batch):
        za = jnp.asarray(zb, dtype=jnp.float32)
        gs, obs, r, te, tr, info = step(gs, za)
        rgs, robs, rr, rte, rtr, rinfo = rstep(rgs, za)
        raw = onp.asarray(robs, dtype="float64")
        rr64 = onp.asarray(rr, dtype="float64")
        done = onp.logical_or(onp.asarray(rte), onp.asarray(rtr))
        n_ends += int(done.sum())
        obs_batches.append(raw.tolist())
        S1, S2, N = S1 + raw.sum(0), S2 + (raw**2).sum(0), N + B
        rew_l.append(rr64.tolist())
        te_l.append([bool(x) for x in onp.asarray(rte)])
        tr_l.append([bool(x) for x in onp.asarray(rtr)])
        # pass-through of everything the normalisers do not own
        dg = _tree_diff(_no_aux(gs, keep=[k for k in gs.aux if k not in ("norm_obs", "norm_reward")]), _no_aux(rgs, keep=list(rgs.aux)), 1e-5, 1e-5)
        dfl = (onp.asarray(te).tolist(), onp.asarray(tr).tolist()) != (onp.asarray(rte).tolist(), onp.asarray(rtr).tolist())
        di = _tree_diff(dict(info), dict(rinfo), 1e-5, 1e-5)
        if dg or dfl or di:
            mon.fail("pass_through", f"step {t}: normalising wrappers changed more than observation/reward: graph_state diff={dg} flags differ={dfl} info diff={di}", step=t)
        if has_o:
            check_obs(f"step {t}", gs, obs, raw)
        elif _tree_diff(obs, robs):
            mon.fail("pass_through", f"step {t}: observation changed although no observation normaliser is stacked", step=t)
        if has_r:
            rv = rv * gamma * (1.0 - done.astype("float64")) + rr64
            R1, R2, RN = R1 + rv.sum(), R2 + (rv**2).sum(), RN + B
            ns = gs.aux["norm_reward"]
            mean, var, count = float(ns.mean), float(ns.var), float(ns.count)
            e_count = C0 + RN
            e_mean = R1 / e_count
            e_var = (C0 + R2) / e_count - e_mean**2
            scale = 1.0 + R2 / e_count
            if not _close(onp.asarray(ns.return_val, dtype="float64"), rv, 1e-4, 1e-4):
                mon.fail("return_val", f"step {t}: discounted-return accumulators {onp.asarray(ns.return_val).tolist()}, expected {rv.tolist()} (gamma={gamma}, rewards={rr64.tolist()}, done={done.tolist()})", step=t)
            if abs(count - e_count) > 1e-3 or not _close(mean, e_mean, 1e-4, 1e-4) or abs(var - e_var) > 2e-4 * scale:
                mon.fail("rew_moments", f"step {t}: running return statistics count={count} mean={mean} var={var} but the exact moments of the {RN} accumulator values seen so far "
                         f"(prior: weight 1e-4, mean 0, var 1) are count={e_count} mean={e_mean} var={e_var}; B={B} rewards={[[round(x, 4) for x in b] for b in rew_l][:6]}", step=t)
            e_out = onp.clip(rr64 / math.sqrt(var + 1e-8), -10.0, 10.0)
            if not _close(onp.asarray(r, dtype="float64"), e_out, 2e-4, 2e-4):
                mon.fail("rew_normalised", f"step {t}: returned reward {onp.asarray(r).tolist()} is not clip(raw/sqrt(var + 1e-8), +-10) = {e_out.tolist()} for raw={rr64.tolist()}", step=t)
            stats_r.append(dict(mean=mean, var=var, count=count))
            outs_r.append(onp.asarray(r, dtype="float64").tolist())
            rv_l.append(onp.asarray(ns.return_val, dtype="float64").tolist())
        elif not _close(onp.asarray(r), rr64, 1e-6, 1e-6):
            mon.fail("pass_through", f"step {t}: reward changed although no reward normaliser is stacked", step=t)
    return dict(B=B, gamma=gamma, nfeat=nfeat, obs_batches=obs_batches, stats_o=stats_o, outs_o=outs_o, rewards=rew_l, term=te_l, trunc=tr_l, stats_r=stats_r, outs_r=outs_r,
                rv=rv_l, ends=n_ends, has_o=has_o, has_r=has_r)


def vector_histories(seed, n, search=False):
    g = _m()
    rnd = random.Random(f"c19-vector-{seed}")
    out = dict(violations=[], cases=[], stats={})

    def cnt(k):
        out["stats"][k] = out["stats"].get(k, 0) + 1

    for case in range(n):
        if case % 2 == 0:  # two histories per configuration (one compilation)
            cache = {}
            ppo = rnd.random() < 0.6
            if ppo:  # the stacking used by rex.ppo.train
                inner_layers = [rnd.choice(["autoreset_fixed", "autoreset_fixed", "autoreset_fresh"]), "log", rnd.choice(["squash", "squash", "nosquash"])]
                norm_layers = ["normobs", "normrew"]
            else:
                inner_layers = [l for l in rand_layers(rnd)]
                norm_layers = rnd.choice([["normobs"], ["normrew"], ["normrew", "normobs"], ["normobs", "normrew"]])
            B = rnd.choice([1, 2, 2, 3, 4, 5, 8])
            d = rnd.choice([1, 2])
            adim = 3 + d
            low, high = rand_bounds(rnd, adim)
            bounded = any(l in ("squash", "nosquash", "clip") for l in inner_layers)
            gamma = rnd.choice([0.99, 0.9, 0.5, 1.0])
            off = rnd.choice([None, None, 300.0, 3000.0]) if "normobs" in norm_layers else None
        T = rnd.randint(6, 40 if search else 24)
        per_env = [rand_history(rnd, adim, T, extremes=bounded)[0] for _ in range(B)]
        zs_batch = [[per_env[b][t] for b in range(B)] for t in range(T)]
        rng_seed = rnd.randint(0, 2**20)
        replay = dict(fn="tasks_c19:vector_histories", seed=seed, n=n, search=search, case=case, inner_layers=inner_layers, norm_layers=norm_layers, B=B, low=low, high=high, gamma=gamma, rng_seed=rng_seed, zs=zs_batch, obs_offset=off)
        mon = _Mon(f"layers(inner->outer)={inner_layers + ['vec'] + norm_layers} B={B} low={low} high={high} gamma={gamma} T={T} offset feature={off}", replay)
        if off is not None:
            cnt("offset_feature")
        try:
            res = run_vector_history(lambda: g["FakeEnv"](low, high, d, off), inner_layers, norm_layers, B, zs_batch, low, high, rng_seed, gamma, mon, cache=cache)
        except Exception as ex:
            import traceback

            mon.fail("exception", f"{type(ex).__name__}: {str(ex)[:300]} :: {traceback.format_exc()[-600:]}")
            res = None
        out["violations"] += mon.v
        cnt("vector_cases")
        cnt(f"B={B}")
        cnt("norm=" + "+".join(norm_layers))
        cnt("ppo_stacking" if ppo else "other_stacking")
        if res is not None:
            cnt(f"vec_episode_ends={'<2' if res['ends'] < 2 else '2+'}")
            out["cases"].append(dict(kind="vector", layers=inner_layers + ["vec"] + norm_layers, **res))
    return out


# ------------------------------------------------------------------------------------------------ pure functions


def pure_functions(seed, n):
    """SquashState.scale / unsquash and NormalizeVec.normalize / denormalize called directly on random and extreme values."""
    g = _m()
    jnp, onp, rl = g["jnp"], g["onp"], g["rl"]
    rnd = random.Random(f"c19-pure-{seed}")
    out = dict(violations=[], cases=[], stats={})

    def cnt(k, m=1):
        out["stats"][k] = out["stats"].get(k, 0) + m

    def fail(key, desc, **kw):
        if len(out["violations"]) < 8:
            out["violations"].append(dict(key=key, desc=desc, replay=dict(fn="tasks_c19:pure_functions", seed=seed, n=n, **kw)))

    for case in range(n):
        k = rnd.randint(1, 6)
        low = [rnd.choice([-1.0, 0.0, -2.5, round(rnd.uniform(-50, 50), 3)]) for _ in range(k)]
        high = [l + rnd.choice([1.0, 2.0, 0.001, round(rnd.uniform(0.01, 100), 3)]) for l in low]
        lo32, hi32 = jnp.asarray(low, dtype=jnp.float32), jnp.asarray(high, dtype=jnp.float32)
        lo, hi = onp.asarray(lo32, dtype="float64"), onp.asarray(hi32, dtype="float64")
        tol = 1e-5 * onp.maximum(1.0, onp.maximum(onp.abs(lo), onp.abs(hi)))
        for squash in (True, False):
            S = rl.SquashState(low=lo32, high=hi32, squash=squash)
            xs = [rnd.choice([0.0, 1.0, -1.0, 9.0, -9.0, 40.0, -40.0, 1e6, -1e6, 3e38, -3e38, math.inf, -math.inf, rnd.gauss(0, 2), rnd.gauss(0, 2), rnd.gauss(0, 2), rnd.uniform(-60, 60)]) for _ in range(k)]
            x32 = jnp.asarray(xs, dtype=jnp.float32)
            u = onp.asarray(S.unsquash(x32), dtype="float64")
            cnt("unsquash_values", k)
            if not (onp.all(onp.isfinite(u)) and onp.all(u >= lo - tol) and onp.all(u <= hi + tol)):
                fail("action_out_of_bounds", f"SquashState(low={low}, high={high}, squash={squash}).unsquash({xs}) = {u.tolist()} is outside the bounds", low=low, high=high, squash=squash, x=xs)
            e = ref_chain(["squash" if squash else "nosquash"], onp.asarray(x32, dtype="float64"), lo, hi)
            if not _close(u, e, 2e-5, 2e-5 * float(onp.max(hi - lo))):
                fail("action_transform", f"SquashState(low={low}, high={high}, squash={squash}).unsquash({xs}) = {u.tolist()}, expected {e.tolist()}", low=low, high=high, squash=squash, x=xs)
            out["cases"].append(dict(kind="squash", squash=squash, xs=_fl(x32), lows=_fl(lo32), highs=_fl(hi32), unsquash=u.tolist()))
            # inverses strictly inside the bounds
            frac = onp.asarray([rnd.uniform(0.03, 0.97) for _ in range(k)])
            y = (lo + frac * (hi - lo)).astype("float32")
            back = onp.asarray(S.unsquash(S.scale(jnp.asarray(y))), dtype="float64")
            if not _close(back, y, 1e-4, 1e-4 * float(onp.max(hi - lo))):
                fail("inverse", f"SquashState(low={low}, high={high}, squash={squash}): unsquash(scale({y.tolist()})) = {back.tolist()}", low=low, high=high, squash=squash, y=y.tolist())
            zin = onp.asarray([rnd.uniform(-2.5, 2.5) for _ in range(k)], dtype="float32") if squash else y
            back2 = onp.asarray(S.scale(S.unsquash(jnp.asarray(zin))), dtype="float64")
            # conditioning of scale∘unsquash in float32: the unsquashed value is rounded at the magnitude of the bounds
            err_s = 2.0 * 1.2e-7 * onp.maximum(onp.abs(lo), onp.abs(hi)) / (hi - lo) + 4e-7
            tol2 = 2e-3 + (10.0 * err_s / (1.0 - onp.tanh(onp.abs(zin.astype("float64"))) ** 2) if squash else 0.0)
            if not bool(onp.all(onp.abs(back2 - zin) <= tol2 + 2e-3 * onp.abs(zin))):
                fail("inverse", f"SquashState(low={low}, high={high}, squash={squash}): scale(unsquash({zin.tolist()})) = {back2.tolist()}", low=low, high=high, squash=squash, z=zin.tolist())
            cnt("inverse_checks", 2 * k)
            # at the bounds themselves (IEEE: arctanh(+-1) = +-inf, tanh(+-inf) = +-1)
            for yb in (lo32, hi32):
                bb = onp.asarray(S.unsquash(S.scale(yb)), dtype="float64")
                if not _close(bb, onp.asarray(yb, dtype="float64"), 1e-4, 1e-4 * float(onp.max(hi - lo))):
                    fail("inverse", f"SquashState(low={low}, high={high}, squash={squash}): unsquash(scale(bound {onp.asarray(yb).tolist()})) = {bb.tolist()}", low=low, high=high, squash=squash)
        # NormalizeVec.normalize / denormalize
        mean = onp.asarray([rnd.uniform(-5, 5) for _ in range(k)], dtype="float32")
        var = onp.asarray([rnd.choice([0.0, 1e-6, 1.0, rnd.uniform(0, 30)]) for _ in range(k)], dtype="float32")
        clipv = rnd.choice([10.0, 5.0, 1.0, 0.5])
        nv = rl.NormalizeVec(mean=jnp.asarray(mean), var=jnp.asarray(var), count=jnp.float32(3.0), return_val=None, clip=clipv)
        x = onp.asarray([rnd.choice([rnd.gauss(0, 3), rnd.gauss(0, 3), 1e4, -1e4, 0.0]) for _ in range(k)], dtype="float32")
        for do_clip in (True, False):
            for sm in (True, False):
                y = onp.asarray(nv.normalize(jnp.asarray(x), clip=do_clip, subtract_mean=sm), dtype="float64")
                e = (x.astype("float64") - (mean if sm else 0.0)) / onp.sqrt(var.astype("float64") + 1e-8)
                if do_clip:
                    e = onp.clip(e, -clipv, clipv)
                    if not onp.all(onp.abs(y) <= clipv * (1 + 1e-6)):
                        fail("normalize_clip", f"NormalizeVec(clip={clipv}).normalize({x.tolist()}, clip=True) = {y.tolist()} exceeds the clip value", x=x.tolist())
                if not _close(y, e, 1e-4, 1e-4 * (1 + float(onp.max(onp.abs(e))) * 1e-2)):
                    fail("normalize", f"NormalizeVec(mean={mean.tolist()}, var={var.tolist()}, clip={clipv}).normalize({x.tolist()}, clip={do_clip}, subtract_mean={sm}) = {y.tolist()}, expected {e.tolist()}", x=x.tolist())
                if not do_clip:
                    small = onp.abs(x) < 100
                    back = onp.asarray(nv.denormalize(jnp.asarray(y, dtype=jnp.float32), add_mean=sm), dtype="float64")
                    if not _close(back[small], x[small], 1e-3, 1e-3):
                        fail("denormalize", f"NormalizeVec(mean={mean.tolist()}, var={var.tolist()}).denormalize(normalize({x.tolist()})) = {back.tolist()} (mean flag {sm})", x=x.tolist())
                for i in range(k):
                    if len(out["cases"]) < 4000:
                        out["cases"].append(dict(kind="normalize", clip=do_clip, submean=sm, x=float(x[i]), mean=float(mean[i]), var=float(var[i]), clipv=clipv, y=float(y[i])))
                cnt("normalize_values", k)
        cnt("pure_cases")
    return out


# ------------------------------------------------------------------------------------------------ real Environment on a real Graph


def _real_env():
    g = _m()
    if "RealEnv" in g:
        return g["RealEnv"], g["real_graph"]
    jax, jnp, rl, base, struct = g["jax"], g["jnp"], g["rl"], g["base"], g["struct"]
    from distrax import Deterministic

    from rex.artificial import generate_graphs
    from rex.graph import Graph
    from rex.node import BaseNode

    @struct.dataclass
    class P(base.Base):
        a: jax.Array

    @struct.dataclass
    class S(base.Base):
        a: jax.Array

    @struct.dataclass
    class O(base.Base):
        a: jax.Array

    class N(BaseNode):
        def init_params(self, rng=None, graph_state=None):
            return P(jnp.array([1.0]))

        def init_state(self, rng=None, graph_state=None):
            return S(jnp.array([0.0]))

        def init_output(self, rng=None, graph_state=None):
            return O(jnp.zeros((4,)))

        def step(self, step_state):
            s = step_state.state.a * 0.5
            for _, inp in step_state.inputs.items():
                s = s + inp[-1].data.a[3:4]
            return step_state.replace(state=S(s)), O(jnp.concatenate([s, s, s, s]))

    n1 = N(name="agent", rate=10, delay_dist=Deterministic(0.01), advance=False)
    n2 = N(name="world", rate=20, delay_dist=Deterministic(0.01), advance=False)
    nodes = {n.name: n for n in [n1, n2]}
    n1.connect(n2, window=1, blocking=False, delay_dist=Deterministic(0.01))
    n2.connect(n1, window=2, blocking=False, skip=True, delay_dist=Deterministic(0.01))
    graph = Graph(nodes=nodes, supervisor=n1, graphs_raw=generate_graphs(nodes, 3.0, num_episodes=1))

    class RealEnv(rl.Environment):
        """rl.Environment (reset/step NOT overridden) over a two-node graph; the world integrates what the agent outputs.
        action = [reward, terminate-flag, truncate-flag, u]."""

        LOW, HIGH = [-2.0, 0.0, 0.0, -1.0], [2.0, 1.0, 1.0, 1.0]

        def observation_space(self, gs):
            return rl.Box(-jnp.ones(3) * 100, jnp.ones(3) * 100)

        def action_space(self, gs):
            return rl.Box(jnp.asarray(self.LOW, dtype=jnp.float32), jnp.asarray(self.HIGH, dtype=jnp.float32))

        def get_observation(self, gs):
            return jnp.concatenate([gs.state["world"].a, jnp.array([0.1]) * gs.seq["agent"], jnp.array([0.1]) * gs.step])

        def get_output(self, gs, action):
            return O(a=action)

        def update_graph_state_pre_step(self, gs, action):
            return gs.replace_aux({"act": action})

        def get_truncated(self, gs):
            return gs.aux["act"][2] > 0.5

        def get_terminated(self, gs):
            return gs.aux["act"][1] > 0.5

        def get_reward(self, gs, action):
            return action[0] + 0.01 * gs.seq["agent"]  # depends on the *stepped* graph state

        def get_info(self, gs, action=None):
            return {"w": gs.state["world"].a}

    g["RealEnv"], g["real_graph"] = RealEnv, graph
    return RealEnv, graph


class _RealInner:
    """adapter: the real Environment with `act` present in aux from the start (so that graph states have one structure)"""

    def __init__(self, env):
        self.env = env
        self.params = env.params
        self._step = _m()["jax"].jit(env.step)

    def __getattr__(self, k):
        return getattr(self.env, k)

    def reset(self, rng=None):
        gs, obs, info = self.env.reset(rng)
        return gs.replace_aux({"act": _m()["jnp"].zeros((4,), dtype=_m()["jnp"].float32)}), obs, info

    def step(self, gs, action):
        return self._step(gs, action)


def real_env_histories(seed, n, search=False):
    """The ppo stacking (and variations) over a real rl.Environment on a real compiled Graph; also `Environment.step` = graph step."""
    g = _m()
    jax, jnp, onp = g["jax"], g["jnp"], g["onp"]
    RealEnv, graph = _real_env()
    rnd = random.Random(f"c19-real-{seed}")
    out = dict(violations=[], cases=[], stats={})

    def cnt(k, m=1):
        out["stats"][k] = out["stats"].get(k, 0) + m

    base_env = RealEnv(graph)
    inner = _RealInner(base_env)

    def _ref_step(gs, a):
        gs_pre = base_env.update_graph_state_pre_step(gs, a)
        ref_gs, _ss = graph.step(gs_pre, base_env.get_step_state(gs_pre), base_env.get_output(gs, a))
        return (ref_gs, base_env.get_observation(ref_gs), base_env.get_reward(ref_gs, a), base_env.get_terminated(ref_gs), base_env.get_truncated(ref_gs), base_env.get_info(ref_gs, a))

    ref_step = jax.jit(_ref_step)
    low, high = RealEnv.LOW, RealEnv.HIGH
    configs = [["autoreset_fixed", "log", "squash"], ["autoreset_fixed", "log", "nosquash"], ["autoreset_fresh", "log", "squash"], ["autoreset_fixed", "log"], ["autoreset_fixed", "clip", "log"]]
    rnd.shuffle(configs)
    for case in range(n):
        layers = configs[case % len(configs)]
        bounded = any(l in ("squash", "nosquash", "clip") for l in layers)
        T = rnd.randint(10, 24)
        zs, mode = rand_history(rnd, 4, T, extremes=bounded, maxlen=9)
        rng_seed = rnd.randint(0, 2**20)
        replay = dict(fn="tasks_c19:real_env_histories", seed=seed, n=n, case=case, layers=layers, rng_seed=rng_seed, zs=zs)
        mon = _Mon(f"real rl.Environment on a 2-node graph, layers(inner->outer)={layers} T={T}", replay)
        try:
            names = list(inner.reset(jax.random.PRNGKey(0))[0].rng.keys())
            res = run_scalar_history(inner, layers, zs, low, high, rng_seed, True, mon, applied_key="act", fresh_names=names)
            # ---- Environment.step = graph.step with the supervisor's output computed from the action
            gs, _, _ = inner.reset(jax.random.PRNGKey(rng_seed))
            seen = []
            for t, z in enumerate(zs[:8]):
                a = jnp.asarray(ref_chain(["nosquash"], z, low, high), dtype=jnp.float32)
                got = inner.step(gs, a)
                e = ref_step(gs, a)
                d = _tree_diff(tuple(got), tuple(e), 1e-6, 1e-6)
                if d:
                    mon.fail("env_step", f"Environment.step differs from graph.step(pre(gs), step_state, get_output(gs, action)) at step {t}: {d}", step=t)
                # the action must be what the rest of the graph receives from the supervisor
                seen.append(_fl(a))
                recv = onp.asarray(got[0].inputs["world"]["agent"].data.a, dtype="float64")[-1]
                if not any(_close(recv, s, 1e-6, 1e-6) for s in seen) and not _close(recv, onp.zeros(4)):
                    mon.fail("env_output", f"step {t}: the world node received {recv.tolist()} from the supervisor, which is none of the actions given so far {seen}", step=t)
                cnt("env_step_checks")
                gs = got[0]
                if bool(got[3]) or bool(got[4]):
                    gs, _, _ = inner.reset(jax.random.PRNGKey(rng_seed + t + 1))
        except Exception as ex:
            import traceback

            mon.fail("exception", f"{type(ex).__name__}: {str(ex)[:300]} :: {traceback.format_exc()[-800:]}")
            res = None
        out["violations"] += mon.v
        cnt("real_env_cases")
        cnt("real_layers=" + "+".join(layers))
        if res is not None:
            cnt(f"real_episode_ends={'<2' if res['ends'] < 2 else '2+'}")
            out["cases"].append(dict(kind="scalar", layers=layers, low=low, high=high, zs=zs, real=True, **res))
    # one vectorised ppo stack over the real environment
    if n > 0:
        B = rnd.choice([2, 3])
        T = rnd.randint(8, 16)
        per_env = [rand_history(rnd, 4, T, extremes=True, maxlen=7)[0] for _ in range(B)]
        zs_batch = [[per_env[b][t] for b in range(B)] for t in range(T)]
        layers = ["autoreset_fixed", "log", "squash"]
        gamma = 0.99
        rng_seed = rnd.randint(0, 2**20)
        replay = dict(fn="tasks_c19:real_env_histories", seed=seed, n=n, vector=True, B=B, rng_seed=rng_seed, zs=zs_batch)
        mon = _Mon(f"real rl.Environment, rex.ppo stacking {layers + ['vec', 'normobs', 'normrew']} B={B} T={T}", replay)
        try:
            res = run_vector_history(lambda: base_env, layers, ["normobs", "normrew"], B, zs_batch, low, high, rng_seed, gamma, mon)
            out["cases"].append(dict(kind="vector", layers=layers + ["vec", "normobs", "normrew"], real=True, **res))
            cnt(f"real_vec_B={B}")
        except Exception as ex:
            import traceback

            mon.fail("exception", f"{type(ex).__name__}: {str(ex)[:300]} :: {traceback.format_exc()[-800:]}")
        out["violations"] += mon.v
    return out
