"""Static queue-discipline kernels: which handler touches which deque (C02: the machine's single-producer / single-consumer tables)."""
ASYNC = "rex/asynchronous.py"

KERNELS = {
    "Ownership": [
        dict(name="node_queue_ops", file=ASYNC, func="_AsyncNodeWrapper", loc=("queue_ops", ["push_scheduled_ts", "push_phase_shift", "push_step"]), props=["C02"]),
        dict(name="conn_queue_ops", file=ASYNC, func="_AsyncConnectionWrapper",
             loc=("queue_ops", ["push_expected_nonblocking", "push_expected_blocking", "push_ts_max", "push_ts_input", "push_input", "push_zip", "push_selection"]), props=["C02"]),
    ],
}
