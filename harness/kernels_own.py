"""Static queue-discipline kernels: which handler touches which deque (C02: the machine's single-producer / single-consumer tables)."""
ASYNC = "rex/asynchronous.py"

KERNELS = {
    "Ownership": [
        dict(name="node_queue_ops", file=ASYNC, func="_AsyncNodeWrapper", loc=("queue_ops", ["push_scheduled_ts", "push_phase_shift", "push_step"]), props=["C02"]),
        dict(name="conn_queue_ops", file=ASYNC, func="_AsyncConnectionWrapper",
             loc=("queue_ops", ["push_expected_nonblocking", "push_expected_blocking", "push_ts_max", "push_ts_input", "push_input", "push_zip", "push_selection"]), props=["C02"]),
        # every wrapper runs its tasks on one worker thread: handler bodies of one wrapper never overlap and run in submission order
        dict(name="node_single_worker", file=ASYNC, func="_AsyncNodeWrapper.__init__", loc=("stmt_order", ["self._executor = ThreadPoolExecutor(max_workers=1"]), props=["C02", "C05"]),
        dict(name="conn_single_worker", file=ASYNC, func="_AsyncConnectionWrapper.__init__", loc=("stmt_order", ["self._executor = ThreadPoolExecutor(max_workers=1"]), props=["C02", "C05"]),
    ],
}
