"""Kernel specifications for C18 (rex/cem.py): sampling clip, NaN sanitisation, elite selection, best-so-far update.

Lambdas of `cem_update_mean_stdev` in source order: 0 `x[elite_indices]`, 1 mean, 2 std, 3/4 smoothing of mean/stdev,
5 `x[best_index]`, 6 the best-so-far `where` on the candidate. `jnp.where` call sites in source order: 0 NaN->inf, 1 candidate, 2 loss.
"""

CEM = "rex/cem.py"
S = "gaussian_samples.sample"
U = "cem_update_mean_stdev"
P = ["C18"]
BSL = {"state.bestsofar_loss": "bestsofar_loss", "state.bestsofar": "bestsofar"}

KERNELS = {
    "Cem": [
        # ---- gaussian_samples.sample
        dict(name="sample_raw", file=CEM, func=S, loc=("assign_unique", "samples"), params=["mean", "stdev", "noises"], props=P),
        dict(name="sample_clip", file=CEM, func=S, loc=("assign_unique", "clipped_samples"), params=["samples", "u_min", "u_max"], props=P),
        dict(name="sample_ret", file=CEM, func=S, loc=("return", 0), params=["samples", "clipped_samples"], props=P),
        # ---- cem_update_mean_stdev
        dict(name="nan_to_inf", file=CEM, func=U, loc=("assign", "losses", 0), rename={"jnp.inf": "inf"}, params=["losses", "inf"], props=P),
        dict(name="elite_indices", file=CEM, func=U, loc=("assign_unique", "elite_indices"), result="List", elem="Nat",
             listfuns={"jnp.argsort": "argsort"}, sigs={"argsort": "List α → List Nat"}, types={"losses": "List α"},
             params=["losses", "num_elites"], props=P),
        dict(name="elite_samples", file=CEM, func=U, loc=("lambda", 0), result="Index", gather=["elite_indices"],
             types={"x": "List β", "elite_indices": "List Nat"}, rtype="List β", tyvars=["β"], params=["x", "elite_indices"], props=P),
        dict(name="smooth_mean", file=CEM, func=U, loc=("lambda", 3), params=["evolution_smoothing", "x", "y"], props=P),
        dict(name="smooth_stdev", file=CEM, func=U, loc=("lambda", 4), params=["evolution_smoothing", "x", "y"], props=P),
        dict(name="best_index", file=CEM, func=U, loc=("assign_unique", "best_index"), result="Index",
             types={"elite_indices": "List Nat"}, rtype="Option Nat", params=["elite_indices"], props=P),
        dict(name="best_loss", file=CEM, func=U, loc=("assign_unique", "best_loss"), result="Index",
             types={"losses": "List α"}, rtype="Option α", params=["losses", "best_index"], props=P),
        dict(name="best_sample", file=CEM, func=U, loc=("lambda", 5), result="Index",
             types={"x": "List β"}, rtype="Option β", tyvars=["β"], params=["x", "best_index"], props=P),
        dict(name="upd_best_sample", file=CEM, func=U, loc=("lambda", 6), rename=BSL,
             types={"x": "β", "y": "β"}, rtype="β", tyvars=["β"], params=["bestsofar_loss", "best_loss", "x", "y"], props=P),
        dict(name="upd_best_loss", file=CEM, func=U, loc=("assign_unique", "updated_bestsofar_loss"), rename=BSL,
             params=["bestsofar_loss", "best_loss"], props=P),
        # what is stored in the returned state
        dict(name="ret_bestsofar", file=CEM, func=U, loc=("kwarg", "state.replace", 0, "bestsofar"), rename=BSL,
             types={"bestsofar": "β", "best_sample": "β", "updated_bestsofar": "β"}, rtype="β", tyvars=["β"],
             params=["bestsofar", "best_sample", "updated_bestsofar"], props=P),
        dict(name="ret_bestsofar_loss", file=CEM, func=U, loc=("kwarg", "state.replace", 0, "bestsofar_loss"), rename=BSL,
             params=["bestsofar_loss", "best_loss", "updated_bestsofar_loss"], props=P),
    ],
}
