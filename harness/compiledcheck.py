"""Shared code of the checks on the compiled runtime (C01, C06, C07, C08, C09, C13)."""
import numpy as onp


def f32(x):
    return float(onp.float32(x))


def neg(xs):
    return [max(int(x), -1) for x in xs]


def compare_async_compiled(spec, arec, crec, eps):
    """Every executed compiled step (row with seq >= 0) must equal the async step with the same sequence number.
    Returns (diffs, n_rows_compared)."""
    diffs, rows = [], 0
    for n in crec:
        c, a = crec[n], arec[n]
        for which, r_ in (("compiled", c), ("async", a)):
            for d in r_.get("payload_corrupt", [])[:1]:
                diffs.append(f"node {n} ({which} record): {d}: the window entry is not one message")
        for i, s in enumerate(c["seq"]):
            if s < 0:
                continue
            if s != i:
                diffs.append(f"node {n}: compiled record row {i} holds sequence number {s}")
                break
            if i >= a["n"]:
                diffs.append(f"node {n}: compiled runtime executed step {i}, the recorded episode has only {a['n']} steps of that node")
                break
            rows += 1
            if c["eps"][i] != eps:
                diffs.append(f"node {n} step {i}: episode number {c['eps'][i]} != {eps}")
                break
            for f in ("ts_start", "ts_end"):
                if f32(c[f][i]) != f32(a[f][i]):
                    diffs.append(f"node {n} step {i}: {f} compiled {c[f][i]} vs async {a[f][i]}")
                    break
            bad = False
            for f in ("rng", "state"):
                if f in c and f in a and c[f][i] != a[f][i]:
                    diffs.append(f"node {n} step {i}: {f} compiled {c[f][i]} vs async {a[f][i]}")
                    bad = True
                    break
            if bad:
                break
            if "output" in c and "output" in a and i < len(a["output"]) and c["output"][i] != a["output"][i]:
                diffs.append(f"node {n} step {i}: output compiled {c['output'][i]} vs async {a['output'][i]}")
                break
            for iname in a.get("inputs", {}):
                ci, ai = c["inputs"][iname], a["inputs"][iname]
                if neg(ci["seq"][i]) != neg(ai["seq"][i]) or list(ci["data"][i]) != list(ai["data"][i]):
                    diffs.append(f"node {n} step {i}: input window of {iname}: compiled seq={ci['seq'][i]} data={ci['data'][i]} vs async seq={ai['seq'][i]} data={ai['data'][i]}")
                    bad = True
                    break
                for f in ("ts_sent", "ts_recv"):
                    va = [f32(x) if q >= 0 else 0.0 for x, q in zip(ai[f][i], ai["seq"][i])]
                    vc = [f32(x) if q >= 0 else 0.0 for x, q in zip(ci[f][i], ci["seq"][i])]
                    if va != vc:
                        diffs.append(f"node {n} step {i}: input window of {iname}: {f} compiled {ci[f][i]} vs async {ai[f][i]}")
                        bad = True
                        break
                if bad:
                    break
            if bad:
                break
    return diffs, rows
