"""Confirm a seeded change independently: scratch copy of /repo, (1) demo passes on the clean copy, (2) patch applies,
(3) the unit suite still passes with it (same 3 environment failures as the baseline), (4) the demo fails with it.
Writes seeded/<name>/confirmed.json."""
import json
import os
import re
import shutil
import subprocess
import sys
import tempfile

VERIF = os.path.dirname(os.path.dirname(os.path.abspath(__file__)))
BASELINE_FAIL = {"test_same_structure", "test_chain", "test_extend"}


def main():
    name = sys.argv[1]
    d = os.path.join(VERIF, "seeded", name)
    scratch = tempfile.mkdtemp(prefix=f"confirm_{name}_", dir="/var/tmp")
    out = dict(seed=name)
    env = dict(os.environ, JAX_PLATFORMS="cpu")
    try:
        subprocess.run(f"rsync -a --exclude .git --exclude __pycache__ /repo/ {scratch}/clean/ && rsync -a --exclude .git --exclude __pycache__ /repo/ {scratch}/changed/", shell=True, check=True)
        r = subprocess.run(f"cd {scratch}/changed && git apply {d}/patch.diff", shell=True, capture_output=True, text=True)
        out["patch_applies"] = r.returncode == 0
        if r.returncode != 0:
            out["patch_error"] = r.stderr[-500:]
        else:
            r = subprocess.run(["/venv/bin/python", os.path.join(d, "demo.py")], env=dict(env, REX_REPO=f"{scratch}/clean"), capture_output=True, text=True, timeout=1500)
            out["demo_clean_exit"] = r.returncode
            r = subprocess.run(["/venv/bin/python", os.path.join(d, "demo.py")], env=dict(env, REX_REPO=f"{scratch}/changed"), capture_output=True, text=True, timeout=1500)
            out["demo_changed_exit"] = r.returncode
            out["demo_changed_tail"] = (r.stdout or "")[-400:]
            r = subprocess.run(["/venv/bin/python", "-m", "pytest", "-q", "-p", "no:cacheprovider", "--timeout=900", "tests/unit"], cwd=f"{scratch}/changed",
                               env=dict(env, PYTHONPATH=f"{scratch}/changed"), capture_output=True, text=True, timeout=3000)
            tail = r.stdout[-1500:]
            m = re.search(r"(\d+) failed, (\d+) passed|(\d+) passed", tail)
            failed = set(re.findall(r"FAILED [^:]+::(\w+)", tail))
            out["unit_summary"] = tail.strip().splitlines()[-1] if tail.strip() else ""
            out["unit_failed"] = sorted(failed)
            out["unit_ok"] = failed <= BASELINE_FAIL and "passed" in tail
    finally:
        shutil.rmtree(scratch, ignore_errors=True)
    out["confirmed"] = bool(out.get("patch_applies") and out.get("demo_clean_exit") == 0 and out.get("demo_changed_exit", 0) != 0 and out.get("unit_ok"))
    json.dump(out, open(os.path.join(d, "confirmed.json"), "w"), indent=1)
    print(json.dumps(out))


if __name__ == "__main__":
    main()
