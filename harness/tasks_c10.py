"""Worker-side tasks for C10 (trainable delay with zero-order hold = static delay)."""
import math
import os
import random
import sys

REPO = os.environ.get("REX_REPO", "/repo")
if REPO not in sys.path:
    sys.path.insert(0, REPO)

TIE = 1e-5


def unit_cases(seed, n=60):
    """Direct calls of the real TrainableDist.apply_delay on constructed extended windows."""
    import jax.numpy as jnp
    import numpy as onp
    from rex.base import InputState, TrainableDist

    rng = random.Random(seed)
    out = []
    for case in range(n):
        stream = rng.choice(["regular", "regular", "jitter", "bunched", "tie"])
        if stream == "tie":
            rate = rng.choice([4, 8, 16])
            dmin = rng.choice([0.0, 1 / 64, 1 / 32])
            dmax = dmin + rng.choice([1 / 16, 1 / 8, 3 / 16, 1 / 4])
            d = dmin + rng.choice([0, 1, 2, 3, 4]) / 4 * (dmax - dmin)
            phase = rng.choice([0.0, 1 / 64])
            sends = [phase + i / rate for i in range(40)]
            ts_start = rng.choice(sends[5:30]) + d if rng.random() < 0.6 else rng.randrange(20, 200) / 64
        else:
            rate = rng.choice([5, 7, 10, 13, 20, 40])
            dmin = rng.choice([0.0, 0.0, 0.01, 0.02])
            dmax = dmin + rng.choice([0.5, 1.0, 1.6, 2.4, 3.0]) / rate
            d = rng.choice([dmin, dmax, rng.uniform(dmin, dmax), rng.uniform(dmin, dmax)])
            per = 1.0 / rate
            sends, t = [], rng.uniform(0, per)
            for i in range(60):
                sends.append(t)
                if stream == "regular":
                    t += per
                elif stream == "jitter":
                    t += per * rng.uniform(1.0, 1.4)
                else:  # bunched: sender whose outputs come closer together than 1/rate (computation-delay jitter)
                    t += per * rng.choice([0.25, 0.5, 1.0, 1.5])
            ts_start = rng.uniform(sends[8], sends[40])
        w = rng.randint(1, 3)
        dist = TrainableDist.create(float(d), float(dmin), float(dmax))
        E = dist.window(rate)
        E_true = int(math.ceil(round(rate * (dmax - dmin), 9)))
        cum = w + E
        f32 = lambda x: float(onp.float32(x))
        s32 = [f32(t) for t in sends]
        cons = [i for i, t in enumerate(s32) if f32(t + f32(dmin)) <= f32(ts_start)]
        hist = [(-1, 0.0, 0.0, -100)] * cum + [(i, s32[i], f32(s32[i] + f32(dmin)), 1000 + i) for i in cons]
        win = hist[-cum:]
        inp = InputState(seq=jnp.array([x[0] for x in win], dtype=jnp.int32), ts_sent=jnp.array([x[1] for x in win], dtype=jnp.float32),
                         ts_recv=jnp.array([x[2] for x in win], dtype=jnp.float32), data=jnp.array([x[3] for x in win], dtype=jnp.int32), delay_dist=dist)
        try:
            res = dist.apply_delay(rate, inp, jnp.float32(ts_start))
            got = [int(x) for x in onp.asarray(res.seq)]
            got_data = [int(x) for x in onp.asarray(res.data)]
        except Exception as ex:  # noqa
            out.append(dict(case=case, error=f"{type(ex).__name__}: {ex}"))
            continue
        d32 = f32(dist.mean())
        arrived = [i for i in cons if f32(s32[i] + d32) <= f32(ts_start)]
        full = [(-1, -100)] * w + [(i, 1000 + i) for i in arrived]
        exp = full[-w:]
        ties = [i for i in cons if abs((s32[i] + d32) - f32(ts_start)) < TIE and (s32[i] + d32) != f32(ts_start)]
        in_gap = len([i for i in cons if not (f32(s32[i] + d32) <= f32(ts_start))])
        out.append(dict(case=case, stream=stream, rate=rate, dmin=dmin, dmax=dmax, d=d, w=w, E=E, E_true=E_true, ts_start=ts_start, got=got, got_data=got_data,
                        exp=[x[0] for x in exp], exp_data=[x[1] for x in exp], near_tie=bool(ties), in_gap=in_gap, cum=cum, window_in=[x[0] for x in win]))
    return out


def saturation_cases(seed, n=30):
    import numpy as onp
    from rex.base import TrainableDist

    rng = random.Random(seed)
    out = []
    for _ in range(n):
        dmin = rng.choice([0.0, 0.01, 0.05])
        dmax = dmin + rng.uniform(0.01, 0.3)
        dist = TrainableDist.create(dmin, dmin, dmax)
        dreq = rng.choice([dmin - 0.1, dmin, dmax, dmax + 0.2, rng.uniform(dmin - 0.05, dmax + 0.05)])
        a = float(dist.get_alpha(dreq))
        eff = float(dist.replace(alpha=a).mean())
        samp = float(dist.replace(alpha=a).sample()[1])
        q = float(dist.replace(alpha=a).quantile(0.5))
        out.append(dict(dmin=dmin, dmax=dmax, dreq=dreq, alpha=a, eff=eff, sample=samp, quantile=q))
    return out


def e2e_case(seed):
    """compiled graph with TrainableDist(d) vs the same system with a static communication delay d."""
    import jax
    import jax.numpy as jnp
    import numpy as onp
    from distrax import Deterministic, Normal
    from flax import struct
    from rex.artificial import generate_graphs
    from rex.base import Base, TrainableDist
    from rex.graph import Graph
    from rex.node import BaseNode

    rng = random.Random(seed)
    INNAME = ["s"]

    @struct.dataclass
    class Out(Base):
        a: jax.Array

    @struct.dataclass
    class St(Base):
        n: jax.Array

    class Sender(BaseNode):
        def init_state(self, rng=None, graph_state=None):
            return St(jnp.array(0, dtype=jnp.int32))

        def init_output(self, rng=None, graph_state=None):
            return Out(jnp.array(-100, dtype=jnp.int32))

        def step(self, ss):
            return ss.replace(state=St(ss.state.n + 1)), Out((1000 + ss.seq).astype(jnp.int32))

    class Receiver(BaseNode):
        def __init__(self, *a, delays=None, **kw):
            super().__init__(*a, **kw)
            self._delays = delays

        def init_delays(self, rng=None, graph_state=None):
            return dict(self._delays) if self._delays is not None else super().init_delays(rng, graph_state)

        def init_state(self, rng=None, graph_state=None):
            return St(jnp.array(0, dtype=jnp.int32))

        def init_output(self, rng=None, graph_state=None):
            return Out(jnp.array(0, dtype=jnp.int32))

        def step(self, ss):
            i = ss.inputs[INNAME[0]]
            acc = (3 * ss.state.n + jnp.sum(i.data.a * jnp.arange(1, i.data.a.shape[0] + 1))) % 1000003
            return ss.replace(state=St(acc.astype(jnp.int32))), Out(acc.astype(jnp.int32))

    class Sup(BaseNode):
        def init_output(self, rng=None, graph_state=None):
            return Out(jnp.array(0, dtype=jnp.int32))

        def step(self, ss):
            return ss, Out(ss.inputs["r"].data.a[-1])

    rate_s = rng.choice([5, 10, 20])
    rate_r = rng.choice([4, 7, 10, 13])
    jitter = rng.random() < 0.4
    dmin = rng.choice([0.0, 0.02])
    dmax = dmin + rng.choice([0.6, 1.0, 1.4, 2.4]) / rate_s
    d = rng.choice([dmin, dmax, rng.uniform(dmin, dmax)])
    window = rng.randint(1, 3)
    via = rng.choice(["distribution", "init_delays", "init_delays_lowered"])
    # the connection may be made under an input name of its own; init_delays is keyed by input name
    INNAME[0] = rng.choice(["s", "s", "sender_in"])
    inname = INNAME[0]
    comp_s = Normal(0.2 / rate_s, 0.35 / rate_s) if jitter else Deterministic(round(0.13 / rate_s, 4))
    pin = round(rng.uniform(dmin, dmax), 3)
    tmax = 25.0 / rate_r

    def run(conn_dist, delays=None):
        s = Sender(name="s", rate=rate_s, delay_dist=comp_s)
        r = Receiver(name="r", rate=rate_r, delay_dist=Deterministic(round(0.1 / rate_r, 4)), delays=delays)
        sup = Sup(name="sup", rate=rate_r, delay_dist=Deterministic(0.001))
        r.connect(s, window=window, blocking=False, delay_dist=conn_dist, delay=pin, **({} if inname == "s" else {"name": inname}))
        sup.connect(r, window=1, blocking=False, delay_dist=Deterministic(0.001))
        nodes = {"s": s, "r": r, "sup": sup}
        cg = generate_graphs(nodes, tmax, rng=jax.random.PRNGKey(seed % 1000), num_episodes=1)
        g = Graph(nodes=nodes, supervisor=sup, graphs_raw=cg, progress_bar=False)
        gs = g.init(jax.random.PRNGKey(0))
        gs = g.init_record(gs, inputs={"r": True}, state={"r": True}, output={"r": True, "s": True})
        gs = jax.jit(g.rollout)(gs)
        rec = gs.aux["record"].nodes["r"].steps
        srec = gs.aux["record"].nodes["s"].steps
        return dict(rseq=onp.asarray(rec.seq).tolist(), ts_start=onp.asarray(rec.ts_start).astype(float).tolist(), seq=onp.asarray(rec.inputs[inname].seq).tolist(),
                    data=onp.asarray(rec.inputs[inname].data.a).tolist(), state=onp.asarray(rec.state.n).tolist(), out=onp.asarray(rec.output.a).tolist(),
                    s_end=onp.asarray(cg.vertices["s"].ts_end)[0].astype(float).tolist(), s_seq=onp.asarray(cg.vertices["s"].seq)[0].tolist())

    static = run(Deterministic(float(d)))
    if via == "distribution":
        train = run(TrainableDist.create(float(d), dmin, dmax))
    elif via == "init_delays":
        train = run(TrainableDist.create(dmin, dmin, dmax), delays={inname: float(d)})
    else:
        # created at a larger delay, lowered through init_delays: the recorded graph must still be the one at the minimal delay
        d0 = float(rng.uniform(float(d), dmax)) if d < dmax else dmax
        train = run(TrainableDist.create(d0, dmin, dmax), delays={inname: float(d)})
    return dict(rate_s=rate_s, rate_r=rate_r, jitter=jitter, dmin=dmin, dmax=dmax, d=d, window=window, via=via + ("" if inname == "s" else f" (input name '{inname}')"), static=static, train=train)
