"""Kernel specifications for C11 (TrainableDist.apply_delay, interp = "linear" / "linear_real_only").

Every arithmetic / comparison / where expression of the linear branch is regenerated into
lean/RexModel/Gen/LinearDelay.lean; lean/RexModel/Lib/LinearDelay.lean composes them into the model and
lean/RexModel/Props/C11.lean states the theorems about exactly these definitions.  The "identity" kernels
(c11_mask_linear, c11_slice_src, c11_interp_*) pin down WHICH array is sliced / used as knots / used as
query: swapping two of them in the source makes the extracted expression mention a variable that is not among
the declared parameters, which is an extraction failure (= obligation broken)."""

BASE = "rex/base.py"
F = "TrainableDist.apply_delay"
VMAP = "jax.vmap(jnp.interp, in_axes=(None, None, 1), out_axes=1)"

KERNELS = {
    "LinearDelay": [
        # ts_recv = input.ts_sent + d
        dict(name="c11_recv_delayed", file=BASE, func=F, loc=("assign", "ts_recv", 0), rename={"input.ts_sent": "ts_sent"}, params=["ts_sent", "d"], props=["C11"]),
        # ts_recv = jnp.where(input.seq < 0, input.ts_recv, ts_recv)
        dict(name="c11_recv_where", file=BASE, func=F, loc=("assign", "ts_recv", 1), rename={"input.seq": "seq_", "input.ts_recv": "ts_recv_in"}, ints=["seq_"],
             params=["seq_", "ts_recv_in", "ts_recv"], props=["C11"]),
        # idx_max = jnp.argwhere(ts_recv > ts_start, size=1, fill_value=cum_window)[0, 0]
        dict(name="c11_not_arrived", file=BASE, func=F, loc=("call_arg", "jnp.argwhere", 0, 0), result="Bool", params=["ts_recv", "ts_start"], props=["C11"]),
        dict(name="c11_idx_fill", file=BASE, func=F, loc=("kwarg", "jnp.argwhere", 0, "fill_value"), ty="Int", params=["cum_window"], props=["C11"]),
        dict(name="c11_idx_size", file=BASE, func=F, loc=("kwarg", "jnp.argwhere", 0, "size"), ty="Int", params=[], props=["C11"]),
        # window = cum_window - window_delayed
        dict(name="c11_window", file=BASE, func=F, loc=("assign_unique", "window"), ty="Int", params=["cum_window", "window_delayed"], props=["C11"]),
        # idx_min = idx_max - window      (occurrence 0 is the zoh branch, occurrence 1 the linear branch)
        dict(name="c11_idx_min", file=BASE, func=F, loc=("assign", "idx_min", 1), ty="Int", params=["idx_max", "window"], props=["C11"]),
        # which variant is masked:  if self.interp == "linear_real_only"
        dict(name="c11_is_real_only", file=BASE, func=F, loc=("iftest_containing", "== 'linear_real_only'", 0), result="Bool", ty="Int", rename={"self.interp": "interp"},
             consts={"'zoh'": "0", "'linear'": "1", "'linear_real_only'": "2"}, enums={"interp"}, params=["interp"], props=["C11"]),
        # the branch test  elif self.interp in ["linear", "linear_real_only"]
        dict(name="c11_is_linear_branch", file=BASE, func=F, loc=("iftest_containing", "'linear'", 0), result="Bool", ty="Int", rename={"self.interp": "interp"},
             consts={"'zoh'": "0", "'linear'": "1", "'linear_real_only'": "2"}, params=["interp"], props=["C11"]),
        # ts_recv_mask = jnp.where(input.seq < 0, -1e9, ts_recv)   /   ts_recv_mask = ts_recv
        dict(name="c11_mask", file=BASE, func=F, loc=("assign", "ts_recv_mask", 0), rename={"input.seq": "seq_"}, ints=["seq_"], params=["seq_", "ts_recv"], props=["C11"]),
        dict(name="c11_mask_linear", file=BASE, func=F, loc=("assign", "ts_recv_mask", 1), params=["ts_recv"], props=["C11"]),
        # ts_recv_interp = jax.lax.dynamic_slice(ts_recv_mask, [idx_min], [window])    (call 0 is the zoh branch)
        dict(name="c11_slice_src", file=BASE, func=F, loc=("call_arg", "jax.lax.dynamic_slice", 1, 0), params=["ts_recv_mask"], props=["C11"]),
        dict(name="c11_slice_start", file=BASE, func=F, loc=("call_arg_elt", "jax.lax.dynamic_slice", 1, 1, 0, 1), ty="Int", params=["idx_min"], props=["C11"]),
        dict(name="c11_slice_size", file=BASE, func=F, loc=("call_arg_elt", "jax.lax.dynamic_slice", 1, 2, 0, 1), ty="Int", params=["window"], props=["C11"]),
        # ts_recv_interp = ts_recv_interp + (ts_start - ts_recv_interp[-1])
        dict(name="c11_shift", file=BASE, func=F, loc=("assign", "ts_recv_interp", 1), rename={"ts_recv_interp[-1]": "last"}, params=["ts_recv_interp", "ts_start", "last"], props=["C11"]),
        # jnp.interp(ts_recv_interp, ts_recv_mask, _fp)  and the vmapped call for batched leaves
        dict(name="c11_interp_query", file=BASE, func=F, loc=("call_arg", "jnp.interp", 0, 0), params=["ts_recv_interp"], props=["C11"]),
        dict(name="c11_interp_knots", file=BASE, func=F, loc=("call_arg", "jnp.interp", 0, 1), params=["ts_recv_mask"], props=["C11"]),
        dict(name="c11_interp_vals", file=BASE, func=F, loc=("call_arg", "jnp.interp", 0, 2), rename={"_fp": "fp"}, params=["fp"], props=["C11"]),
        dict(name="c11_vinterp_query", file=BASE, func=F, loc=("call_arg", VMAP, 0, 0), params=["ts_recv_interp"], props=["C11"]),
        dict(name="c11_vinterp_knots", file=BASE, func=F, loc=("call_arg", VMAP, 0, 1), params=["ts_recv_mask"], props=["C11"]),
        dict(name="c11_vinterp_vals", file=BASE, func=F, loc=("call_arg", VMAP, 0, 2), rename={"_fp_batch": "fp"}, params=["fp"], props=["C11"]),
        # the delay itself: TrainableDist.sample  (min + alpha * (max - min) * ones(shape))
        dict(name="c11_sample", file=BASE, func="TrainableDist.sample", loc=("assign_unique", "samples"),
             rename={"self.min": "min_", "self.max": "max_", "self.alpha": "alpha"}, opaque={"jnp.ones(shape)": "one"}, params=["min_", "alpha", "max_", "one"], props=["C11"]),
    ],
}
