"""Worker-side task functions for C18: run the REAL rex.cem / rex.evo code on a generated case and return the raw trace
(states before/after every iteration, the candidates that were sampled, the losses that were returned). All judging is done
by harness/props/c18.py in the main process. Floats travel as JSON numbers (NaN / Infinity tokens included)."""
import os
import sys

sys.path.insert(0, os.environ.get("REX_REPO", "/repo"))


def _tree(leaves, vals):
    import jax.numpy as jnp

    out, k = {}, 0
    for i, n in enumerate(leaves):
        out[f"p{i}"] = jnp.asarray(vals[k : k + n], dtype=jnp.float32)
        k += n
    return out


def _flat(tree):
    import jax
    import numpy as onp

    return [float(v) for l in jax.tree_util.tree_leaves(tree) for v in onp.asarray(l).reshape(-1)]


def _flat_batch(tree, n):
    import jax
    import numpy as onp

    ls = [onp.asarray(l).reshape(n, -1) for l in jax.tree_util.tree_leaves(tree)]
    return [[float(v) for l in ls for v in l[i]] for i in range(n)]


def make_loss(spec):
    """Adversarial loss functions: quadratic / L1 bowl, optionally quantised (ties) or constant, NaN in a half space, +inf in a
    half space, NaN for sporadically 'diverged' evaluations (from the rng handed to the loss)."""
    import jax
    import jax.numpy as jnp

    target = jnp.asarray(spec["target"], dtype=jnp.float32)

    def loss(params, transform, rng):
        v = jnp.concatenate([jnp.ravel(l) for l in jax.tree_util.tree_leaves(params)])
        d = v - target
        val = jnp.sum(jnp.abs(d)) if spec.get("l1") else jnp.sum(d * d)
        if spec.get("q"):
            val = jnp.round(val / spec["q"]) * spec["q"]
        if spec.get("const") is not None:
            val = 0.0 * val + spec["const"]
        if spec.get("nan_region"):
            ax, thr, up = spec["nan_region"]
            val = jnp.where((v[ax] > thr) if up else (v[ax] < thr), jnp.nan, val)
        if spec.get("inf_region"):
            ax, thr, up = spec["inf_region"]
            val = jnp.where((v[ax] > thr) if up else (v[ax] < thr), jnp.inf, val)
        if spec.get("p_nan", 0) > 0:
            val = jnp.where(jax.random.uniform(rng) < spec["p_nan"], jnp.nan, val)
        return val

    return loss


def cem_case(cfg):
    import equinox as eqx
    import jax
    import jax.numpy as jnp
    import numpy as onp

    from rex.base import Identity
    from rex.cem import CEMSolver, cem, cem_step, gaussian_samples

    leaves = cfg["leaves"]
    u_min, u_max = _tree(leaves, cfg["u_min"]), _tree(leaves, cfg["u_max"])
    n = cfg["num_samples"]
    solver = CEMSolver.init(u_min=u_min, u_max=u_max, num_samples=n, evolution_smoothing=cfg["smoothing"], elite_portion=cfg["elite_portion"])
    mean0 = _tree(leaves, cfg["mean0"])
    stdev0 = None if cfg.get("stdev0") is None else _tree(leaves, cfg["stdev0"])
    state = solver.init_state(mean=mean0, stdev=stdev0)
    loss = make_loss(cfg["loss"])
    transform = Identity()
    out = dict(init=dict(best=_flat(state.bestsofar), best_loss=float(state.bestsofar_loss)), iters=[], num_elites=int(n * cfg["elite_portion"]))
    rngs = jax.random.split(jax.random.PRNGKey(cfg["seed"]), cfg["steps"])
    for it in range(cfg["steps"]):
        # the candidates of this iteration, re-created with the derivation cem_step uses (eager mode: identical values)
        srngs = jax.random.split(rngs[it], num=n * 2)
        samples = eqx.filter_vmap(gaussian_samples, in_axes=(None, None, 0))(solver, state, srngs[:n])
        # the standard-normal draws behind them (for the model's sample kernel)
        flat_mean, _ = jax.tree_util.tree_flatten(state.mean)
        noise = []
        for i in range(n):
            lr = jax.random.split(srngs[i], num=len(flat_mean))
            noise.append([float(v) for k, m in enumerate(flat_mean) for v in onp.asarray(jax.random.normal(lr[k], m.shape)).reshape(-1)])
        try:
            new_state, losses = cem_step(loss, solver, state, transform, rngs[it])
        except Exception as ex:  # noqa: BLE001
            out["iters"].append(dict(error=f"{type(ex).__name__}: {str(ex)[:300]}"))
            break
        out["iters"].append(
            dict(
                mean=_flat(state.mean), stdev=_flat(state.stdev), samples=_flat_batch(samples, n), noise=noise,
                losses=[float(v) for v in onp.asarray(losses)], new_mean=_flat(new_state.mean), new_stdev=_flat(new_state.stdev),
                best=_flat(new_state.bestsofar), best_loss=float(new_state.bestsofar_loss),
            )
        )
        state = new_state
    if cfg.get("scan"):
        state0 = solver.init_state(mean=mean0, stdev=stdev0)
        fn = lambda s, r: cem(loss, solver, s, transform, max_steps=cfg["steps"], rng=r, verbose=False)  # noqa: E731
        if cfg["scan"] == "jit":
            fn = jax.jit(fn)
        final, all_losses = fn(state0, jax.random.PRNGKey(cfg["seed"] + 1000))
        out["scan"] = dict(losses=[[float(v) for v in row] for row in onp.asarray(all_losses)], best=_flat(final.bestsofar), best_loss=float(final.bestsofar_loss))
    return out


def evo_case(cfg):
    import jax
    import jax.numpy as jnp
    import numpy as onp

    from rex.base import Identity
    from rex.evo import EvoSolver, evo, evo_step

    leaves = cfg["leaves"]
    u_min, u_max = _tree(leaves, cfg["u_min"]), _tree(leaves, cfg["u_max"])
    mean0 = _tree(leaves, cfg["mean0"])
    solver = EvoSolver.init(u_min=u_min, u_max=u_max, strategy=cfg["strategy"], strategy_kwargs=dict(cfg["strategy_kwargs"]), fitness_kwargs=dict(cfg.get("fitness_kwargs") or {}))
    state = solver.init_state(mean=mean0, rng=jax.random.PRNGKey(cfg["seed"]))
    strat = solver.strategy
    popsize = strat.popsize
    loss = make_loss(cfg["loss"])
    transform = Identity()
    lo, hi = [float(v) for v in onp.asarray(solver.flatten(u_min))], [float(v) for v in onp.asarray(solver.flatten(u_max))]
    # observe what crosses the boundary to the black box (evosax): populations returned by ask, arguments given to tell
    seen = dict(ask=[], tell=[])
    orig_ask, orig_tell = strat.ask, strat.tell

    def concrete(a):
        return not isinstance(a, jax.core.Tracer)

    def ask(rng, st, params=None):
        x, st2 = orig_ask(rng, st, params)
        xf = strat.param_reshaper.flatten(x)
        if concrete(xf):
            seen["ask"].append([[float(v) for v in row] for row in onp.asarray(xf)])
        return x, st2

    def tell(x, fitness, st, params=None):
        if concrete(fitness):
            xf = strat.param_reshaper.flatten(x)
            seen["tell"].append(dict(x=[[float(v) for v in row] for row in onp.asarray(xf)], fitness=[float(v) for v in onp.asarray(fitness)]))
        return orig_tell(x, fitness, st, params)

    strat.ask, strat.tell = ask, tell
    out = dict(popsize=int(popsize), lo=lo, hi=hi, init=dict(best=[float(v) for v in onp.asarray(state.best_member)], best_loss=float(state.best_fitness)), iters=[])
    try:
        logger = solver.init_logger(num_generations=cfg["steps"]) if cfg.get("logger") else None
        rngs = jax.random.split(jax.random.PRNGKey(cfg["seed"] + 17), cfg["steps"])
        for it in range(cfg["steps"]):
            na, nt = len(seen["ask"]), len(seen["tell"])
            try:
                (new_state, logger), losses = evo_step(loss, solver, state, transform, rngs[it], logger)
            except Exception as ex:  # noqa: BLE001
                out["iters"].append(dict(error=f"{type(ex).__name__}: {str(ex)[:300]}"))
                break
            out["iters"].append(
                dict(
                    asked=seen["ask"][na:], told=seen["tell"][nt:], losses=[float(v) for v in onp.asarray(losses)],
                    best=[float(v) for v in onp.asarray(new_state.best_member)], best_loss=float(new_state.best_fitness),
                )
            )
            state = new_state
        if cfg.get("scan"):
            state0 = solver.init_state(mean=mean0, rng=jax.random.PRNGKey(cfg["seed"]))
            lg = solver.init_logger(num_generations=cfg["steps"])
            final, _, all_losses = evo(loss, solver, state0, transform, max_steps=cfg["steps"], rng=jax.random.PRNGKey(cfg["seed"] + 99), verbose=False, logger=lg)
            out["scan"] = dict(losses=[[float(v) for v in row] for row in onp.asarray(all_losses)], best=[float(v) for v in onp.asarray(final.best_member)],
                               best_loss=float(final.best_fitness), init_loss=float(state0.best_fitness))
    finally:
        strat.ask, strat.tell = orig_ask, orig_tell
    return out
