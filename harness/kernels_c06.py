"""Static call-site kernels for C06 (how often a step function is invoked per handler execution)."""
ASYNC = "rex/asynchronous.py"
PR = "rex/partition_runner.py"
GRAPH = "rex/graph.py"

KERNELS = {
    "Calls": [
        dict(name="async_wrapper_calls_async_step", file=ASYNC, func="_AsyncNodeWrapper._async_step", loc=("count_calls", "self.async_step"), props=["C06"]),
        dict(name="async_step_calls_node_step", file=ASYNC, func="_AsyncNodeWrapper.async_step", loc=("count_calls", "self.node.step"), props=["C06"]),
        dict(name="push_step_calls_async_step", file=ASYNC, func="_AsyncNodeWrapper.push_step", loc=("count_calls", "self._async_step"), props=["C06"]),
        dict(name="run_supervisor_async_calls", file=ASYNC, func="AsyncGraph.run_supervisor", loc=("count_calls", "self._async_nodes[self.supervisor.name].async_step"), props=["C06"]),
        dict(name="run_node_calls_step", file=PR, func="make_run_partition_excl_supervisor._run_node", loc=("count_calls", "nodes[kind].step"), props=["C06"]),
        dict(name="run_supervisor_calls_step", file=GRAPH, func="Graph.run_supervisor._run_supervisor_step", loc=("count_calls", "supervisor.step"), props=["C06"]),
    ],
}
KERNELS["Calls"].append(dict(name="sup_skip_pred", file=GRAPH, func="Graph.run_supervisor", loc=("call_arg", "jax.lax.cond", 0, 0), result="Bool", ty="Int",
                             rename={"graph_state.step": "step"}, params=["step"], props=["C06", "C09"]))
