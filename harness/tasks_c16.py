"""Worker-side task for C16: does `set_delay` take effect in the *subsequent simulation* (asynchronous runtime, simulated clock)?

One task = one small random feed-forward graph (optionally with a diamond and a skipped feedback connection), deterministic
delay distributions (so every simulated delay is known exactly), non-blocking connections (so no step waits for an input):

  graph G1 built + warmed up once
    episode 0                                   -> observations checked against the configuration
    set_delay(delay=...) on nodes/connections   (expected delays only)
    episode 1 (same graph, NO second warm-up)   -> the new phases must be used for scheduling
    set_delay(delay=...) again, episode 2
  set_delay(delay_dist=..., delay=...) on nodes/connections
  graph G2 = a new AsyncGraph over the same node objects, warmed up
    episode 3                                   -> the new simulated computation / communication delays must be observed

The observations are returned as plain data; harness/props/c16.py evaluates them against an independent longest-path oracle
over the *requested* values.
"""
import random

import rt


def _mk_spec(rng):
    n = rng.randint(3, 4)
    rates = [rng.choice([10, 20, 25, 50]) for _ in range(n)]
    nodes = []
    for i in range(n):
        period_ms = 1000 // rates[i]
        comp = rng.randint(1, max(1, period_ms // 4)) / 1000.0
        nodes.append(dict(name=f"n{i}", rate=rates[i], delay=comp, sim=comp, dist_kind=rng.choice(["raw", "raw", "wrapped"])))
    edges = []
    have = set()
    for j in range(1, n):
        have.add((rng.randrange(j), j))
    if n >= 3 and rng.random() < 0.7:  # a second path (diamond) where possible
        i, j = sorted(rng.sample(range(n), 2))
        have.add((i, j))
    for (i, j) in sorted(have):
        comm = rng.randint(0, 4) / 1000.0
        kind = rng.choice(["raw", "wrapped", "trainable"])
        # the expected delay (phase shift only) need not be the delay of the distribution: sometimes a more conservative number
        expd = comm if rng.random() < 0.5 else rng.randint(0, 6) / 1000.0
        edges.append(dict(src=f"n{i}", dst=f"n{j}", delay=expd, sim=comm, skip=False, window=rng.randint(1, 2), dist_kind=kind))
    if rng.random() < 0.6:  # skipped feedback connection
        j = rng.randrange(1, n)
        i = rng.randrange(0, j)
        comm = rng.randint(0, 4) / 1000.0
        edges.append(dict(src=f"n{j}", dst=f"n{i}", delay=comm, sim=comm, skip=True, window=1, dist_kind="raw"))
    return dict(nodes=nodes, edges=edges, supervisor=f"n{n - 1}", seed=rng.randrange(1 << 30))


def _dist(kind, value):
    import distrax
    from rex import base

    if kind == "trainable":  # a trainable delay created at `value` (its interpolation window is irrelevant in the asynchronous runtime)
        return base.TrainableDist.create(delay=value, min=0.0, max=0.008)
    d = distrax.Deterministic(loc=value)
    return base.StaticDist.create(d) if kind == "wrapped" else d


def _observe(graph, nodes, nsteps, gs0, tag):
    import numpy as onp

    gs = gs0
    for _ in range(nsteps):
        gs = graph.run(gs)
    graph.stop()
    rec = rt.safe_get_record(graph)
    out = dict(tag=tag, nodes={})
    for name, node in nodes.items():
        r = rec.nodes[name]
        d = rt.node_record_to_dict(r, with_inputs=False)
        info = getattr(r, "info", None)
        o = dict(ts_start=d["ts_start"][:6], ts_end=d["ts_end"][:6], delay=d["delay"][:6], seq=d["seq"][:6],
                 live_phase=float(node.phase), live_delay=float(node.delay),
                 msgs={k: dict(delay=v["delay"][:6], ts_sent=v["ts_sent"][:6], ts_recv=v["ts_recv"][:6]) for k, v in d.get("messages", {}).items()})
        # the phases the runtime used for this episode (white-box: wrapper attributes; absent -> not reported)
        try:
            w = graph._async_nodes[name]
            o["rt_phase"] = float(w.phase)
            o["rt_conn_phase"] = {cw.connection.output_node.name: float(cw.phase) for cw in w.inputs.values()}
            o["live_conn_phase"] = {c.output_node.name: float(c.phase) for c in node.inputs.values()}
        except Exception:  # noqa: BLE001
            pass
        if info is not None:
            o["info_phase"] = float(info.phase)
            o["info_delay"] = float(info.delay)
            o["info_inputs"] = {k: dict(phase=float(v.phase), delay=float(v.delay), skip=bool(v.skip)) for k, v in info.inputs.items()}
        out["nodes"][name] = o
    return out


def sim_case(seed, nsteps=5):
    import jax
    import rex.constants as const
    from rex.asynchronous import AsyncGraph

    rng = random.Random(seed)
    spec = _mk_spec(rng)
    Probe = rt.make_probe_class()[0]
    nodes = {}
    for nd in spec["nodes"]:
        nodes[nd["name"]] = Probe(name=nd["name"], rate=nd["rate"], delay=nd["delay"], delay_dist=_dist(nd["dist_kind"], nd["sim"]))
    for e in spec["edges"]:
        nodes[e["dst"]].connect(nodes[e["src"]], blocking=False, delay=e["delay"], delay_dist=_dist(e["dist_kind"], e["sim"]), skip=e["skip"], window=e["window"])

    def make_graph():
        g = AsyncGraph(nodes=nodes, supervisor=nodes[spec["supervisor"]], clock=const.Clock.SIMULATED, real_time_factor=const.RealTimeFactor.FAST_AS_POSSIBLE)
        g.set_record_settings(params=False, rng=False, inputs=False, state=False, output=False)
        gs = g.init(rng=jax.random.PRNGKey(spec["seed"]))
        g.warmup(gs)
        return g, gs

    # the requested configuration, updated only from what is passed to the API
    cfg = dict(nodes={nd["name"]: dict(rate=nd["rate"], delay=nd["delay"], sim=nd["sim"]) for nd in spec["nodes"]},
               edges=[dict(src=e["src"], dst=e["dst"], delay=e["delay"], sim=e["sim"], skip=e["skip"]) for e in spec["edges"]])
    import copy

    stages = []
    g1, gs1 = make_graph()
    stages.append(dict(cfg=copy.deepcopy(cfg), obs=_observe(g1, nodes, nsteps, gs1, "episode 0"), calls=[]))

    def change_expected(k):
        calls = []
        for _ in range(k):
            if rng.random() < 0.5:
                nd = rng.choice(spec["nodes"][:-1] if rng.random() < 0.8 else spec["nodes"])  # mostly nodes that have something downstream
                period_ms = 1000 // nd["rate"]
                v = rng.choice([0.0, rng.randint(1, max(1, period_ms // 3)) / 1000.0, rng.randint(1, max(1, period_ms // 3)) / 1000.0])
                nodes[nd["name"]].set_delay(delay=v)
                cfg["nodes"][nd["name"]]["delay"] = v
                calls.append(f"{nd['name']}.set_delay(delay={v})")
            else:
                live = [k for k, e in enumerate(spec["edges"]) if not e["skip"]]
                i = rng.choice(live) if rng.random() < 0.85 else rng.randrange(len(spec["edges"]))
                e = spec["edges"][i]
                v = rng.choice([0.0, rng.randint(1, 9) / 1000.0, rng.randint(1, 9) / 1000.0])
                nodes[e["dst"]].inputs[e["src"]].set_delay(delay=v)
                cfg["edges"][i]["delay"] = v
                calls.append(f"{e['dst']}.inputs[{e['src']}].set_delay(delay={v})")
        return calls

    calls = change_expected(rng.randint(1, 3))
    stages.append(dict(cfg=copy.deepcopy(cfg), obs=_observe(g1, nodes, nsteps, gs1, "episode 1 (same warmed-up graph, after set_delay(delay=...))"), calls=calls))
    calls = change_expected(rng.randint(1, 2))
    stages.append(dict(cfg=copy.deepcopy(cfg), obs=_observe(g1, nodes, nsteps, gs1, "episode 2 (same warmed-up graph, after a 2nd round of set_delay(delay=...))"), calls=calls))

    # new delay distributions (and expected delays) -> a new graph over the same node objects
    calls = []
    for _ in range(rng.randint(1, 3)):
        if rng.random() < 0.5:
            nd = rng.choice(spec["nodes"])
            period_ms = 1000 // nd["rate"]
            v = rng.randint(1, max(1, period_ms // 4)) / 1000.0
            with_delay = rng.random() < 0.6
            nodes[nd["name"]].set_delay(delay_dist=_dist(rng.choice(["raw", "wrapped"]), v), delay=v if with_delay else None)
            cfg["nodes"][nd["name"]]["sim"] = v
            if with_delay:
                cfg["nodes"][nd["name"]]["delay"] = v
            calls.append(f"{nd['name']}.set_delay(delay_dist=Deterministic({v}), delay={v if with_delay else None})")
        else:
            i = rng.randrange(len(spec["edges"]))
            e = spec["edges"][i]
            v = rng.randint(0, 6) / 1000.0
            with_delay = rng.random() < 0.6
            nodes[e["dst"]].inputs[e["src"]].set_delay(delay_dist=_dist(rng.choice(["raw", "wrapped", "trainable"]), v), delay=v if with_delay else None)
            cfg["edges"][i]["sim"] = v
            if with_delay:
                cfg["edges"][i]["delay"] = v
            calls.append(f"{e['dst']}.inputs[{e['src']}].set_delay(delay_dist=Deterministic({v}), delay={v if with_delay else None})")
    g2, gs2 = make_graph()
    stages.append(dict(cfg=copy.deepcopy(cfg), obs=_observe(g2, nodes, nsteps, gs2, "episode 3 (new AsyncGraph after set_delay(delay_dist=...))"), calls=calls))
    return dict(spec=spec, stages=stages)
