"""Extractor extension used by the C20 kernels (harness/kernels_c20.py): a subclass of extract.Tr, selected per kernel with
`tr_class=TrC20`; every other kernel keeps using extract.Tr.

Extra forms
  * spec["sym"] = "StrTable"      `dict(k=f, ...)` / `{"k": f, ...}`                    ==> `[("k", "<text of f>"), ...]`
  * spec["sym"] = "IfChainTable"  `if S == 'a': x = f(x) elif S == 'b': x = g(x) ... else: raise`  ==> `[("a", "f"), ("b", "g"), ...]`
  * spec["sym"] = "Path"          attribute / constant-subscript chain `self.config.X`   ==> `["self", "config", "X"]`
  * spec["sym"] = "Str"           a string literal                                      ==> the literal
  * spec["sym"] = "DictKeys"      `{"a": x, "b": y}`                                    ==> `["a", "b"]`
  * spec["sym"] = "Text"          any expression                                        ==> its `ast.unparse` text as a string
    (the Lean result type is given with spec["rtype"])
  * spec["kwfuns"] = {"callee text": (lean_fun, [kw1, kw2, ...])}: a call `callee(p1, .., kw1=v1, kw2=v2)` becomes
    `(lean_fun p1 .. v1 v2)`; every listed keyword must be present, no other keyword may be. Keywords named in spec["kwbool"]
    are translated as Bool expressions, the others as carrier expressions (their types are given with spec["types"]).
  * string tests on the names listed in spec["strs"]:  `'lit' in k`, `k in k`, `k == 'lit'`  ==>  `(strIn "lit" k)` ... where
    `strIn : String → String → Bool` (Python's substring test) is a parameter of the generated definition (spec["sigs"]).
"""
import ast
import json

import extract
from extract import ExtractError, Tr


def _lstr(x):
    return json.dumps(x, ensure_ascii=False)


def _path(e):
    if isinstance(e, ast.Name):
        return [e.id]
    if isinstance(e, ast.Attribute):
        return _path(e.value) + [e.attr]
    if isinstance(e, ast.Subscript) and isinstance(e.slice, ast.Constant) and isinstance(e.slice.value, (str, int)):
        return _path(e.value) + [f"[{e.slice.value!r}]"]
    raise ExtractError(f"not an attribute path: `{ast.unparse(e)}`")


def _pairs(items):
    return "[" + ", ".join(f"({_lstr(k)}, {_lstr(v)})" for k, v in items) + "]"


def symbolic(spec, expr):
    kind = spec["sym"]
    if kind == "StrTable":
        items = []
        if isinstance(expr, ast.Call) and ast.unparse(expr.func) == "dict" and not expr.args:
            for k in expr.keywords:
                if k.arg is None:
                    raise ExtractError("dict(**x) in lookup table")
                items.append((k.arg, ast.unparse(k.value)))
        elif isinstance(expr, ast.Dict):
            for k, v in zip(expr.keys, expr.values):
                if not (isinstance(k, ast.Constant) and isinstance(k.value, str)):
                    raise ExtractError("non-literal key in lookup table")
                items.append((k.value, ast.unparse(v)))
        else:
            raise ExtractError(f"expected a dict(...) lookup table, got `{ast.unparse(expr)[:80]}`")
        # Python dict: a later duplicate key overrides; List.lookup returns the first match -> keep the last occurrence only
        seen, out = set(), []
        for k, v in reversed(items):
            if k not in seen:
                seen.add(k)
                out.append((k, v))
        out.reverse()
        return _pairs(out)
    if kind == "IfChainTable":
        subj, var = spec["subject"], spec.get("var", "x")
        items, node = [], expr
        while True:
            if not isinstance(node, ast.If):
                raise ExtractError("expected an if statement")
            t = node.test
            if not (isinstance(t, ast.Compare) and len(t.ops) == 1 and isinstance(t.ops[0], ast.Eq) and ast.unparse(t.left) == subj
                    and isinstance(t.comparators[0], ast.Constant) and isinstance(t.comparators[0].value, str)):  # fmt: skip
                raise ExtractError(f"if-chain test is not `{subj} == '<literal>'`: `{ast.unparse(t)}`")
            b = node.body
            if not (len(b) == 1 and isinstance(b[0], ast.Assign) and len(b[0].targets) == 1 and ast.unparse(b[0].targets[0]) == var
                    and isinstance(b[0].value, ast.Call) and len(b[0].value.args) == 1 and not b[0].value.keywords
                    and ast.unparse(b[0].value.args[0]) == var):  # fmt: skip
                raise ExtractError(f"if-chain body is not `{var} = f({var})`: `{'; '.join(ast.unparse(x) for x in b)[:120]}`")
            key = t.comparators[0].value
            if key not in [k for k, _ in items]:  # an earlier branch with the same literal wins, as in Python
                items.append((key, ast.unparse(b[0].value.func)))
            if len(node.orelse) == 1 and isinstance(node.orelse[0], ast.If):
                node = node.orelse[0]
                continue
            if len(node.orelse) == 1 and isinstance(node.orelse[0], ast.Raise):
                break
            raise ExtractError("if-chain does not end in `else: raise ...`")
        return _pairs(items)
    if kind == "Path":
        return "[" + ", ".join(_lstr(x) for x in _path(expr)) + "]"
    if kind == "Str":
        if not (isinstance(expr, ast.Constant) and isinstance(expr.value, str)):
            raise ExtractError(f"expected a string literal, got `{ast.unparse(expr)[:80]}`")
        return _lstr(expr.value)
    if kind == "DictKeys":
        if not (isinstance(expr, ast.Dict) and all(isinstance(k, ast.Constant) and isinstance(k.value, str) for k in expr.keys)):
            raise ExtractError(f"expected a dict literal with string keys, got `{ast.unparse(expr)[:80]}`")
        return "[" + ", ".join(_lstr(k.value) for k in expr.keys) + "]"
    if kind == "Text":  # the normalised source text of the expression itself (a textual pin for forms outside every other language)
        return _lstr(ast.unparse(expr))
    raise ExtractError(f"unknown symbolic kind {kind}")


class TrC20(Tr):
    def __init__(self, spec):
        super().__init__(spec)
        self._top = True
        self.kwfuns = spec.get("kwfuns", {})
        self.kwbool = set(spec.get("kwbool", []))
        self.strs = set(spec.get("strs", []))

    def num(self, e):
        top, self._top = self._top, False
        if top and self.spec.get("sym"):
            return symbolic(self.spec, e)
        if isinstance(e, ast.Call) and ast.unparse(e.func) in self.kwfuns:
            fn, kws = self.kwfuns[ast.unparse(e.func)]
            given = {k.arg: k.value for k in e.keywords}
            if None in given or sorted(given) != sorted(kws):
                raise ExtractError(f"call of `{ast.unparse(e.func)}`: expected exactly the keywords {kws}, found {sorted(k for k in given if k)}")
            if fn not in self.funparams:
                self.funparams.append(fn)
            parts = [self.num(a) for a in e.args] + [self.boolean(given[k]) if k in self.kwbool else self.num(given[k]) for k in kws]
            return "(" + " ".join([fn] + parts) + ")"
        return super().num(e)

    def boolean(self, e):
        self._top = False
        return super().boolean(e)

    def _cmp(self, op, l, r):
        if self.strs and isinstance(op, (ast.In, ast.Eq)):

            def sv(x):
                if isinstance(x, ast.Constant) and isinstance(x.value, str):
                    return _lstr(x.value)
                tx = self.rename.get(ast.unparse(x), extract._san(ast.unparse(x)))
                if isinstance(x, (ast.Name, ast.Attribute)) and tx in self.strs:
                    return self.var(ast.unparse(x))
                return None

            a, b = sv(l), sv(r)
            if a is not None and b is not None:
                if isinstance(op, ast.Eq):
                    return f"({a} == {b})"
                if "strIn" not in self.funparams:
                    self.funparams.append("strIn")
                return f"(strIn {a} {b})"
        return super()._cmp(op, l, r)
