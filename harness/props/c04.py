"""C04 — step start times obey the documented rate, phase, delay and scheduling law."""
import asynccheck as ac
import monitors_async as mon
from common import Result

INFO = dict(
    level="proof",
    rule="same generator as C03 (computation delays up to 1.7 periods, FREQUENCY and PHASE scheduling, advance with blocking inputs, jittery communication); the recurrences "
    "(scheduled time, start law incl. advance, drift recurrence per scheduling mode, never-early, end law with the sampled delay, arrival law with FIFO, FREQUENCY spacing) are "
    "re-evaluated from (configuration, sampled delay streams, recorded blocking arrivals) on every real record, and the record is compared bit-exactly with the Lean machine. "
    "Non-trivial: the episode contains an overrun (previous step ends after the drifted schedule) or a step held by a late blocking input",
    trusted=[
        "Lean machine level (every schedule): start law, previous-end / shift / scheduled-time recurrences, non-overlap, arrival recurrence of every recorded message (Async/Records, Chain, Arrival)",
        "harness/extract.py for the kernels of push_scheduled_ts / push_phase_shift / push_step / push_ts_input",
        "monitors: harness/monitors_async.py; delay streams obtained from the wrappers' own jitted samplers",
    ],
    assumptions=["'overrun' = the previous step ends after the scheduled time (a late blocking input does not shift the schedule; DESIGN section 5, C04)",
                 "float64 host arithmetic: monitors use EPS = 1e-9; the Lean machine comparison is bit-exact"],
)


def run(ctx):
    res = Result()
    n = ctx.n(14, 14 if ctx.search else 80)
    nsteps = 10
    for t, r, ep, mo in ac.run_async_cases(ctx, res, n, nsteps=nsteps):
        spec = r["spec"]
        res.evaluations += 1
        for f in r["feats"]:
            res.count("feat:" + f)
        fails, stats = mon.c04_monitor(spec, ep["record"], ep["cfg"], nsteps)
        for k, v in stats.items():
            res.count(k, v)
        for key, desc in fails[:3]:
            res.fail(key, f"seed={t['args']['seed']} api={ep['api']}: {desc}", dict(task=t, spec=spec, api=ep["api"], all=[d for _, d in fails[:10]]))
        if stats["overruns_freq"] + stats["overruns_phase"] + stats["input_held"] > 0:
            res.nontriv(dict(seed=t["args"]["seed"], api=ep["api"]))
        if mo is not None:
            if ac.compare_model(spec, ep, mo, res, f"seed={t['args']['seed']} api={ep['api']}"):
                res.traces += 1
        if len(res.samples) < 2:
            res.samples.append(dict(seed=t["args"]["seed"], spec=spec, stats=stats))
    return res
