"""C01 — compiled replay reproduces the recorded asynchronous execution step for step."""
import json

import asynccheck as ac
import compiledcheck as cc
from common import Result

INFO = dict(
    level="proof",
    rule="random graphs (plus a family with a node 15-18x faster than the supervisor and a family of equal-rate peers, and a dyadic family with trainable zero-order-hold delays at their minimum: exact arrival/start ties through apply_delay) of integer probe nodes (any wrong slot / order / double execution changes every later value; "
    "payloads carry a 3-element leaf whose rows must stay together) -> 2 recorded async episodes of different lengths "
    "(simulated clock, all record settings on) -> ExperimentRecord.to_graph() -> Graph(...) for {MCS, GENERATIONAL, TOPOLOGICAL} x {prune, no prune} -> init with the same rng/params/state -> "
    "init_record + rollout; every executed compiled step is compared with the async step of the same node and sequence number (eps, seq, times as float32, rng, state, windows: seq/ts/payload, output). "
    "Non-trivial: the graph has >=1 blocking and >=1 skipped connection, a window > 1 and mixed rates",
    trusted=[
        "Lean machine level (every schedule): every window entry of a recorded async step is a default entry or the sender's recorded output of that sequence number (Async/Payload.lean)",
        "Lean: dataflow evaluation is independent of the order among valid schedules; async windows = last-w-consumed (Props/C01.lean); the supergraph library and JAX control flow are modelled, not verified",
        "correspondence: harness/compiledcheck.py; probe nodes harness/rt.py",
    ],
    assumptions=["negative window sequence numbers may differ (any negative value means default output)", "async episode e is started with graph_state.eps = e (DESIGN 6.4)"],
)


def run(ctx):
    import pool

    res = Result()
    n = ctx.n(6, 10 if ctx.search else 40)
    seeds = [ctx.rng.randrange(1 << 30) for _ in range(n)]
    tasks = [dict(fn="tasks_rt:compiled_case", args=dict(seed=s), timeout=900) for s in seeds]
    # families the random generator rarely produces: a node much faster than the supervisor (>= 11 slots of one kind per partition), peers sharing a generation
    tasks += [dict(fn="tasks_rt:compiled_case", args=dict(seed=ctx.rng.randrange(1 << 30), spec_kind=k), timeout=900) for k in ["high_ratio", "equal_rates", "trainable"] * ctx.n(1, 3)]
    good = ac.pool_cases(tasks, res, timeout=900)
    for t, r in good:
        if r.get("skipped"):
            res.count("skipped:" + r["skipped"])
            continue
        spec = r["spec"]
        for f in r["feats"]:
            res.count("feat:" + f)
        feats = set(r["feats"])
        for entry in r["compiled"]:
            for e, crec in enumerate(entry["episodes"]):
                res.evaluations += 1
                diffs, rows = cc.compare_async_compiled(spec, r["async_records"][e], crec, e)
                res.count("rows_compared", rows)
                res.count(f"mode:{entry['mode']}/prune={entry['prune']}")
                if rows == 0:
                    res.fail("empty_horizon", f"seed={t['args']['seed']} {entry['mode']} prune={entry['prune']} episode {e}: the compiled rollout executed no step at all", dict(task=t, spec=spec))
                for d in diffs[:2]:
                    res.fail("replay_mismatch", f"seed={t['args']['seed']} {entry['mode']} prune={entry['prune']} episode {e}: {d}", dict(task=t, spec=spec, mode=entry["mode"], prune=entry["prune"], episode=e, diffs=diffs[:10]))
                if {"blocking", "skip", "window>1", "mixed_rates"} <= feats:
                    res.nontriv(dict(seed=t["args"]["seed"], mode=entry["mode"], prune=entry["prune"], e=e))
        res.traces += 1
        if len(res.samples) < 2:
            res.samples.append(dict(seed=t["args"]["seed"], spec=spec, lengths=r["lengths"], compile_s=[(c["mode"], c["prune"], c["compile_s"]) for c in r["compiled"]]))
    return res
