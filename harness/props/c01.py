"""C01 — compiled replay reproduces the recorded asynchronous execution step for step."""
import json

import asynccheck as ac
import compiledcheck as cc
from common import Result

INFO = dict(
    level="proof",
    rule="random graphs (plus a family with a node 15-18x faster than the supervisor and a family of equal-rate peers, and a dyadic family with trainable zero-order-hold delays at their minimum: exact arrival/start ties through apply_delay) of integer probe nodes (any wrong slot / order / double execution changes every later value; "
    "payloads carry a 3-element leaf whose rows must stay together) -> 2 recorded async episodes of different lengths "
    "(simulated clock, all record settings on) -> ExperimentRecord.to_graph() -> Graph(...) for {MCS, GENERATIONAL, TOPOLOGICAL} x {prune, no prune} -> init with the same rng/params/state -> "
    "init_record + rollout; every executed compiled step is compared with the async step of the same node and sequence number (eps, seq, times as float32, rng, state, windows: seq/ts/payload, output). "
    "For half of the random graphs the abstract executor of the Lean model (Compiled/Exec.lean: per generation all cells read slot seq % size of the payload buffers as they are at the start of the generation and "
    "the node's carried state, compute, then write) is run by the driver on the real Graph.timings with the probe step function, and every output / next state is compared with the real compiled run (sched.exec). "
    "Non-trivial: the graph has >=1 blocking and >=1 skipped connection, a window > 1 and mixed rates",
    trusted=[
        "Lean machine level (every schedule): every window entry of a recorded async step is a default entry or the sender's recorded output of that sequence number (Async/Payload.lean)",
        "Lean: dataflow evaluation is independent of the order among valid schedules; async windows = last-w-consumed (Props/C01.lean); the supergraph library and JAX control flow are modelled, not verified",
        "Lean (every trace): the executor refines the dataflow evaluation — C01_compiled_executor_refines_dataflow (hypotheses: replay succeeds = C08, no vertex twice, no dependency in the cell's own generation, one cell "
        "per node and generation, steps in sequence order) and C01_accepted_instance_executor_refines for the decision procedures execHypOk / sizedOk the driver evaluates on every exported instance; "
        "trainable-delay windows (apply_delay inside the step) are not part of the executor model (C10, C11)",
        "correspondence: harness/compiledcheck.py; probe nodes harness/rt.py; executor model vs compiled run in harness/props/c01.py",
    ],
    assumptions=["negative window sequence numbers may differ (any negative value means default output)", "async episode e is started with graph_state.eps = e (DESIGN 6.4)"],
)


def run(ctx):
    import pool

    res = Result()
    n = ctx.n(6, 10 if ctx.search else 40)
    seeds = [ctx.rng.randrange(1 << 30) for _ in range(n)]
    tasks = [dict(fn="tasks_rt:compiled_case", args=dict(seed=s, exec_export=(k % 2 == 0)), timeout=900) for k, s in enumerate(seeds)]
    # families the random generator rarely produces: a node much faster than the supervisor (>= 11 slots of one kind per partition), peers sharing a generation
    tasks += [dict(fn="tasks_rt:compiled_case", args=dict(seed=ctx.rng.randrange(1 << 30), spec_kind=k, exec_export=(k != "trainable")), timeout=900) for k in ["high_ratio", "equal_rates", "trainable"] * ctx.n(1, 3)]
    good = ac.pool_cases(tasks, res, timeout=900)
    xcmds, xmeta = [], []
    for t, r in good:
        if r.get("skipped"):
            res.count("skipped:" + r["skipped"])
            continue
        spec = r["spec"]
        for f in r["feats"]:
            res.count("feat:" + f)
        feats = set(r["feats"])
        for entry in r["compiled"]:
            for e, crec in enumerate(entry["episodes"]):
                res.evaluations += 1
                diffs, rows = cc.compare_async_compiled(spec, r["async_records"][e], crec, e)
                res.count("rows_compared", rows)
                res.count(f"mode:{entry['mode']}/prune={entry['prune']}")
                if rows == 0:
                    res.fail("empty_horizon", f"seed={t['args']['seed']} {entry['mode']} prune={entry['prune']} episode {e}: the compiled rollout executed no step at all", dict(task=t, spec=spec))
                for d in diffs[:2]:
                    res.fail("replay_mismatch", f"seed={t['args']['seed']} {entry['mode']} prune={entry['prune']} episode {e}: {d}", dict(task=t, spec=spec, mode=entry["mode"], prune=entry["prune"], episode=e, diffs=diffs[:10]))
                if {"blocking", "skip", "window>1", "mixed_rates"} <= feats:
                    res.nontriv(dict(seed=t["args"]["seed"], mode=entry["mode"], prune=entry["prune"], e=e))
        # the abstract executor of the Lean model on the same instances, with the probe step function
        if "probe" in r:
            for entry in r["compiled"]:
                for e, ex in enumerate(entry.get("exec", [])):
                    xcmds.append(dict(cmd="sched.exec", sizes=ex["sizes"], w=r["probe"]["w"], s0=r["probe"]["s0"], y0=r["probe"]["y0"], draws=r["probe"]["draws"], **ex["inst"]))
                    xmeta.append((t, r, entry, e))
        res.traces += 1
        if len(res.samples) < 2:
            res.samples.append(dict(seed=t["args"]["seed"], spec=spec, lengths=r["lengths"], compile_s=[(c["mode"], c["prune"], c["compile_s"]) for c in r["compiled"]]))
    xouts = ac.run_driver_parallel(xcmds) if (ctx.driver is not None and xcmds) else []
    for (t, r, entry, e), o in zip(xmeta, xouts):
        res.evaluations += 1
        tag = f"seed={t['args']['seed']} {entry['mode']} prune={entry['prune']} episode {e}"
        if "error" in o:
            res.corr_diff("compiled-exec", f"{tag}: driver error {o['error']}", dict(task=t))
            continue
        res.count("exec_model_instances")
        res.count("exec_refinement_theorem_applies" if (o["exec_hyp"] and o["sized"]) else "exec_refinement_hypotheses_unmet")
        res.count("exec_order_valid" if o.get("valid_in") else "exec_order_not_valid")
        names = r["probe"]["names"]
        crec = entry["episodes"][e]
        bad = None
        nrows = 0
        for kind, seq, st, y in o["rows"]:
            rec = crec[names[kind]]
            if seq >= rec["n"] or rec["seq"][seq] != seq:
                continue  # beyond the executed horizon of the real rollout
            nrows += 1
            if y is None or rec["output"][seq] != y:
                bad = f"node {names[kind]} step {seq}: the compiled runtime produced output {rec['output'][seq]}, the abstract executor of the model {y}"
                break
            if seq + 1 < rec["n"] and rec["seq"][seq + 1] == seq + 1 and rec["state"][seq + 1] != st:
                bad = f"node {names[kind]} step {seq}: the compiled runtime left state {rec['state'][seq + 1]}, the abstract executor of the model {st}"
                break
        res.count("exec_model_rows_compared", nrows)
        if bad:
            res.corr_diff("compiled-exec", f"{tag}: {bad}", dict(task=t, spec=r["spec"], mode=entry["mode"], prune=entry["prune"], episode=e))
    return res
