"""C20 — the exported policy computes the same action as the trained actor."""
import math
import sys

import common
from common import Result

INFO = dict(
    level="proof",
    rule="random ActorCritic.init parameters (depth 0-4, width 1-64, obs/action dims, all four activations, squash on/off, normalisation on/off with "
    "clip in {1,5,10} and a near-constant observation dimension, non-zero log_std) with observations inside, far outside (up to 1e6) and one-coordinate-"
    "outside the training range: real rex.ppo.Policy.get_action (det. and with rng; vmapped and unbatched) vs an independent reference built from "
    "rex.actor_critic.Actor with written-out normalisation/squashing, vs the Lean model (generated kernels on Float) and a float64 numpy forward pass; plus "
    "tiny real ppo.train runs comparing PPOResult.policy with the trained Actor AND with the actions the in-training evaluation loop itself applied. "
    "A network case is non-trivial when depth >= 2 or width != obs dim; a training case when the trained log_std moved away from 0",
    trusted=[
        "harness/extract.py + harness/extract_c20.py (Python ast -> Lean) for the activation table / if-chain, key filter, loop bound and Dense_i index expressions, "
        "Gaussian (loc, scale) arguments, normalisation and squashing expressions and call-site flags, get_action dataflow, PPOResult->Policy wiring",
        "modelled, not verified: flax nn.Dense (abstract `dense`), flax auto-naming Dense_k of the k-th Dense created in a compact __call__ (checked per case: "
        "the parameter dict of Actor(num_hidden_layers=n) has exactly the keys Dense_0..Dense_n, log_std), the activation functions behind nn.tanh/relu/gelu/softplus "
        "(both files import flax.linen as nn; checked at run time), distrax MultivariateNormalDiag (mean()=loc, sample(seed)=loc+scale*normal(seed), checked per case), "
        "numpy broadcasting, Python's substring test on the dict keys (hypothesis StrInOk; checked at run time), jit/vmap/float32 rounding (tolerance scaled by the "
        "largest magnitude inside the network)",
        "the training-time paths (in-training evaluation, trajectory collection) are hand-written dataflow models around extracted flags/expressions; the in-training "
        "evaluation path is additionally observed directly through Config.EVAL_METRICS_JAX_CB in the real training runs",
    ],
    assumptions=[
        "supported class: gaussian head with STATE_INDEPENDENT_STD=True (what PPOResult.policy exports consistently)",
        "the parameter dict has the keys Dense_0..Dense_n, log_std for an Actor with n hidden layers",
        "low <= high for the action box, clip >= 0 for the observation normalisation",
        "floating point: equalities hold up to float32 rounding",
    ],
)

WIDTHS = [1, 2, 3, 5, 8, 16, 33, 64]


def _gen_specs(rng, n, n_obs, group=5):
    """`group` consecutive cases share (width, obs_dim, act_dim) — one worker handles them, so XLA compiles each shape once —
    and differ in depth, activation, squash, normalisation, clip, parameters and observations."""
    from tasks_c20 import ACTS

    specs = []
    shape = None
    for i in range(n):
        if i % group == 0:
            shape = dict(width=WIDTHS[(i // group) % len(WIDTHS)] if i < group * len(WIDTHS) else rng.choice(WIDTHS), obs_dim=rng.randint(1, 6), act_dim=rng.randint(1, 4))
        depth = i % 5 if i < 10 else rng.randint(0, 4)  # every depth at least twice
        if i in (10, 11) or (i > 11 and rng.random() < 0.08):
            depth = rng.choice([9, 10, 11, 12])  # two-digit layer names (Dense_10 sorts before Dense_2)
        spec = dict(
            seed=rng.randrange(1, 2**30), depth=depth, **shape,
            activation=ACTS[i % 4] if i < 8 else rng.choice(ACTS), squash=bool((i // 2) % 2) if i < 8 else rng.random() < 0.5,
            normalize=bool(i % 2) if i < 8 else rng.random() < 0.65, clip=rng.choice([10.0, 10.0, 5.0, 1.0]), n_obs=n_obs, tiny_var=rng.random() < 0.5,
        )  # fmt: skip
        specs.append(spec)
    return specs


def _far(a, b, tol):
    """True when a and b differ by more than tol (NaN only equals NaN, an infinity only itself)"""
    if math.isnan(a) or math.isnan(b):
        return not (math.isnan(a) and math.isnan(b))
    if math.isinf(a) or math.isinf(b):
        return a != b
    return abs(a - b) > tol


def _tol(mag, span, val, depth):
    raw = 2e-6 * (1.0 + mag) * (depth + 2)  # measured worst case on the unchanged tree: 2% of this
    return raw * max(1.0, span / 2.0) + 1e-5 * (1.0 + abs(val))


def _judge_net(res, r, driver_out):
    """compare policy / reference / numpy / Lean model for one network case"""
    spec = r["spec"]
    tag = f"depth={spec['depth']} width={spec['width']} obs_dim={spec['obs_dim']} act_dim={spec['act_dim']} act={spec['activation']} squash={spec['squash']} normalize={spec['normalize']} clip={spec['clip']} seed={spec['seed']}"
    for p in r.get("problems", []):
        res.fail(p["key"], f"{tag}: {p['desc']}", dict(kind="net", spec=spec))
    if "obs" not in r:
        return
    span = max(h - l for l, h in zip(r["low"], r["high"]))
    n, A = len(r["obs"]), len(r["low"])
    res.count(f"depth={spec['depth']}")
    res.count(f"act={spec['activation']}")
    res.count("squash" if spec["squash"] else "clip_action")
    res.count("normalize" if spec["normalize"] else "raw_obs")
    if spec["depth"] >= 2 or spec["width"] != spec["obs_dim"]:
        res.nontriv(dict(s=spec["seed"], d=spec["depth"], w=spec["width"]))
    # distrax sampling convention assumed by the model: sample(seed=k) = loc + scale * normal(k, shape); the noise recovered from the
    # reference sample is only as accurate as float32 cancellation against the mean allows
    for i, (e, z) in enumerate(zip(r["eps"], r["normal"])):
        if any(abs(a - b) > 1e-4 * (1 + abs(b)) + 1e-6 * abs(m) / s for a, b, m, s in zip(e, z, r["ref_mean_raw"][i], r["ref_std"])):
            res.corr_diff("distrax_sample", f"{tag}: MultivariateNormalDiag.sample(seed=k) is not loc + scale*normal(k): recovered eps={e} normal={z} mean={r['ref_mean_raw'][i]}", dict(kind="net", spec=spec))
            break
    for i in range(n):
        obs = r["obs"][i]
        res.evaluations += 1
        mag = r["mag"][i]
        clipped = False
        if r["norm"] is not None:
            z = [(o - m) / math.sqrt(v + 1e-8) for o, m, v in zip(obs, r["norm"]["mean"], r["norm"]["var"])]
            clipped = any(abs(t) > r["norm"]["clip"] for t in z)
            res.count("obs_clipped" if clipped else "obs_in_clip_range")
            # monitor of the bound theorem on the reference's actor input
            if any(abs(t) > r["norm"]["clip"] * (1 + 1e-6) for t in r["ref_norm_obs"][i]):
                res.fail("actor_input_bound", f"{tag}: actor input {r['ref_norm_obs'][i]} outside +-clip", dict(kind="net", spec=spec, obs=obs))
        else:
            res.count("obs_far" if max(abs(o) for o in obs) > 50 else "obs_near")
        desc = f"{tag} obs={obs}"
        replay = dict(kind="net", spec=spec, obs_index=i, obs=obs)
        # third opinion on the reference itself (float64 numpy): protects against a reference that is wrong in the same way
        for a in range(A):
            if abs(r["np_mean"][i][a] - r["ref_mean_raw"][i][a]) > 1e-5 * (1 + mag) * (spec["depth"] + 2):
                res.corr_diff("numpy_vs_actor", f"{desc}: float64 forward pass gives mean {r['np_mean'][i]} but flax Actor gives {r['ref_mean_raw'][i]}", replay)
                break
        # REAL policy vs reference: deterministic, sampled, batched and unbatched
        pairs = [("policy_det", "policy.get_action(obs)", r["got_det"][i], r["ref_det"][i], "actor mean"), ("policy_sample", "policy.get_action(obs, rng=key)", r["got_smp"][i], r["ref_smp"][i], "actor pi.sample(seed=key)")]
        if i < len(r["got_det_u"]):
            pairs += [("policy_det", "unbatched policy.get_action(obs)", r["got_det_u"][i], r["ref_det"][i], "actor mean"), ("policy_sample", "unbatched policy.get_action(obs, rng=key)", r["got_smp_u"][i], r["ref_smp"][i], "actor pi.sample(seed=key)")]
        if "got_bat" in r and i < len(r["got_bat"]):
            pairs.append(("policy_sample", "row of policy.get_action(batch of observations, rng=one key)", r["got_bat"][i], r["ref_bat"][i], "actor pi.sample(seed=key) on the batch"))
        for key, what, got, want, wname in pairs:
            m2 = mag + (0 if key == "policy_det" else (max(abs(e) for e in r["normal"][i]) + 4.0) * max(r["ref_std"]))
            bad = len(got) != len(want) or any(_far(g, w, _tol(m2, span, w, spec["depth"])) for g, w in zip(got, want))
            if bad:
                extra = ""
                if key == "policy_sample" and not spec["squash"]:
                    extra = f"; actor std exp(log_std)={r['ref_std']}, noise eps={r['normal'][i]}, actor mean={r['ref_mean_raw'][i]}"
                res.fail(key, f"{desc}: {what} = {got} but the {wname} under training-time normalisation (actor input {r['ref_norm_obs'][i]}{', clipped' if clipped else ''}) and "
                         f"{'squashing' if spec['squash'] else 'clipping'} to [{r['low']}, {r['high']}] gives {want}{extra}", replay)  # fmt: skip
                break
        # Lean model (generated kernels, Float) vs implementation
        if driver_out is not None:
            if "error" in driver_out:
                if i == 0:
                    res.corr_diff("model", f"{tag}: driver error {driver_out['error']}", replay)
                continue
            o = common.unbits(driver_out["out"][i])
            if o["action"] is None or o["sample"] is None:
                res.corr_diff("model", f"{desc}: the model raises (None) where the implementation returns {r['got_det'][i]}", replay)
                continue
            mm = max(mag, o["mag"])
            for name, mv, iv in (("action", o["action"], r["got_det"][i]), ("sample", o["sample"], r["got_smp"][i]), ("actor_input", o["seen"], r["ref_norm_obs"][i])):
                m3 = mm + (max(abs(e) for e in r["normal"][i]) * max(r["ref_std"]) if name == "sample" else 0)
                if len(mv) != len(iv) or any(_far(a, b, _tol(m3, span, b, spec["depth"]) if name != "actor_input" else 1e-4 * (1 + abs(b))) for a, b in zip(mv, iv)):
                    res.corr_diff("model_" + name, f"{desc}: Lean model {name} = {mv}, implementation = {iv}", replay)
                    break
            res.traces += 1
    if driver_out is not None and "error" not in driver_out:
        std = common.unbits(driver_out["std"])
        if any(abs(a - b) > 1e-5 * (1 + abs(b)) for a, b in zip(std, r["ref_std"])):
            res.corr_diff("model_std", f"{tag}: Lean model std {std} vs actor distribution stddev {r['ref_std']}", dict(kind="net", spec=spec))
        if driver_out["num_layers"] != spec["depth"] + 1:
            res.corr_diff("model_num_layers", f"{tag}: model counts {driver_out['num_layers']} Dense keys, Actor has {spec['depth'] + 1}", dict(kind="net", spec=spec))


def _static_checks(res):
    """run-time checks of the facts the model assumes about Python / the two modules"""
    sys.path.insert(0, common.REPO)
    import flax.linen as fnn

    import rex.actor_critic as ac
    import rex.ppo as ppo

    if ppo.nn is not fnn or ac.nn is not fnn:
        res.corr_diff("nn_alias", "rex.ppo.nn / rex.actor_critic.nn are not both flax.linen: the activation names of the two tables may denote different functions", dict(kind="static"))
    ok = all(("Dense" in f"Dense_{i}") for i in range(12)) and ("Dense" not in "log_std") and ("log_std" in "log_std")
    if not ok:
        res.corr_diff("strin", "Python substring test does not satisfy StrInOk", dict(kind="static"))


def run(ctx):
    import pool

    res = Result()
    rng = ctx.rng
    _static_checks(res)
    if ctx.replay and isinstance(ctx.replay.get("failure", {}).get("replay"), dict) and ctx.replay["failure"]["replay"].get("kind") in ("net", "train"):
        rp = ctx.replay["failure"]["replay"]
        specs = [rp["spec"]] if rp["kind"] == "net" else []
        trains = [rp["spec"]] if rp["kind"] == "train" else []
    else:
        n_net = ctx.n(60, 600) if not ctx.search else 240
        specs = _gen_specs(rng, n_net, 20)
        from tasks_c20 import ACTS

        n_train = ctx.n(2, 6) if not ctx.search else 4
        trains = []
        for k in range(n_train):
            trains.append(dict(seed=rng.randrange(1, 10**6), depth=rng.choice([0, 1, 3, 4]) if k else 3, width=rng.choice([3, 7, 12, 24]), activation=rng.choice(["relu", "gelu", "softplus"]) if k % 2 == 0 else rng.choice(ACTS),
                               squash=bool(k % 2 == 0), normalize=True if k % 3 != 1 else False, low=[-2.0, 0.5], high=[1.0, 4.0]))  # fmt: skip
    chunk = 5
    tasks = [dict(fn="tasks_c20:train_case", args=t, timeout=600) for t in trains]
    groups = [specs[i : i + chunk] for i in range(0, len(specs), chunk)]
    tasks += [dict(fn="tasks_c20:net_cases", args=dict(specs=g), timeout=600) for g in groups]
    outs = pool.run_tasks(tasks, timeout=600)
    touts, nouts = outs[: len(trains)], outs[len(trains) :]

    # ---- training runs
    for t, o in zip(trains, touts):
        replay = dict(kind="train", spec=t)
        if o is None or o.get("timeout") or "error" in o:
            res.fail("train_exception", f"ppo.train / PPOResult.policy raised or hung for {t}: {None if o is None else o.get('error', 'timeout')} {'' if o is None else o.get('traceback', '')[-500:]}", replay)
            continue
        res.count("train_runs")
        res.count(f"train_act={t['activation']}")
        res.evaluations += o["compared"] + o.get("eval_compared", 0)
        res.count("train_policy_vs_actor", o["compared"])
        res.count("train_policy_vs_eval_loop", o.get("eval_compared", 0))
        res.count("train_obs_clipped", o.get("clipped_obs", 0))
        if max(abs(x) for x in o["log_std"]) > 0.02:
            res.nontriv(dict(train=t["seed"], ls=o["log_std"]))
        else:
            res.notes.append(f"training run {t} left log_std at {o['log_std']}")
        for p in o["problems"]:
            res.fail(p["key"], p["desc"], replay)
        if len(res.samples) < 1:
            res.samples.append(dict(kind="train", cfg=o["cfg"], trained_log_std=o["log_std"], compared=o["compared"], eval_loop_compared=o.get("eval_compared")))

    # ---- random-parameter cases
    flat = []
    for g, o in zip(groups, nouts):
        if o is None or "results" not in o:
            for s in g:
                res.fail("net_exception", f"worker failed for network case {s}: {str(o)[:600]}", dict(kind="net", spec=s))
            continue
        flat += o["results"]
    cmds, idx = [], []
    if ctx.driver is not None:
        for k, r in enumerate(flat):
            if "layers" in r:
                cmds.append(dict(cmd="c20.policy", layers=r["layers"], log_std=r["log_std"], activation=r["spec"]["activation"], norm=r["norm"],
                                 act=dict(low=r["low"], high=r["high"], squash=bool(r["spec"]["squash"])), obs=r["obs"], eps=r["normal"]))  # fmt: skip
                idx.append(k)
    douts = {}
    if cmds:
        try:
            for k, o in zip(idx, ctx.driver.run(cmds)):
                douts[k] = o
        except Exception as ex:
            res.corr_diff("model", f"driver failed: {str(ex)[-400:]}", dict(kind="driver"))
    for k, r in enumerate(flat):
        _judge_net(res, r, douts.get(k))
        if len(res.samples) < 3 and "obs" in r:
            res.samples.append(dict(kind="net", spec=r["spec"], obs=r["obs"][1], policy=r["got_det"][1], actor_reference=r["ref_det"][1], actor_input=r["ref_norm_obs"][1]))
    return res
