"""C08 — input windows read exactly the scheduled messages from the output buffers."""
import asynccheck as ac
from common import Result

INFO = dict(
    level="proof",
    rule="compiled instances (random probe graphs, an equal-rate family whose producers and consumers share generations with tight buffers; 3 supergraph modes x prune on/off x episodes): static replay of every "
    "scheduled read/write against ring buffers of the automatically computed sizes, of user sizes (+0..3) and extra padding, and from late starting partitions, by the Lean replay Rex.Sched.replayOk; sensitivity: the replay "
    "must fail when the largest buffer is shrunk by one where the bound is tight (counted, not required); dynamic: rollouts with auto / user sizes / padding from step 0 and from a late step, every window payload compared "
    "with the producer's recorded output (or its default output). Non-trivial: rate ratio != 1 and window >= 2, or the equal-rate family",
    trusted=["Lean: ring safety for the extracted slot kernels seq % size; refinement of the replay's ring to 'the message with that sequence number' for every history of consecutive writes, any size, any first "
             "sequence number (C08_ring_reads_live_message / _stale_not_read / _default_until_full, C08_replay_read_live; hypothesis 'consecutive writes' decided per instance by the driver); model of Timings.get_buffer_sizes (Compiled/BufSize.lean) with "
             "C08_computed_size_bounds_live / C08_sized_ring_reads_scheduled / C08_sized_ring_keeps_default, compared with the implementation's sizes on every instance (sched.bufsize); end to end (Compiled/Trace.lean): C08_trace_end_to_end — every trace with consecutive writes, producers "
             "strictly earlier and sizes >= the model of get_buffer_sizes replays without a bad read — and C08_accepted_instance_replays(_from_any_start) for the decision procedure sizedOk the driver runs on every instance (late starts: default output for messages written before the start, never another message)",
             "the masking / reshaping glue of get_buffer_sizes (numpy masked arrays) is covered by the per-instance comparison, not by the model"],
    assumptions=["when execution starts at partition k > 0 a producer that has not run since the start provides its default output (documented for only_init)"],
)


def run(ctx):
    res = Result()
    n = ctx.n(3, 5 if ctx.search else 20)
    seeds = [ctx.rng.randrange(1 << 30) for _ in range(n + 3)]
    kinds = ["random"] * n + ["equal_rates", "equal_rates", "trainable"]
    tasks = [dict(fn="tasks_rt:sched_case", args=dict(seed=s, spec_kind=k, dynamic=True, modes=("MCS", "GENERATIONAL"), prunes=(True, False)), timeout=1500) for s, k in zip(seeds, kinds)]
    good = ac.pool_cases(tasks, res, timeout=1500)
    cmds, meta = [], []
    for t, r in good:
        if r.get("skipped"):
            res.count("skipped")
            continue
        for d in r["dynamic"]:
            res.evaluations += 1
            res.count("dynamic_reads", d["reads"])
            for b in d["bad"][:2]:
                res.fail("wrong_payload", f"seed={t['args']['seed']} ({t['args']['spec_kind']}) {d['mode']} prune={d['prune']} {d['label']} episode {d['episode']} start={d['start']}: {b}",
                         dict(task=t, spec=r["spec"], run=d))
        for it in r["instances"]:
            sizes = it["sizes"]
            variants = [("auto", sizes, 0), ("user", [s + ctx.rng.randint(0, 3) for s in sizes], 0), ("padded", [s + 2 for s in sizes], 0), ("late", sizes, min(2, it["inst"]["parts"] - 1))]
            for label, sz, start in variants:
                cmds.append(dict(cmd="sched.replay", sizes=sz, start=start, **it["inst"]))
                meta.append((t, r, it, label, sz, start, True))
            # sensitivity: shrink the largest buffer by one
            big = max(range(len(sizes)), key=lambda i: sizes[i])
            if sizes[big] > 1:
                sz = list(sizes)
                sz[big] -= 1
                cmds.append(dict(cmd="sched.replay", sizes=sz, start=0, **it["inst"]))
                meta.append((t, r, it, "shrunk", sz, 0, False))
    # model of get_buffer_sizes on the grid of every instance, compared with Timings.get_buffer_sizes
    I32MAX, I32MIN = 2147483647, -2147483648
    bcmds, bmeta = [], []
    for ti, (t, r) in enumerate(good):
        if r.get("skipped"):
            continue
        names = [n["name"] for n in r["spec"]["nodes"]]
        for it in r["instances"]:
            inst = it["inst"]
            G = inst["gens"]
            N = inst["parts"] * G
            mins, maxs = {}, {k: [I32MIN] * N for k in range(len(names))}
            for c in inst["cells"]:
                if not c["run"]:
                    continue
                pos = c["part"] * G + c["gen"]
                maxs[c["kind"]][pos] = max(maxs[c["kind"]][pos], c["seq"])
                for w in c["wins"]:
                    arr = mins.setdefault((c["kind"], w[0]), [I32MAX] * N)
                    arr[pos] = min([arr[pos]] + list(w[1]))
            keys = sorted(mins)
            if keys:
                bcmds.append(dict(cmd="sched.bufsize", pairs=[dict(min_in=mins[k], max_out=maxs[k[1]]) for k in keys]))
                bmeta.append((ti, it["mode"], it["prune"], keys, names, it["raw_sizes"], t, r))
    bouts = ac.run_driver_parallel(bcmds) if (ctx.driver is not None and bcmds) else []
    agg = {}
    for (ti, mode, prune, keys, names, raw, t, r), o in zip(bmeta, bouts):
        if "error" in o:
            res.corr_diff("sched.bufsize", f"driver error {o['error']}", dict(task=t))
            continue
        a = agg.setdefault((ti, mode, prune), dict(sizes={}, names=names, raw=raw, t=t, r=r))
        for k, v in zip(keys, o["sizes"]):
            a["sizes"][k] = max(a["sizes"].get(k, v), v)
    for (ti, mode, prune), a in agg.items():
        res.evaluations += 1
        res.count("bufsize_instances_compared")
        for pk, pname in enumerate(a["names"]):
            mine = sorted(v for (c, o_), v in a["sizes"].items() if o_ == pk)
            theirs = sorted(int(x) for x in a["raw"].get(pname, []))
            if mine != theirs:
                res.corr_diff("sched.bufsize", f"seed={a['t']['args']['seed']} ({a['t']['args']['spec_kind']}) {mode} prune={prune}: Timings.get_buffer_sizes gives {theirs} for the readers of {pname}, "
                              f"the model of the computation (Compiled/BufSize.lean) gives {mine}", dict(task=a["t"], spec=a["r"]["spec"], mode=mode, prune=prune, producer=pname))
                break
    outs = ac.run_driver_parallel(cmds) if (ctx.driver is not None and cmds) else []
    for (t, r, it, label, sz, start, must), o in zip(meta, outs):
        res.evaluations += 1
        if "error" in o:
            res.corr_diff("sched.replay", f"driver error {o['error']}", dict(task=t))
            continue
        if must and not o["ok"]:
            res.fail("ring_overwrite", f"seed={t['args']['seed']} ({t['args']['spec_kind']}) {it['mode']} prune={it['prune']} episode {it['episode']}: replaying the schedule against buffers of sizes {sz} ({label}, start {start}) "
                     f"reads a slot that does not hold the scheduled message (computed sizes {it['raw_sizes']})", dict(task=t, spec=r["spec"], mode=it["mode"], prune=it["prune"], episode=it["episode"], sizes=sz, label=label))
        if must and "consecutive" in o:
            # hypothesis of theorem C08_replay_read_live, decided by the model on this instance
            res.count("consecutive_writes_checked")
            if not o["consecutive"]:
                res.fail("write_order", f"seed={t['args']['seed']} ({t['args']['spec_kind']}) {it['mode']} prune={it['prune']} episode {it['episode']} (start {start}): a node does not write consecutive sequence numbers "
                         f"into its output buffer, so a ring of any size can hold a message other than the scheduled one", dict(task=t, spec=r["spec"], mode=it["mode"], prune=it["prune"], episode=it["episode"], label=label))
        if must and "sized" in o:
            # hypotheses of the end-to-end theorem C08_accepted_instance_replays_from_any_start, decided by the model for these sizes
            res.count(("end_to_end_theorem_applies" if o["sized"] else "end_to_end_hypotheses_unmet") + ("" if start == 0 else "_late_start"))
            if o["sized"] and not o["ok"]:
                res.corr_diff("sched.sized", "the decision procedure accepted an instance whose replay fails (contradicts theorem C08_accepted_instance_replays: driver / model out of sync)", dict(task=t))
            if not o["sized"] and o["ok"] and len(res.notes) < 6:
                res.notes.append(f"seed={t['args']['seed']} ({t['args']['spec_kind']}) {it['mode']} prune={it['prune']} episode {it['episode']} sizes {sz} ({label}): replay succeeds but the hypotheses of the end-to-end theorem are not met")
        if not must:
            res.count("tight_bound_confirmed" if not o["ok"] else "bound_has_slack")
        feats = set(r["feats"])
        if t["args"]["spec_kind"] == "equal_rates" or ({"mixed_rates", "window>1"} <= feats):
            res.nontriv(dict(seed=t["args"]["seed"], mode=it["mode"], prune=it["prune"], e=it["episode"], label=label))
        if len(res.samples) < 2:
            res.samples.append(dict(seed=t["args"]["seed"], mode=it["mode"], prune=it["prune"], sizes=sz, label=label, ok=o["ok"]))
    res.traces = len(outs)
    return res
