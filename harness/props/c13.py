"""C13 — recording is faithful and never changes the execution."""
import asynccheck as ac
import rt
from common import Result

INFO = dict(
    level="proof",
    rule="random probe graphs; threaded runtime: the same graph state executed under 5 record-setting combinations (all on, 3 random subsets, all off) x max_records in {unlimited, 3, 0}; "
    "compiled runtime (random supergraph mode / prune): no record, full record driven by reset()+max_steps x step() (executes the last partition), by rollout and by a shorter run() loop, and two partial "
    "record settings. Checked: supervisor observations / final graph states identical whatever the settings (non-interference); enabled fields equal the fully recorded ones, disabled fields absent, "
    "max_records keeps the first rows; every executed step has its row and never-executed rows stay -1; faithfulness by recomputation: each row's output and the next row's state are recomputed from "
    "the row's own (state, windows, rng, seq); plus one wall-clock episode with a node that moves its own ts (recorded delay = ts_end - ts_start). "
    "Non-trivial: a setting combination with >=1 field off and max_records below the number of steps",
    trusted=["Lean machine level (every schedule): every recorded row's output is the step function of the row's own inputs, recorded states chain (Async/Faithful.lean)",
             "Lean: records are write-only queues of the machine (Props/C13.lean: record_noninterference for every SPSC network), list model of the record rows",
             "probe arithmetic re-implemented in harness/rt.py:probe_recompute"],
    assumptions=["compiled records do not log message records (rex: inputs=None in compiled NodeRecords)"],
)


def run(ctx):
    res = Result()
    n = ctx.n(3, 6 if ctx.search else 30)
    nsteps = 8
    seeds = [ctx.rng.randrange(1 << 30) for _ in range(n)]
    tasks = [dict(fn="tasks_rt:record_case", args=dict(seed=s, nsteps=nsteps), timeout=900) for s in seeds]
    tasks.append(dict(fn="tasks_rt:wallclock_ts_case", args=dict(seed=0), timeout=300))
    for t, r in ac.pool_cases(tasks, res, timeout=900):
        seed = t["args"]["seed"]
        if t["fn"].endswith("wallclock_ts_case"):
            res.evaluations += 1
            for n_, rec in r["record"].items():
                for i in range(len(rec["seq"])):
                    if abs(rec["delay"][i] - (rec["ts_end"][i] - rec["ts_start"][i])) > 1e-6:
                        res.fail("wallclock_delay", f"wall-clock episode, node {n_} step {i}: recorded delay {rec['delay'][i]} != ts_end - ts_start = {rec['ts_end'][i] - rec['ts_start'][i]} "
                                 f"(node moves its own step_state.ts by 4 ms)", dict(task=t, node=n_, step=i))
                        break
            continue
        spec, sup = r["spec"], r["spec"]["supervisor"]
        runs = r["async_runs"]
        base = runs[0]
        # ---------------- threaded runtime
        for k, ar in enumerate(runs):
            res.evaluations += 1
            st, mr = ar["settings"], ar["max_records"]
            if k > 0:
                m = min(len(ar["obs"]), len(base["obs"]))
                if ar["obs"][:m] != base["obs"][:m]:
                    j = [i for i in range(m) if ar["obs"][i] != base["obs"][i]][0]
                    res.fail("interference", f"seed={seed} threaded: with record settings {st}, max_records={mr} the supervisor's observation {j} differs from the fully recorded run", dict(task=t, spec=spec, settings=st, max_records=mr))
                if any(not v for v in st.values()) and mr is not None and mr < nsteps:
                    res.nontriv(dict(seed=seed, k=k))
            for n_, rec in ar["record"].items():
                b = base["record"][n_]
                lim = nsteps if n_ == sup else 10 ** 9
                # how many steps the node executed in *this* run (a node other than the supervisor may be anywhere when the episode is
                # stopped: its row count is schedule dependent and is not compared with another run's)
                ex = (ar.get("executed") or {}).get(n_)
                if mr is not None and ex is not None:
                    res.count("max_records_checked_against_executed")
                    if rec["n"] != min(ex, mr):
                        res.fail("max_records", f"seed={seed} threaded: node {n_} executed {ex} steps with max_records={mr} and its record holds {rec['n']} rows (expected the first {min(ex, mr)})", dict(task=t, spec=spec, settings=st, max_records=mr))
                elif mr is not None and n_ == sup:
                    want = min(b["n"], mr)
                    if rec["n"] != want and not (rec["n"] <= mr and rec["n"] >= want - 1):
                        res.fail("max_records", f"seed={seed} threaded: supervisor {n_} recorded {rec['n']} rows with max_records={mr} (fully recorded run: {b['n']})", dict(task=t, spec=spec))
                elif mr is not None and rec["n"] > mr:
                    res.fail("max_records", f"seed={seed} threaded: node {n_} recorded {rec['n']} rows with max_records={mr}", dict(task=t, spec=spec))
                kk = min(rec["n"], b["n"], lim)
                for f in ("seq", "ts_start", "ts_end", "delay", "ts_scheduled", "ts_max"):
                    if f in rec and rec[f][:kk] != b[f][:kk]:
                        res.fail("interference", f"seed={seed} threaded: node {n_}.{f} differs under record settings {st}, max_records={mr}", dict(task=t, spec=spec, settings=st))
                        break
                # the message records of the recorded steps: the truncated / projected record restricted to its steps is the full one restricted to them
                for src, bm in (b.get("messages") or {}).items():
                    rm = (rec.get("messages") or {}).get(src)
                    if rm is None:
                        if kk > 0 and any(si < kk for si in bm["seq_in"]):
                            res.fail("projection", f"seed={seed} threaded: node {n_}: message record of {src} absent under settings {st}, max_records={mr} although {kk} steps are recorded", dict(task=t, spec=spec, settings=st))
                        continue
                    orphan = [si for si in rm["seq_in"] if si >= rec["n"]]
                    if orphan and rec["n"] > 0:
                        res.fail("projection", f"seed={seed} threaded: node {n_}: the message record of {src} under settings {st}, max_records={mr} lists {len(orphan)} message(s) as consumed by "
                                 f"step(s) {sorted(set(orphan))[:4]}, but only steps 0..{rec['n']-1} are recorded", dict(task=t, spec=spec, settings=st, max_records=mr))
                        break
                    for f in ac.MSG_FIELDS:
                        want_m = [x for x, si in zip(bm[f], bm["seq_in"]) if si < kk]
                        got_m = [x for x, si in zip(rm[f], rm["seq_in"]) if si < kk]
                        res.count("message_rows_compared", len(want_m))
                        if want_m != got_m:
                            res.fail("projection", f"seed={seed} threaded: node {n_}: message record of {src} ({f}) for the {kk} recorded steps under settings {st}, max_records={mr} has {len(got_m)} rows "
                                     f"{got_m[:6]}, the fully recorded run has {len(want_m)} rows {want_m[:6]}", dict(task=t, spec=spec, settings=st, max_records=mr))
                            break
                for f, key in (("rng", "rng"), ("state", "state"), ("output", "output"), ("inputs", "inputs")):
                    has_inputs = any(c["dst"] == n_ for c in spec["conns"])
                    if f == "inputs" and not has_inputs:
                        continue
                    if st[key] and rec["n"] > 0:
                        if f not in rec:
                            res.fail("projection", f"seed={seed} threaded: node {n_}: field {f} requested but absent", dict(task=t, spec=spec, settings=st))
                        elif f != "inputs" and rec[f][:kk] != b[f][:min(kk, len(b[f]))][:len(rec[f][:kk])]:
                            res.fail("projection", f"seed={seed} threaded: node {n_}.{f} under settings {st} differs from the fully recorded run", dict(task=t, spec=spec, settings=st))
                        elif f == "inputs":
                            for iname in rec["inputs"]:
                                if rec["inputs"][iname]["seq"][:kk] != b["inputs"][iname]["seq"][:kk] or rec["inputs"][iname]["data"][:kk] != b["inputs"][iname]["data"][:kk]:
                                    res.fail("projection", f"seed={seed} threaded: node {n_} recorded windows of {iname} under settings {st} differ from the fully recorded run", dict(task=t, spec=spec, settings=st))
                                    break
                    elif not st[key] and f in rec:
                        res.fail("projection", f"seed={seed} threaded: node {n_}: field {f} recorded although disabled", dict(task=t, spec=spec, settings=st))
        # faithfulness of the full record
        for n_, rec in base["record"].items():
            lim = min(rec["n"], nsteps) if n_ == sup else rec["n"]
            ns, ys = rt.probe_recompute({k: (v[:lim] if isinstance(v, list) else v) for k, v in rec.items() if k != "inputs"} | {"inputs": {i: {f: x[:lim] for f, x in w.items()} for i, w in rec.get("inputs", {}).items()}}, r["w"][n_])
            for i in range(lim):
                if i < len(rec.get("output", [])) and ys[i] != rec["output"][i]:
                    res.fail("faithful", f"seed={seed} threaded: node {n_} step {i}: recorded output {rec['output'][i]} is not what the step computes from the recorded state/inputs/rng ({ys[i]})", dict(task=t, spec=spec, node=n_, step=i))
                    break
                if i + 1 < lim and ns[i] != rec["state"][i + 1]:
                    res.fail("chain", f"seed={seed} threaded: node {n_}: state recorded before step {i+1} ({rec['state'][i+1]}) is not the state returned by step {i} ({ns[i]})", dict(task=t, spec=spec, node=n_, step=i))
                    break
            res.count("rows_recomputed", lim)
        # ---------------- compiled runtime
        tim = r.get("timings")
        groups = {}
        for c in r["compiled"]:
            res.evaluations += 1
            groups.setdefault((c["api"], c["nrun"]), []).append(c)
        for (api, nrun), cs in groups.items():
            for c in cs[1:]:
                if c["final"] != cs[0]["final"] or c["step"] != cs[0]["step"]:
                    bad = [n_ for n_ in c["final"] if c["final"][n_] != cs[0]["final"][n_]]
                    res.fail("interference", f"seed={seed} compiled ({r['mode']}, {api} x {nrun}): final graph state differs between record settings {cs[0]['settings']} and {c['settings']} (nodes {bad})",
                             dict(task=t, spec=spec, api=api))
        full = [c for c in r["compiled"] if c["settings"] and all(c["settings"].values())]
        for c in full:
            parts = range(c["nrun"] + 1) if c["api"] == "step" else range(c["nrun"])
            for n_, rec in c["record"].items():
                exp = set()
                for s in tim.values():
                    if s["kind"] == n_:
                        for p in parts:
                            if p < len(s["run"][0]) and s["run"][0][p]:
                                exp.add(s["seq"][0][p])
                got = {q for q in rec["seq"] if q >= 0}
                if got != exp:
                    res.fail("rows", f"seed={seed} compiled ({r['mode']}, {c['api']} x {c['nrun']}): node {n_}: recorded rows {sorted(got)} != executed steps {sorted(exp)} (missing {sorted(exp - got)}, extra {sorted(got - exp)})",
                             dict(task=t, spec=spec, api=c["api"], node=n_))
                    continue
                for i, q in enumerate(rec["seq"]):
                    if q < 0 and not (rec["ts_start"][i] == -1 and rec["eps"][i] == -1):
                        res.fail("rows", f"seed={seed} compiled: node {n_}: never-executed row {i} is not marked with -1", dict(task=t, spec=spec))
                        break
                rows = sorted(exp)
                ns, ys = rt.probe_recompute({k: ([v[i] for i in rows] if isinstance(v, list) else v) for k, v in rec.items() if k != "inputs"} |
                                            {"inputs": {i_: {f: [x[i] for i in rows] for f, x in w.items()} for i_, w in rec.get("inputs", {}).items()}}, r["w"][n_])
                outs_expected = (c["nrun"] if n_ == sup else 10 ** 9)
                for j, i in enumerate(rows):
                    if (n_ != sup or j < outs_expected) and ys[j] != rec["output"][i]:
                        res.fail("faithful", f"seed={seed} compiled ({r['mode']}, {c['api']}): node {n_} step {i}: recorded output {rec['output'][i]} is not what the step computes from the recorded state/inputs/rng ({ys[j]})",
                                 dict(task=t, spec=spec, node=n_, step=i))
                        break
                    if j + 1 < len(rows) and rows[j + 1] == i + 1 and ns[j] != rec["state"][i + 1]:
                        res.fail("chain", f"seed={seed} compiled: node {n_}: state recorded before step {i+1} is not the state returned by step {i}", dict(task=t, spec=spec, node=n_, step=i))
                        break
                res.count("compiled_rows_recomputed", len(rows))
        if full:
            fstep = [c for c in full if c["api"] == "step"]
            for c in r["compiled"]:
                if c["settings"] and not all(c["settings"].values()) and fstep and c["api"] == "step":
                    for n_, rec in c["record"].items():
                        b = fstep[0]["record"][n_]
                        for f in ("seq", "ts_start", "rng", "state", "output"):
                            if f in rec and rec[f] != b[f]:
                                res.fail("projection", f"seed={seed} compiled: node {n_}.{f} under settings {c['settings']} differs from the fully recorded run", dict(task=t, spec=spec))
                                break
                        for f, key in (("rng", "rng"), ("state", "state"), ("output", "output"), ("inputs", "inputs")):
                            if not c["settings"][key] and f in rec:
                                res.fail("projection", f"seed={seed} compiled: node {n_}: field {f} recorded although disabled", dict(task=t, spec=spec))
        res.traces += 1
        if len(res.samples) < 2:
            res.samples.append(dict(seed=seed, spec=spec, settings=[(a["settings"], a["max_records"]) for a in runs], compiled=[(c["api"], c["nrun"], c["settings"]) for c in r["compiled"]]))
    return res
