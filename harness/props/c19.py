"""C19 — RL environment wrappers account episodes, actions and statistics correctly (rex/rl.py)."""
import common
from common import Result, close, fbits, unbits

INFO = dict(
    level="proof",
    rule="multi-step histories (random rewards, terminations/truncations, extreme policy outputs, random action bounds, batch sizes 1-8) through the REAL wrappers in random valid "
    "stackings (incl. the rex.ppo order AutoReset->Log->Squash->Vec->NormObs->NormReward) over a small inner environment with a real GraphState and over a real rl.Environment on a "
    "compiled Graph; every step is checked against the property's own statements and the Lean model (generated kernels on Float). A scalar history is non-trivial when it contains >= 2 "
    "episode ends; a vectorised one when additionally the batch size is >= 2",
    trusted=[
        "harness/extract.py (Python ast -> Lean): expressions, straight-line blocks with if/else (SquashState.scale/unsquash, NormalizeVec.normalize/denormalize, Environment.step, "
        "AutoResetWrapper.step.is_done/not_done), keyword arguments of constructor calls",
        "modelled, not verified: arrays are handled one coordinate at a time (all operations are elementwise or reductions over the batch axis); jnp.mean / jnp.var = arithmetic mean / "
        "population variance; jnp.tanh / jnp.arctanh / jnp.sqrt = Real.tanh / log((1+x)/(1-x))/2 / Real.sqrt; booleans in arithmetic are 0/1; jax.lax.cond(p, a, b) = if p then a else b; "
        "jax.jit / jax.vmap preserve the semantics of the traced function (differentially tested: jit vs eager, vmap vs per-environment statistics)",
        "float32 rounding: theorems are over commutative rings / ordered fields / the reals; the implementation is compared with the exact statements under tolerances "
        "(1e-5 relative for accounting, 2e-4*(1+E[x^2]) for variances)",
        "the plumbing in lean/RexModel/Lib/Rl.lean (order in which the generated kernels feed each other) is hand-written; it is tied to the code by the model-vs-implementation comparison "
        "and by the declared parameter names of every kernel",
        "AutoResetWrapper: the construction of the selected initial state (stored init with the current rng and aux; or env.reset(rng_init) with rng_init split from the first "
        "non-preset node's rng) is not extracted; it is checked by the monitors on the real code only",
    ],
    assumptions=[
        "action bounds low <= high (low < high for the inverse laws); actions strictly inside the bounds for unsquash(scale(y)) = y",
        "every batch handed to a normaliser is non-empty (vectorised environments have >= 1 member) and all batches of a history have the same size",
        "the running statistics start from the prior the code uses: a pseudo-sample of weight 1e-4 with mean 0 and variance 1 (stated in the theorems)",
        "stackings in which LogWrapper is outside AutoResetWrapper (the only order in which jax.lax.cond's branches have equal info structures), at most one squash and one clip layer",
    ],
    statements=[
        "env_step_is_graph_step: Environment.step gs a = (post gs', obs(post gs'), reward gs' a, terminated gs', truncated gs', info) with gs' = graph.step(pre gs a, step_state, get_output gs a)",
        "autoreset_step: arStep (gs,obs,r,te,tr,info) g0 o0 i0 = if te || tr then (g0,o0,r,te,tr,i0) else (gs,obs,r,te,tr,info)",
        "log_fold: for every history h and episode-ending step x: info.returns = sum of rewards since the previous end + x.reward, info.lengths = #steps since the previous end + 1",
        "unsquash_in_bounds: low <= high -> low <= unsquash squash x low high <= high for every real x and both settings of squash",
        "scale_unsquash_inv / unsquash_scale_inv: scale(unsquash z) = z for all z; unsquash(scale y) = y for low < y < high",
        "chan_update_exact: each of the three update copies returns the exact pooled mean and population variance of prior and batch",
        "chan_fold_exact / rew_fold_exact: after any history the statistics are the exact moments of (prior of weight 1e-4, mean 0, var 1) and everything seen so far",
    ],
)


def _f32(x):
    import numpy as onp

    with onp.errstate(over="ignore"):
        return float(onp.float32(x))


def run(ctx):
    import pool

    res = Result()
    rng = ctx.rng

    def N(q, t):
        return 3 * q if ctx.search else ctx.n(q, t)

    n_scalar, n_vector, n_pure, n_real = N(100, 3000), N(24, 400), N(120, 1500), N(6, 40)
    tasks = []
    per = 10 if n_scalar <= 300 else 30
    for _ in range(n_scalar // per):
        tasks.append(dict(fn="tasks_c19:scalar_histories", args=dict(seed=rng.randint(0, 2**30), n=per, search=ctx.search), timeout=400))
    for _ in range(n_vector // 4):
        tasks.append(dict(fn="tasks_c19:vector_histories", args=dict(seed=rng.randint(0, 2**30), n=4, search=ctx.search), timeout=400))
    for _ in range(2):
        tasks.append(dict(fn="tasks_c19:pure_functions", args=dict(seed=rng.randint(0, 2**30), n=n_pure // 2), timeout=400))
    for _ in range(max(1, n_real // 3)):
        tasks.append(dict(fn="tasks_c19:real_env_histories", args=dict(seed=rng.randint(0, 2**30), n=3, search=ctx.search), timeout=600))
    # long tasks first
    tasks.sort(key=lambda t: 0 if "real" in t["fn"] else 1 if "vector" in t["fn"] else 2)
    outs = pool.run_tasks(tasks, timeout=400)
    bad = [(t, o) for t, o in zip(tasks, outs) if o is None or o.get("timeout") or "error" in o]
    if bad:
        t, o = bad[0]
        if len(bad) > len(tasks) // 3:
            raise RuntimeError(f"{len(bad)}/{len(tasks)} C19 worker tasks failed, e.g. {t['fn']}: {str(o)[:1500]}")
        res.notes.append(f"{len(bad)} worker task(s) failed or timed out (ignored): {t['fn']} {str(o)[:300]}")
    cases = []
    for t, o in zip(tasks, outs):
        if o is None or o.get("timeout") or "error" in o:
            continue
        for v in o["violations"]:
            res.fail(v["key"], v["desc"], v["replay"])
        for k, n in o["stats"].items():
            res.count(k, n)
        cases += o["cases"]
    # ---------------------------------------------------------------- evidence counters
    for c in cases:
        if c["kind"] == "scalar":
            res.evaluations += 1
            if c["ends"] >= 2:
                res.nontriv(dict(l=c["layers"], r=c["rewards"], t=c["term"], u=c["trunc"]))
            if len([s for s in res.samples if s.get("kind") == "scalar"]) < 2:
                res.samples.append(dict(kind="scalar", layers=c["layers"], low=c["low"], high=c["high"], rewards=[round(x, 4) for x in c["rewards"][:12]],
                                        done=[a or b for a, b in zip(c["term"], c["trunc"])][:12], log_info=c["infos"][:12]))
        elif c["kind"] == "vector":
            res.evaluations += 1
            if c["ends"] >= 2 and c["B"] >= 2:
                res.nontriv(dict(l=c["layers"], o=c["obs_batches"][:3], r=c["rewards"][:3]))
            if len([s for s in res.samples if s.get("kind") == "vector"]) < 1:
                res.samples.append(dict(kind="vector", layers=c["layers"], B=c["B"], obs_batches=c["obs_batches"][:3], stats=c["stats_o"][:3]))
        else:
            res.evaluations += 1
    # ---------------------------------------------------------------- model vs implementation
    if ctx.driver is not None and cases:
        cmds, metas = [], []
        for c in cases:
            if c["kind"] == "scalar":
                desc = dict(layers=c["layers"], low=c["low"], high=c["high"], rewards=c["rewards"], term=c["term"], trunc=c["trunc"])
                if c["infos"]:
                    cmds.append(dict(cmd="c19.log", rewards=[fbits(x) for x in c["rewards"]], term=c["term"], trunc=c["trunc"]))
                    metas.append(("log", c, desc))
                if c["tokens"]:
                    cmds.append(dict(cmd="c19.autoreset", steps=[t[:9] for t in c["tokens"]]))
                    metas.append(("autoreset", c, desc))
                acts = [l for l in c["layers"] if l in ("squash", "nosquash", "clip")]
                if acts in (["squash"], ["nosquash"], ["clip"]):
                    T, k = len(c["zs"]), len(c["low"])
                    xs = [fbits(_f32(v)) for z in c["zs"] for v in z]
                    cmds.append(dict(cmd="c19.clip" if acts == ["clip"] else "c19.squash", squash=acts == ["squash"], xs=xs, lows=[fbits(_f32(v)) for v in c["low"]] * T,
                                     highs=[fbits(_f32(v)) for v in c["high"]] * T))
                    metas.append(("action", c, desc))
            elif c["kind"] == "squash":
                cmds.append(dict(cmd="c19.squash", squash=c["squash"], xs=[fbits(v) for v in c["xs"]], lows=[fbits(v) for v in c["lows"]], highs=[fbits(v) for v in c["highs"]]))
                metas.append(("squash", c, dict(squash=c["squash"], xs=c["xs"], lows=c["lows"], highs=c["highs"])))
            elif c["kind"] == "normalize":
                cmds.append(dict(cmd="c19.normalize", clip=c["clip"], submean=c["submean"], x=fbits(c["x"]), mean=fbits(c["mean"]), var=fbits(c["var"]), clipv=fbits(c["clipv"])))
                metas.append(("normalize", c, {k: c[k] for k in ("clip", "submean", "x", "mean", "var", "clipv")}))
            elif c["kind"] == "vector":
                desc = dict(layers=c["layers"], B=c["B"], gamma=c["gamma"])
                if c["has_o"]:
                    for j in range(c["nfeat"]):
                        cmds.append(dict(cmd="c19.obsnorm", clip=fbits(10.0), b0=[fbits(r[j]) for r in c["obs_batches"][0]], bs=[[fbits(r[j]) for r in b] for b in c["obs_batches"][1:]]))
                        metas.append(("obsnorm", (c, j), dict(desc, feature=j, batches=[[r[j] for r in b] for b in c["obs_batches"]])))
                if c["has_r"]:
                    cmds.append(dict(cmd="c19.rewnorm", clip=fbits(10.0), gamma=fbits(c["gamma"]), n=c["B"], rewards=[[fbits(x) for x in b] for b in c["rewards"]], term=c["term"], trunc=c["trunc"]))
                    metas.append(("rewnorm", c, dict(desc, rewards=c["rewards"], term=c["term"], trunc=c["trunc"])))
        outs = ctx.driver.run(cmds) if cmds else []
        for (kind, c, desc), out in zip(metas, outs):
            if "error" in out:
                res.corr_diff(kind, f"driver error {out['error']}", desc)
                continue
            out = unbits(out)
            res.traces += 1
            if kind == "log":
                for t, inf in enumerate(c["infos"]):
                    m = [out["returns"][t], out["lengths"][t], out["timestep"][t], out["returned"][t]]
                    if not close(inf[0], m[0], 1e-5, 1e-4) or inf[1] != int(m[1]) or inf[2] != int(m[2]) or bool(inf[3]) != (m[3] == 1.0):
                        res.corr_diff("log", f"step {t}: implementation info (returns, lengths, timestep, returned)={inf} vs model {m}", desc)
                        break
            elif kind == "autoreset":
                for tok, o in zip(c["tokens"], out["out"]):
                    if (o[1] == 5) != tok[9] or (o[0] == 4) != tok[9]:
                        res.corr_diff("autoreset", f"implementation returned the {'initial' if tok[9] else 'current'} observation on flags {tok[3:5]}, model selects {o}", desc)
                        break
            elif kind == "action":
                key = "clipped" if "clipped" in out else "unsquash"
                flat = [v for a in c["applied"] for v in a]
                span = max(1.0, max(h - l for l, h in zip(c["low"], c["high"])))
                for i, (a, b) in enumerate(zip(flat, out[key])):
                    if not close(a, b, 2e-5, 2e-5 * span):
                        res.corr_diff("action", f"step {i // len(c['low'])} coordinate {i % len(c['low'])}: action reaching the inner environment {a} vs model {b}", desc)
                        break
            elif kind == "squash":
                span = max(1.0, max(h - l for l, h in zip(c["lows"], c["highs"])))
                for a, b in zip(c["unsquash"], out["unsquash"]):
                    if not close(a, b, 2e-5, 2e-5 * span):
                        res.corr_diff("squash", f"unsquash: implementation {a} vs model {b}", desc)
                        break
            elif kind == "normalize":
                if not close(c["y"], out["normalize"], 1e-4, 1e-4):
                    res.corr_diff("normalize", f"normalize: implementation {c['y']} vs model {out['normalize']}", desc)
            elif kind == "obsnorm":
                c, j = c
                steps = [out["reset"]] + out["steps"]
                for t, st in enumerate(steps):
                    im = c["stats_o"][t]
                    scale = 1.0 + abs(st["m"]["var"]) + st["m"]["mean"] ** 2
                    if abs(im["count"] - st["m"]["count"]) > 1e-3 or not close(im["mean"][j], st["m"]["mean"], 1e-4, 1e-4) or abs(im["var"][j] - st["m"]["var"]) > 2e-4 * scale:
                        res.corr_diff("obsnorm", f"after batch {t}: implementation (mean, var, count)=({im['mean'][j]}, {im['var'][j]}, {im['count']}) vs model {st['m']}", desc)
                        break
                    io = [r[j] for r in c["outs_o"][t]]
                    # the model normalises with its own (float64) statistics; the tolerance covers float32 statistics amplified by 1/sqrt(var)
                    tol = 2e-3 + 2e-3 / max(1e-4, abs(st["m"]["var"])) ** 0.5 * 1e-2
                    if any(not close(a, b, 2e-3, tol) for a, b in zip(io, st["out"])):
                        res.corr_diff("obsnorm", f"after batch {t}: normalised observations {io} vs model {st['out']}", desc)
                        break
            elif kind == "rewnorm":
                for t, st in enumerate(out["steps"]):
                    im = c["stats_r"][t]
                    scale = 1.0 + abs(st["m"]["var"]) + st["m"]["mean"] ** 2
                    if abs(im["count"] - st["m"]["count"]) > 1e-3 or not close(im["mean"], st["m"]["mean"], 1e-4, 1e-4) or abs(im["var"] - st["m"]["var"]) > 2e-4 * scale:
                        res.corr_diff("rewnorm", f"step {t}: implementation (mean, var, count)=({im['mean']}, {im['var']}, {im['count']}) vs model {st['m']}", desc)
                        break
                    if any(not close(a, b, 1e-4, 1e-4) for a, b in zip(c["rv"][t], st["rv"])):
                        res.corr_diff("rewnorm", f"step {t}: return accumulators {c['rv'][t]} vs model {st['rv']}", desc)
                        break
                    if any(not close(a, b, 2e-3, 2e-3) for a, b in zip(c["outs_r"][t], st["out"])):
                        res.corr_diff("rewnorm", f"step {t}: normalised rewards {c['outs_r'][t]} vs model {st['out']}", desc)
                        break
    return res
