"""C11 — interpolated delays sample the sender's signal at step time minus delay.

Lean side (RexModel/Props/C11.lean): laws of clamped piecewise-linear interpolation over every ordered field and every
knot list (shift, knots, betweenness, range, Lipschitz, slope, integer truncation), the arithmetic of
`TrainableDist.apply_delay` taken from the regenerated kernels (newest entry = interpolant at exactly ts_start for
every slice start; entry j at ts_start - (x_last - x_j); all-real buffers: signal at ts_start - d; the -1e9 mask), and
over the reals continuity in the delay and the derivative w.r.t. delay / alpha.

This check ties that to the implementation numerically: the REAL apply_delay (both linear variants, scalar / vector /
matrix leaves, float32 / float16 / int32 / int16, windows 1-3, min = 0 and min > 0, regular and jittery senders,
start-up buffers with dummy messages, float32-exact arrival ties, times up to ~20 s) is compared with (a) a float64
oracle of the property statement, (b) the executable Lean model (driver), and jax.grad with the finite-difference slope.
"""
import os
import sys

import common
from common import Result, fbits, unbits

import pool
import tasks_c11

INFO = dict(
    level="proof",
    rule="random input buffers for TrainableDist.apply_delay(interp=linear|linear_real_only); a case is non-trivial when the query time ts_start lies strictly "
    "inside a segment between two knots (2% of a period away from both) whose finite-difference slope is non-zero; distinct = distinct (variant, window, rate, query, slope)",
    trusted=[
        "harness/extract.py (Python ast -> Lean) for the 22 expressions of TrainableDist.apply_delay / sample listed under kernels_extracted",
        "modelled, not verified: jnp.interp = clamped piecewise-linear interpolation (interp1; at duplicated knots jnp.interp takes the last duplicate, the model the first — rex's "
        "duplicated knots are dummy messages with identical payloads); jax.lax.dynamic_slice (negative start wrapped once, then clamped); jnp.argwhere(size=1, fill_value) = first index; "
        "jax.vmap / reshape / astype; jax.grad",
        "float32 arithmetic is compared with a tolerance (2e-4 relative to the payload scale + slope x 8 ulp of the largest time), never bit-exact; decisions "
        "`ts_sent + d > ts_start` are only exercised away from ties (margin 1e-4 relative) or on float32-exact dyadic ties",
    ],
    assumptions=[
        "dummy messages (seq < 0) precede real ones in the buffer, carry ts_sent = ts_recv = 0 and identical payloads (what rex's compiled runtime produces)",
        "older entries are compared only when window <= idx_max (otherwise the slice start is negative: the C10 finding); the newest entry is compared always",
        "simulated times below 32 s in the random streams (above that the -1e9 mask of linear_real_only is not absorbed cleanly by float32: separate probe, key real_only_mask_absorbed)",
    ],
)

INFO["statements"] = [
    "interp_shift: interp1 (x0+d) y0 (rest.map (x+d, y)) q = interp1 x0 y0 rest (q-d)   [all knot lists]",
    "interp_segment: SortedKnots, knots = pre ++ (a,ya)::(b,yb)::post, a < q <= b  =>  interp1 .. q = ya + (q-a)*((yb-ya)/(b-a))",
    "interp_knot: StrictKnots, (a,ya) in knots => interp1 .. a = ya   (interp_knot_needs_strict: witness)",
    "interp_between / interp_in_range: value between the neighbouring payloads / inside the payload range (no ordering hypothesis)",
    "interp_lipschitz: SlopeBound L => |interp1 .. q' - interp1 .. q| <= L*|q'-q|;  interp_slope: difference quotient inside a segment = (yb-ya)/(b-a)",
    "trunc_between / interp_int_between: astype(int) of a value between integer payloads stays between them",
    "recv_real / recv_dummy / knot_linear / knot_real_only_real / knot_real_only_dummy / delay_affine / idxMax_spec: the extracted arithmetic",
    "linear_newest: for either variant, every slice start: newest entry = interp1 over ts_recv_mask at exactly ts_start",
    "linear_older_partial: window <= idx_max => entry j queried at ts_start - (x_last - x_j)   (linear_older_wrap_witness: hypothesis needed)",
    "linear_newest_all_real: all seq >= 0 => newest entry = interp1 over (ts_sent, y) at ts_start - d;  linear_newest_at_arrival + idxMax_at_arrival: = zero-order hold at a knot",
    "mask_ignores_dummies / mask_dummy_region(_close) / real_only_dummy_newest_witness: the -1e9 mask",
    "delay_continuous, delay_hasDerivAt (= -slope), alpha_hasDerivAt (= -slope*(max-min)), linear_alpha_slope (algebraic form)",
]

STREAMS = ["clear", "clear", "clear", "tie"]


def _merge(res, out, known_bucket):
    for f in out["failures"]:
        res.fail(f["key"], f["desc"], f["replay"])
    known_bucket.extend(out["known"])
    for k, v in out["counts"].items():
        res.count(k, v)
    for o in out["nontriv"]:
        res.nontriv(o)
    for s in out["samples"]:
        if len(res.samples) < 3:
            res.samples.append(s)
    res.evaluations += out["evaluations"]


def run(ctx):
    res = Result()
    known = []
    driver_items = []
    if ctx.replay and isinstance(ctx.replay.get("failure", {}).get("replay"), dict) and "case" in ctx.replay["failure"]["replay"]:
        rp = ctx.replay["failure"]["replay"]
        r = pool.run_tasks([dict(fn="tasks_c11:run_replay", args=dict(cfg=rp["cfg"], case=rp["case"]))], timeout=300)[0]
        if r is None or "error" in r or r.get("timeout"):
            raise RuntimeError(f"replay failed: {r}")
        _merge(res, r, known)
        driver_items += r["driver"]
    else:
        if ctx.search:  # a proof obligation / the correspondence broke and the first pass found nothing: moderately larger budget
            nchunks, ncfg, per = 24, 4, 12
        else:
            nchunks, ncfg, per = ctx.n(12, 48), ctx.n(3, 8), ctx.n(9, 24)
        seed = f"{ctx.seed}{'-search' if ctx.search else ''}"
        tasks = [dict(fn="tasks_c11:run_chunk", args=dict(seed=seed, chunk=c, nconfigs=ncfg, cases_per_config=per, streams=STREAMS[c % 4:] + STREAMS[:c % 4]), timeout=400) for c in range(nchunks)]
        # the float32 absorption probe (times >= 32 s, linear_real_only, newest arrived slot still a dummy)
        tasks.append(dict(fn="tasks_c11:run_chunk", args=dict(seed=seed, chunk="late", nconfigs=ctx.n(3, 8), cases_per_config=ctx.n(3, 6), streams=["late"]), timeout=400))
        for i, r in enumerate(pool.run_tasks(tasks, timeout=400)):
            if r is None or r.get("timeout") or "error" in r:
                raise RuntimeError(f"worker task {i} failed: {str(r)[:1500]}")
            _merge(res, r, known)
            driver_items += r["driver"]
    # ---- Lean model vs implementation (leaf x, binary64 model vs float32 implementation)
    if ctx.driver is not None and driver_items:
        cmds = []
        for it in driver_items:
            c = it["cmd"]
            cmds.append(dict(cmd="c11.apply", interp=c["interp"], d=fbits(c["d"]), ts=fbits(c["ts"]), window=c["window"], seq=c["seq"],
                             sent=[fbits(v) for v in c["sent"]], recv=[fbits(v) for v in c["recv"]], ys=[fbits(v) for v in c["ys"]]))
        try:
            outs = ctx.driver.run(cmds)
        except Exception as ex:
            outs = None
            res.corr_diff("driver", f"Lean driver failed on c11.apply: {str(ex)[-400:]}", dict())
        for it, o in zip(driver_items, outs or []):
            if "error" in o:
                res.corr_diff("c11.apply", f"driver error {o['error']}", it["cmd"])
                continue
            o = unbits(o)
            res.traces += 1
            if not it["tie_zone"] and int(o["idx_max"]) != it["idx_max"]:
                res.corr_diff("idx_max", f"model idx_max {o['idx_max']} vs oracle {it['idx_max']} | {it['desc']}", it["cmd"])
            w = len(it["impl"])
            if len(o["vals"]) != w:
                res.corr_diff("window_values", f"implementation delivers {w} window entries, the Lean model {len(o['vals'])} | {it['desc']}", it["cmd"])
                continue
            rows = range(w) if (it["in_range"] and not it["tie_zone"]) else [w - 1]
            for j in rows:
                if not common.close(o["vals"][j], it["impl"][j], 0.0, it["tol"]):
                    res.corr_diff("window_values", f"window entry {j - w}: implementation {it['impl'][j]} vs Lean model {o['vals'][j]} (tol {it['tol']:.2g}) | {it['desc']}", it["cmd"])
                    break
    # known cases last, under their own keys, so that they never hide or mix with another failure
    seen = set()
    for f in known:
        if f["key"] not in seen or len([1 for x in res.failures if x["key"] == f["key"]]) < 3:
            res.fail(f["key"], f["desc"], f["replay"])
            seen.add(f["key"])
    res.notes.append(f"known-case reports: { {k: sum(1 for f in known if f['key'] == k) for k in sorted({f['key'] for f in known})} }")
    return res
