"""C06 — every scheduled step executes the user's step function exactly once."""
from collections import Counter

import asynccheck as ac
from common import Result

INFO = dict(
    level="proof",
    rule="random probe graphs (plus graphs with a node 15-18x faster than the supervisor) whose step functions report (node, seq) to the host through an ordered jax.debug.callback; threaded runtime with jit on/off, run() and reset()/step() with every second "
    "supervisor step overridden by the user; compiled runtime (MCS and GENERATIONAL = scan path) driven by run(), a jitted rollout, reset()/step() with overrides, step() straight after init, a late start, a rewound graph state and the whole horizon on the shorter of two recorded episodes; the multiset of "
    "reported executions must equal the recorded ticks (threaded) / the run-masked slots of Graph.timings inside the horizon (compiled), zero for masked slots, overridden supervisor steps and the supervisor at step 0. "
    "Non-trivial: the compiled partitioning contains >=1 masked slot and the episode contains >=1 overridden step",
    trusted=[
        "harness/extract.py: static call-site kernels (how many call sites of the step function each handler contains) and the sequence-number increments",
        "jax.debug.callback(ordered=True) delivers exactly one host call per executed traced call (un-vmapped); lax.cond executes only the taken branch",
    ],
    assumptions=["un-vmapped execution (under vmap lax.cond becomes a select and both branches run; outside the property)"],
)


def expected_compiled(tim, sup, partitions, sup_partitions, e=0):
    exp = Counter()
    masked = 0
    for sname, s in tim.items():
        for p in (sup_partitions if s["kind"] == sup else partitions):
            if p < len(s["run"][e]):
                if s["run"][e][p]:
                    exp[(s["kind"], s["seq"][e][p])] += 1
                else:
                    masked += 1
    return exp, masked


def run(ctx):
    res = Result()
    n = ctx.n(5, 8 if ctx.search else 30)
    seeds = [ctx.rng.randrange(1 << 30) for _ in range(n)]
    tasks = [dict(fn="tasks_rt:calls_case", args=dict(seed=s), timeout=900) for s in seeds]
    # a node 15-18x faster than the supervisor: many slots of one kind per partition, the later ones masked in some partitions
    tasks += [dict(fn="tasks_rt:calls_case", args=dict(seed=ctx.rng.randrange(1 << 30), spec_kind="high_ratio", nsteps=5), timeout=900) for _ in range(ctx.n(2, 6))]
    for t, r in ac.pool_cases(tasks, res, timeout=900):
        spec = r["spec"]
        sup = spec["supervisor"]
        seed = t["args"]["seed"]
        for ep in r["async_eps"]:
            res.evaluations += 1
            res.count("async_episodes")
            for n_, seqs in ep["seqs"].items():
                got = Counter(ep["calls"].get(n_, []))
                if n_ == sup:
                    exp = Counter(k for k in range(ep["nsteps"]) if k not in ep["overridden"])
                    res.count("overridden_steps", len(ep["overridden"]))
                else:
                    exp = Counter(seqs)
                if got != exp:
                    extra = {k: v for k, v in (got - exp).items()}
                    missing = {k: v for k, v in (exp - got).items()}
                    res.fail("async_calls", f"seed={seed} threaded runtime (jit_step={r['jit_step']}, api={ep['api']}): node {n_} step function executions {dict(sorted(got.items()))} != recorded ticks; "
                             f"extra executions {extra}, missing {missing}", dict(task=t, spec=spec, api=ep["api"], node=n_))
                    break
        for c in r["compiled"]:
            tim, nrun = c["timings"], c["nrun"]
            cases = []
            if c.get("calls_short") is not None:
                h = c["horizon"]
                cases.append((f"run over the whole horizon ({h} steps) on the shorter recorded episode", c["calls_short"], range(h), range(h), 1))
            if c.get("calls_oob") is not None:
                cases.append((f"run x {nrun} after init(starting_eps = max_eps + 1), i.e. the last compiled episode", c["calls_oob"], range(nrun), range(nrun), c["last_eps"]))
            for label, calls, parts, sparts, e_ in cases:
                res.evaluations += 1
                res.count("ragged_episode_runs")
                exp, masked = expected_compiled(tim, sup, parts, sparts, e=e_)
                got = Counter((n_, s) for n_, ss in calls.items() for s in ss)
                if got != exp:
                    extra = sorted((got - exp).items())[:6]
                    missing = sorted((exp - got).items())[:6]
                    res.fail("compiled_calls", f"seed={seed} compiled runtime ({c['mode']}, driven by {label}): step function executions differ from the run-masked slots of the schedule: "
                             f"extra {extra}, missing {missing}", dict(task=t, spec=spec, mode=c["mode"], api=label))
            for label, calls, parts, sparts in (
                ("run", c["calls_run"], range(nrun), range(nrun)),
                ("jit(rollout)", c["calls_rollout"], range(nrun), range(nrun)),
                ("reset+step(override odd)", c["calls_step"], range(nrun + 1), [k for k in range(nrun) if k % 2 == 0]),
                ("step after init", c["calls_first"], range(1), []),
                (f"run from starting_step={c['k0']}", c["calls_late"], range(c["k0"], c["k0"] + c["n_late"]), range(c["k0"], c["k0"] + c["n_late"])),
                ("run on a used graph state rewound to step 0", c["calls_reused"], range(nrun), range(nrun)),
            ):
                res.evaluations += 1
                exp, masked = expected_compiled(tim, sup, parts, sparts)
                res.count("masked_slots", masked)
                got = Counter((n_, s) for n_, ss in calls.items() for s in ss)
                if got != exp:
                    extra = sorted((got - exp).items())[:6]
                    missing = sorted((exp - got).items())[:6]
                    res.fail("compiled_calls", f"seed={seed} compiled runtime ({c['mode']}, driven by {label}): step function executions differ from the run-masked slots of the schedule: "
                             f"extra {extra}, missing {missing}", dict(task=t, spec=spec, mode=c["mode"], api=label))
                if masked > 0 and c["overridden"]:
                    res.nontriv(dict(seed=seed, mode=c["mode"], api=label))
        res.traces += 1
        if len(res.samples) < 2 and r["compiled"]:
            res.samples.append(dict(seed=seed, spec=spec, async_calls={k: len(v) for k, v in r["async_eps"][0]["calls"].items()}, compiled_calls_run={k: v for k, v in r["compiled"][0]["calls_run"].items()}))
    return res
