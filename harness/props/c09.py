"""C09 — compiled execution is a pure function, independent of the driving API."""
import asynccheck as ac
from common import Result

INFO = dict(
    level="proof",
    rule="random recorded probe graphs (3 ragged episodes) compiled with a random supergraph mode / prune; from the same graph state: run^n vs reset+step^n vs rollout (carry-only, trajectory, first element) vs "
    "jit(run)^n vs jit(rollout) vs vmapped rollouts over starting episodes; step() overridden with the supervisor's own result vs default; starting_eps / starting_step out of range (clipped, not wrapped, "
    "incl. gs.replace(eps=...)+rollout); params given to init. All GraphState leaves compared exactly (floats of vmapped runs with 1e-6). "
    "Non-trivial: starting step > 0 or n >= 3, and the composition mixes >= 2 API paths (every case does)",
    trusted=["Lean: the API algebra holds for any U, S (Props/C09.lean); clip kernels extracted from GraphState.replace_eps/replace_step",
             "jit/vmap preserve semantics (JAX's contract): exercised, not proved (partial)"],
    assumptions=["purity of node step functions (probe nodes are pure)"],
)


def run(ctx):
    res = Result()
    n = ctx.n(3, 6 if ctx.search else 30)
    seeds = [ctx.rng.randrange(1 << 30) for _ in range(n)]
    tasks = [dict(fn="tasks_rt:api_case", args=dict(seed=s), timeout=900) for s in seeds]
    for t, r in ac.pool_cases(tasks, res, timeout=900):
        if r.get("skipped"):
            res.count("skipped")
            continue
        seed = t["args"]["seed"]
        res.evaluations += r["checks"]
        res.count("mode:" + r["mode"])
        res.count("comparisons", r["checks"])
        for d in r["diffs"][:4]:
            res.fail("api_mismatch", f"seed={seed} ({r['mode']}, {r['max_eps']} episodes, max_steps {r['max_steps']}): {d}", dict(task=t, spec=r["spec"], diffs=r["diffs"][:12]))
        res.nontriv(dict(seed=seed))
        res.traces += 1
        if len(res.samples) < 2:
            res.samples.append(dict(seed=seed, spec=r["spec"], mode=r["mode"], comparisons=r["checks"]))
    return res
