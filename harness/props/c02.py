"""C02 — simulated-clock episodes are deterministic across thread schedules and speed."""
import json

import asynccheck as ac
import common
from common import Result

INFO = dict(
    level="proof",
    rule="random graphs (2-5 probe nodes; blocking x skip x jitter x window x advance x scheduling; deterministic/normal delays incl. overruns; a float32-exact tie stream); "
    "each graph state is executed 8 times on the real threaded runtime (gate-driven schedule perturbations: random pauses at task boundaries, slow connection threads, slow node threads, "
    "one starved wrapper, slow push_ts_input, tiny switch interval; real-time factors 0 and 20; run() vs reset()/step()) and by the Lean machine under 3 scheduling policies. "
    "A case is non-trivial when it has >=1 blocking and >=1 non-blocking connection or a skipped one, and >=2 of its real executions dispatched tasks in a different order (measured: different final record lengths or gated-task counts)",
    trusted=[
        "harness/extract.py for the 36 arithmetic/comparison kernels of rex/asynchronous.py",
        "modelled, not verified: each handler body (push_*) executes atomically w.r.t. the queues it owns (single-worker executors, GIL-atomic deque append/popleft); executor task queues only trigger re-evaluation of guards",
        "correspondence: harness/rt.py probe nodes, harness/asynccheck.py comparison (bit-exact float64 times), delay/draw streams obtained through rex's public API",
        "IEEE-754 binary64 arithmetic of Lean `Float` = CPython float; Python round(x, 6) re-implemented exactly in RexModel/Driver/Basic.lean",
    ],
    assumptions=["wall-clock mode is outside C02", "the racy snapshot of other nodes' StepStates in the returned GraphState is not part of the claim (DESIGN section 6.5)"],
)


def run(ctx):
    res = Result()
    n = ctx.n(6, 12 if ctx.search else 40)
    nsteps = 8
    seeds = [ctx.rng.randrange(1 << 30) for _ in range(n)]
    tasks = [dict(fn="tasks_rt:async_schedules", args=dict(seed=s, nsteps=nsteps, tie=(i % 3 == 2)), timeout=400) for i, s in enumerate(seeds)]
    tasks += [dict(fn="tasks_rt:async_schedules", args=dict(seed=ctx.rng.randrange(1 << 30), nsteps=nsteps, family="tie_advance"), timeout=400) for _ in range(ctx.n(2, 4))]
    tasks += [dict(fn="tasks_rt:async_schedules", args=dict(seed=ctx.rng.randrange(1 << 30), nsteps=nsteps, family="fifo_blocking"), timeout=400) for _ in range(ctx.n(2, 4))]
    good = ac.pool_cases(tasks, res, timeout=400)
    cmds = [r["cfg"] for _, r in good]
    outs = ac.run_driver_parallel(cmds) if (ctx.driver is not None and cmds) else [None] * len(cmds)
    for (t, r), mo in zip(good, outs):
        spec = r["spec"]
        res.evaluations += len(r["variants"])
        for f in r["feats"]:
            res.count("feat:" + f)
        recs = [v["record"] for v in r["variants"]]
        # impl vs impl: every execution against the first
        for k in range(1, len(recs)):
            diffs = ac.compare_records(spec, recs[0], recs[k], nsteps)
            if diffs:
                res.fail("schedule_dependent", f"seed={t['args']['seed']}: executions '{json.dumps(r['variants'][0]['variant'])}' and '{json.dumps(r['variants'][k]['variant'])}' of the same graph state differ: {diffs[0]}",
                         dict(task=t, variants=[r["variants"][0]["variant"], r["variants"][k]["variant"]], diffs=diffs[:10], spec=spec))
                break
        # observations delivered to the user (reset/step variants): identical prefixes
        obs_step = [v["obs"] for v in r["variants"] if v["variant"]["api"] == "step"]
        for o in obs_step[1:]:
            k = min(len(o), len(obs_step[0]))
            if o[:k] != obs_step[0][:k]:
                j = [i for i in range(k) if o[i] != obs_step[0][i]][0]
                res.fail("schedule_dependent", f"seed={t['args']['seed']}: supervisor observation {j} differs between two executions of the same graph state", dict(task=t, spec=spec))
                break
        lens = {json.dumps({k: v["n"] for k, v in rec.items()}, sort_keys=True) for rec in recs}
        feats = set(r["feats"])
        if (("blocking" in feats and "nonblocking" in feats) or "skip" in feats) and len(lens) >= 2:
            res.nontriv(dict(seed=t["args"]["seed"]))
        res.count("distinct_progress_profiles", len(lens))
        if mo is not None:
            for k, v in enumerate(r["variants"]):
                ep = dict(cfg=r["cfg"], record=v["record"])
                c = ac.compare_model(spec, ep, mo, res, f"seed={t['args']['seed']} variant={v['variant']['policy']}/{v['variant']['api']}/rtf{v['variant']['rtf']}")
                res.traces += 1 if c else 0
            res.count("model_rule_firings", mo.get("fired", 0) if isinstance(mo, dict) else 0)
        if len(res.samples) < 2:
            res.samples.append(dict(seed=t["args"]["seed"], spec=spec, steps_recorded=[{k: v["n"] for k, v in rec.items()} for rec in recs]))
    return res
