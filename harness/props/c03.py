"""C03 — recorded episodes are causal and loss-free on every connection."""
import asynccheck as ac
import monitors_async as mon
from common import Result

INFO = dict(
    level="proof",
    rule="random graphs (2-5 probe nodes, all connection policies blocking x skip x LATEST/BUFFER x window 1-4, deterministic and normal delays incl. overruns, every third graph "
    "from a float32-exact tie stream with dyadic rates/delays) x 2 episodes (run() or reset()/step()); the C03 statements (exactly-once/in-order, FIFO, causal at clock resolution, "
    "consumption policy per connection kind, blocking wait, gap-free non-overlapping steps, window = last w consumed messages) are evaluated on every real record, and the record is "
    "compared bit-exactly with the Lean machine; the same statements on 8 executions each of further graphs under perturbed thread schedules (incl. the exact-tie family). Non-trivial: the episode has >=1 exact tie (arrival == step start) or >=1 message that waited >=2 steps, and a window > 1",
    trusted=[
        "Lean machine level (every schedule): exactly-once/in-order along the whole pipeline, FIFO and arrival recurrence of the recorded receive times (Async/Arrival.lean), gap-free step numbers, guard soundness",
        "harness/extract.py for the kernels of push_ts_input / push_expected_nonblocking / push_expected_blocking / push_ts_max / push_selection",
        "monitors: harness/monitors_async.py (independent of the Lean machine); correspondence: harness/asynccheck.py",
        "modelled, not verified: handler atomicity (see C02); on the wall clock only the record laws are evaluated (short real-time episodes, non-blocking connections), the Lean machine models the simulated clock",
    ],
    assumptions=["timing relations mixing rounded and unrounded times are read at the 1 us clock resolution (DESIGN 3.1)",
                 "the supervisor's trailing, never-answered step is outside the claim"],
)


def run(ctx):
    res = Result()
    n = ctx.n(14, 14 if ctx.search else 80)
    nsteps = 10
    for t, r, ep, mo in ac.run_async_cases(ctx, res, n, nsteps=nsteps):
        spec = r["spec"]
        res.evaluations += 1
        for f in r["feats"]:
            res.count("feat:" + f)
        fails, stats = mon.c03_monitor(spec, ep["record"], ep["cfg"], nsteps)
        for k, v in stats.items():
            res.count(k, v)
        for key, desc in fails[:3]:
            res.fail(key, f"seed={t['args']['seed']} api={ep['api']}: {desc}", dict(task=t, spec=spec, api=ep["api"], all=[d for _, d in fails[:10]]))
        if (stats["ties"] > 0 or stats["waited2"] > 0) and "window>1" in r["feats"]:
            res.nontriv(dict(seed=t["args"]["seed"], api=ep["api"]))
        if mo is not None:
            if ac.compare_model(spec, ep, mo, res, f"seed={t['args']['seed']} api={ep['api']}"):
                res.traces += 1
        if len(res.samples) < 2:
            res.samples.append(dict(seed=t["args"]["seed"], spec=spec, stats=stats))
    run_schedules(ctx, res, nsteps=8)
    run_wallclock(ctx, res)
    return res


def run_wallclock(ctx, res):
    """short real-time episodes on the wall clock (the policy is decided on measured arrival stamps there)"""
    tasks = [dict(fn="tasks_rt:wallclock_policy_case", args=dict(seed=ctx.rng.randrange(1 << 30)), timeout=300) for _ in range(ctx.n(3, 10))]
    for t, r in ac.pool_cases(tasks, res, timeout=300):
        for e, rec in enumerate(r["episodes"]):
            res.evaluations += 1
            res.count("wallclock_episodes")
            fails, stats = mon.c03_wallclock_monitor(r["spec"], rec)
            res.count("wallclock_msgs", stats["msgs"])
            for key, desc in fails[:2]:
                res.fail(key, f"seed={t['args']['seed']} episode {e}: {desc}", dict(task=t, spec=r["spec"], all=[d for _, d in fails[:10]]))
            if stats["waited"] > 0:
                res.nontriv(dict(seed=t["args"]["seed"], wallclock=True))


def run_schedules(ctx, res, nsteps):
    """the same statements on executions under perturbed thread schedules (gates of rex/_verif.py): the exact-tie family
    (two outputs with identical timestamps arriving exactly at a step start of a non-blocking, non-skipped receiver) and
    random graphs; a policy that only holds when the receiver happens to see all timestamps early fails here."""
    tasks = [dict(fn="tasks_rt:async_schedules", args=dict(seed=ctx.rng.randrange(1 << 30), nsteps=nsteps, family="tie_advance"), timeout=400) for _ in range(ctx.n(3, 8))]
    tasks += [dict(fn="tasks_rt:async_schedules", args=dict(seed=ctx.rng.randrange(1 << 30), nsteps=nsteps, tie=(i % 2 == 1)), timeout=400) for i in range(ctx.n(2, 10))]
    tasks += [dict(fn="tasks_rt:async_schedules", args=dict(seed=ctx.rng.randrange(1 << 30), nsteps=nsteps, family="fifo_blocking"), timeout=400) for _ in range(ctx.n(1, 4))]
    for t, r in ac.pool_cases(tasks, res, timeout=400):
        spec = r["spec"]
        for v in r["variants"]:
            res.evaluations += 1
            res.count("schedule_variants")
            fails, stats = mon.c03_monitor(spec, v["record"], r["cfg"], nsteps)
            res.count("ties_under_schedules", stats["ties"])
            for key, desc in fails[:2]:
                res.fail(key, f"seed={t['args']['seed']} family={t['args'].get('family', 'random')} schedule={v['variant']}: {desc}",
                         dict(task=t, spec=spec, variant=v["variant"], all=[d for _, d in fails[:10]]))
            if stats["ties"] > 0 and v["variant"]["policy"] != "none":
                res.nontriv(dict(seed=t["args"]["seed"], variant=v["variant"]))
