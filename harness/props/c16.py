"""C16 — node phases and node infos stay consistent with the configured delays."""
import math
import sys
import threading

import common
from common import Result, fbits, unbits

INFO = dict(
    level="proof",
    rule="random topologies (2-7 nodes: spanning forward connections, extra forward connections = diamonds, skipped and - in the malformed stream - "
    "un-skipped feedback connections, self connections) built by a random history of BaseNode(...) / connect / BaseNode.set_delay / Connection.set_delay calls "
    "(distribution and/or expected delay, None, explicit 0.0, raw distrax and wrapped distributions); after every call the stored settings, node.phase, "
    "connection.phase, node.info and connection.info of the real objects are compared with an independent longest-path / cycle oracle over the *requested* values "
    "and (two prefixes per history) with the Lean model run on the same history; acyclic histories end with a from_info + connect_from_info round trip. "
    "Separately, small graphs are run in the asynchronous runtime (simulated clock) before and after set_delay. "
    "Non-trivial: the history has >=1 skipped connection, >=1 node with two un-skipped inputs (diamond) and >=1 set_delay call",
    trusted=[
        "harness/extract.py (Python ast -> Lean) for phase / phase_output / Connection.phase, both set_delay methods, both constructors, the info fields and the from_info / connect_from_info arguments",
        "model plumbing in lean/RexModel/Lib/Phase.lean: nodes = naturals, node.inputs.values() = connect order, exceptions = strict `loop` propagation, the interpreter stack = fuel",
        "modelled, not verified: distrax / StaticDist objects are opaque tokens (isinstance test, StaticDist.create, quantile(0.99) are parameters of the model; the quantile table is read from the real objects)",
        "the asynchronous-runtime observations (first step at the phase, tick law, simulated delays) are monitors on real episodes, not theorems (the runtime laws themselves are C04)",
    ],
    assumptions=[
        "the interpreter stack suffices for acyclic graphs (phase_none_iff_cycle needs fuel > number of nodes; CPython's limit of 1000 frames misreports chains of more than ~300 nodes as algebraic loops)",
        "StaticDist.create returns a DelayDistribution that is not a distrax.Distribution (hypothesis hw of the history theorems)",
        "'takes effect in subsequent simulation': expected delays -> the next episode of an already warmed-up AsyncGraph; delay distributions -> an AsyncGraph built and warmed up after the call "
        "(an AsyncGraph binds its jitted samplers at warmup() and cannot be warmed up twice)",
        "input names are the output nodes' names (shadow input names do not survive the info round trip; reported in notes/C16.md)",
    ],
    statements=[
        "phase_longest_path: phaseF G fuel n = ok v -> v is attained by a walk over non-skipped connections into n and bounds every such walk (0 for sources)",
        "phase_none_iff_cycle: nodes < N, N < fuel: phaseF G fuel n = loop <-> an un-skipped cycle reaches n",
        "phase_acyclic_total / phase_fuel_irrelevant / conn_phase_longest",
        "set_delay_effective_node / _conn / set_delay_some / set_delay_dist_some: every non-None argument replaces the stored value (0 included), None keeps it",
        "set_delay_effective (history_node, history_conn): after any history the stored (distribution, expected delay) of every node and connection is what was requested last",
        "info_roundtrip: rebuild (infos s) has the same nodes, the same inputs per node, equal infos and equal phases",
        "witnesses: fuel_bound_needed, hcur_needed, diamond_not_onLoop",
    ],
)

PALETTE = [0.0, 0.0, 0.001, 0.0025, 0.004, 0.01, 0.0125, 0.02, 0.03, 0.05, 0.0625, 0.1]
LOOP_MSG = "Algebraic loop detected"
TOL = 1e-12


# ------------------------------------------------------------------------------------------------
# distribution pool (real objects <-> model tokens)


class Pool:
    """id 0 = the constructors' default. Other entries: raw distrax distributions and already wrapped StaticDists."""

    def __init__(self, rng=None, specs=None):
        self.items = [dict(id=0, raw=False, obj=None, desc="default Normal(0,0)", q99=0.0, spec=None)]
        if specs is None:
            vals = rng.sample([0.001, 0.002, 0.005, 0.0075, 0.01, 0.02, 0.04], 4)
            m, s = rng.choice([(0.01, 0.002), (0.02, 0.005), (0.005, 0.001)])
            specs = [dict(kind="det", loc=vals[0], raw=True), dict(kind="det", loc=vals[1], raw=True), dict(kind="det", loc=vals[2], raw=False), dict(kind="det", loc=vals[3], raw=False),
                     dict(kind="normal", loc=m, scale=s, raw=True), dict(kind="normal", loc=2 * m, scale=s, raw=False)]
        for sp in specs:
            self._add(sp)

    def _add(self, sp):
        import distrax
        from rex import base

        if sp["kind"] == "det":
            d, desc = distrax.Deterministic(loc=sp["loc"]), f"Deterministic({sp['loc']})"
        else:
            d, desc = distrax.Normal(loc=sp["loc"], scale=sp["scale"]), f"Normal({sp['loc']},{sp['scale']})"
        wrapped = base.StaticDist.create(d)
        obj = d if sp["raw"] else wrapped
        self.items.append(dict(id=len(self.items), raw=sp["raw"], obj=obj, desc=desc if sp["raw"] else f"StaticDist({desc})", q99=float(wrapped.quantile(0.99)), spec=sp))

    def pick(self, rng):
        return rng.choice(self.items[1:])

    def q99(self):
        return [it["q99"] for it in self.items]

    def export(self):
        return [dict(id=i["id"], raw=i["raw"], desc=i["desc"], q99=i["q99"], spec=i["spec"]) for i in self.items]


def stored_matches(stored, tok, pool):
    """does the object stored in node/connection.delay_dist correspond to the requested token (after normalisation)?"""
    import distrax
    from rex import base

    if tok == 0:
        return isinstance(stored, base.StaticDist) and isinstance(stored.dist, distrax.Normal) and float(stored.dist.loc) == 0.0 and float(stored.dist.scale) == 0.0
    it = pool.items[tok]
    if it["raw"]:
        return isinstance(stored, base.StaticDist) and stored.dist is it["obj"]
    return stored is it["obj"]


def stored_desc(stored, pool):
    """readable name of a stored distribution: which requested object it is (if any)"""
    for it in pool.items:
        if stored_matches(stored, it["id"], pool):
            return ("StaticDist(" + it["desc"] + ")") if it["raw"] else it["desc"]
    return repr(stored)[:80]


# ------------------------------------------------------------------------------------------------
# histories


def gen_history(rng, pool, cyclic):
    n = rng.randint(2, 7)
    ops = []

    def dist_delay(p_dist=0.5, p_delay=0.75):
        d = pool.pick(rng)["id"] if rng.random() < p_dist else None
        v = rng.choice(PALETTE) if rng.random() < p_delay else None
        return d, v

    for i in range(n):
        d, v = dist_delay()
        ops.append(dict(op="node", dist=d, delay=v))
    pairs = []
    for j in range(1, n):
        pairs.append((rng.randrange(j), j, rng.random() < 0.08))
    for _ in range(rng.randint(0, n)):  # extra forward connections (diamonds)
        i, j = sorted(rng.sample(range(n), 2))
        pairs.append((i, j, rng.random() < 0.1))
    for _ in range(rng.randint(0, 2)):  # feedback connections: skipped unless this is the malformed stream
        j = rng.randrange(1, n)
        i = rng.randrange(0, j)
        pairs.append((j, i, not (cyclic and rng.random() < 0.7)))
    if rng.random() < 0.1:  # self connection
        i = rng.randrange(n)
        pairs.append((i, i, not (cyclic and rng.random() < 0.5)))
    seen = set()
    conns = []
    for (a, b, skip) in pairs:
        if (a, b) in seen:
            continue  # a second connect with the same input name would replace the first one in node.inputs
        seen.add((a, b))
        d, v = dist_delay()
        conns.append(dict(op="connect", src=a, dst=b, dist=d, delay=v, skip=bool(skip), blocking=rng.random() < 0.3, window=rng.randint(1, 3), jitter=rng.choice(["LATEST", "BUFFER"])))
    rng.shuffle(conns)
    n_late = rng.randint(0, min(2, len(conns) - 1)) if len(conns) > 1 else 0
    early, late = conns[: len(conns) - n_late], conns[len(conns) - n_late:]
    ops += early
    n_conn = len(early)
    sets = []
    for _ in range(rng.randint(1, 8)):
        mode = rng.random()
        d, v = (pool.pick(rng)["id"], None) if mode < 0.2 else (None, rng.choice(PALETTE)) if mode < 0.6 else (pool.pick(rng)["id"], rng.choice(PALETTE)) if mode < 0.92 else (None, None)
        if rng.random() < 0.5:
            sets.append(dict(op="set_node", n=rng.randrange(n), dist=d, delay=v))
        else:
            sets.append(dict(op="set_conn", k=None, dist=d, delay=v))
    tail = sets + late
    rng.shuffle(tail)
    for o in tail:
        if o["op"] == "connect":
            n_conn += 1
        elif o["op"] == "set_conn":
            o["k"] = rng.randrange(n_conn)
        ops.append(o)
    return ops


class Cfg:
    """The requested configuration: updated only from the arguments of the calls (never reads rex objects)."""

    def __init__(self, pool):
        self.pool = pool
        self.nodes = []  # dict(dist=token id, delay)
        self.conns = []  # dict(src, dst, dist, delay, skip, blocking, window, jitter)

    def _init(self, dist, delay):
        tok = 0 if dist is None else dist
        return tok, (delay if delay is not None else self.pool.items[tok]["q99"])

    def apply(self, o):
        if o["op"] == "node":
            tok, dl = self._init(o["dist"], o["delay"])
            self.nodes.append(dict(dist=tok, delay=dl))
        elif o["op"] == "connect":
            tok, dl = self._init(o["dist"], o["delay"])
            self.conns.append(dict(src=o["src"], dst=o["dst"], dist=tok, delay=dl, skip=o["skip"], blocking=o["blocking"], window=o["window"], jitter=o["jitter"]))
        else:
            tgt = self.nodes[o["n"]] if o["op"] == "set_node" else self.conns[o["k"]]
            if o["dist"] is not None:
                tgt["dist"] = o["dist"]
            if o["delay"] is not None:
                tgt["delay"] = o["delay"]

    def oracle(self):
        """(phase per node or None when an un-skipped cycle reaches it)"""
        n = len(self.nodes)
        live = [c for c in self.conns if not c["skip"]]
        reach = [[False] * n for _ in range(n)]
        for c in live:
            reach[c["src"]][c["dst"]] = True
        for k in range(n):
            for i in range(n):
                if reach[i][k]:
                    for j in range(n):
                        if reach[k][j]:
                            reach[i][j] = True
        oncyc = [reach[m][m] for m in range(n)]
        onloop = [any(oncyc[m] and (m == x or reach[m][x]) for m in range(n)) for x in range(n)]
        memo = {}

        def ph(x):
            if x in memo:
                return memo[x]
            best = 0.0
            for c in self.conns:  # in connect order, like node.inputs
                if c["dst"] == x and not c["skip"]:
                    best = max(best, (ph(c["src"]) + self.nodes[c["src"]]["delay"]) + c["delay"])
            memo[x] = best
            return best

        return [None if onloop[x] else ph(x) for x in range(n)]


def _build(ops, pool, upto, res_holder=None):
    """Apply ops[:upto] to real rex objects. Returns (nodes list, conns list of Connection objects in connect order)."""
    import rex.constants as const
    from rex.node import BaseNode

    nodes, conns = [], []
    for o in ops[:upto]:
        _apply_real(o, nodes, conns, pool, BaseNode, const)
    return nodes, conns


def _apply_real(o, nodes, conns, pool, BaseNode, const):
    dd = None if o["dist"] is None else pool.items[o["dist"]]["obj"]
    if o["op"] == "node":
        i = len(nodes)
        nodes.append(BaseNode(name=f"n{i}", rate=[5, 10, 20, 50][i % 4], delay=o["delay"], delay_dist=dd))
    elif o["op"] == "connect":
        nodes[o["dst"]].connect(nodes[o["src"]], blocking=o["blocking"], delay=o["delay"], delay_dist=dd, skip=o["skip"], window=o["window"],
                                jitter=const.Jitter.BUFFER if o["jitter"] == "BUFFER" else const.Jitter.LATEST)
        conns.append(nodes[o["dst"]].inputs[f"n{o['src']}"])
    elif o["op"] == "set_node":
        nodes[o["n"]].set_delay(delay_dist=dd, delay=o["delay"])
    else:
        conns[o["k"]].set_delay(delay_dist=dd, delay=o["delay"])


def _phase_of(obj):
    """('ok', value) | ('loop', message) | ('error', text)"""
    try:
        return ("ok", float(obj.phase))
    except RecursionError as ex:
        return ("loop", str(ex))
    except Exception as ex:  # noqa: BLE001
        return ("error", f"{type(ex).__name__}: {ex}")


def _describe(ops, pool, upto):
    out, k = [], 0
    for o in ops[:upto]:
        dd = None if o["dist"] is None else pool.items[o["dist"]]["desc"]
        if o["op"] == "node":
            out.append(f"n{k}=BaseNode(delay_dist={dd}, delay={o['delay']})")
            k += 1
        elif o["op"] == "connect":
            out.append(f"n{o['dst']}.connect(n{o['src']}, delay_dist={dd}, delay={o['delay']}, skip={o['skip']}, blocking={o['blocking']})")
        elif o["op"] == "set_node":
            out.append(f"n{o['n']}.set_delay(delay_dist={dd}, delay={o['delay']})")
        else:
            out.append(f"conn#{o['k']}.set_delay(delay_dist={dd}, delay={o['delay']})")
    return "; ".join(out)


def check_state(res, ops, upto, pool, cfg, nodes, conns, what_changed):
    """All monitors on the real objects after ops[:upto]."""
    from rex import base  # noqa: F401

    exp = cfg.oracle()
    replay = dict(kind="history", ops=ops[:upto], pool=pool.export())
    where = f"after the call `{_describe(ops, pool, upto).split('; ')[-1]}` of the history [{_describe(ops, pool, upto)}]"

    def fail(key, msg):
        res.fail(key, f"{msg} {where}", replay)

    # ---- stored settings = requested settings
    for i, (nd, c) in enumerate(zip(nodes, cfg.nodes)):
        if not (isinstance(nd.delay, (int, float)) and abs(nd.delay - c["delay"]) <= TOL):
            fail("set_delay_delay", f"n{i}.delay = {nd.delay!r} but the last requested expected delay is {c['delay']!r};")
        if not stored_matches(nd.delay_dist, c["dist"], pool):
            fail("set_delay_dist", f"n{i}.delay_dist = {stored_desc(nd.delay_dist, pool)} is not the last requested distribution {pool.items[c['dist']]['desc']};")
    for k, (cn, c) in enumerate(zip(conns, cfg.conns)):
        tag = f"connection#{k} n{c['src']}->n{c['dst']}"
        if not (isinstance(cn.delay, (int, float)) and abs(cn.delay - c["delay"]) <= TOL):
            fail("set_delay_delay", f"{tag}.delay = {cn.delay!r} but the last requested expected delay is {c['delay']!r};")
        if not stored_matches(cn.delay_dist, c["dist"], pool):
            fail("set_delay_dist", f"{tag}.delay_dist = {stored_desc(cn.delay_dist, pool)} is not the last requested distribution {pool.items[c['dist']]['desc']};")
        if cn.skip != c["skip"] or cn.blocking != c["blocking"] or cn.window != c["window"]:
            fail("conn_attrs", f"{tag}: skip/blocking/window changed to {cn.skip}/{cn.blocking}/{cn.window};")
    # ---- phases = longest path / loop report
    got = []
    for i, nd in enumerate(nodes):
        kind, val = _phase_of(nd)
        got.append((kind, val))
        if exp[i] is None:
            if kind != "loop":
                fail("loop_report", f"an un-skipped cycle reaches n{i} but n{i}.phase returned {val!r} instead of raising the algebraic-loop RecursionError;")
            elif LOOP_MSG not in val:
                fail("loop_report", f"n{i}.phase raised a RecursionError without the algebraic-loop message: {val[:80]!r};")
            res.count("phase:loop")
        else:
            if kind != "ok":
                fail("loop_report" if kind == "loop" else "phase_exception", f"no un-skipped cycle reaches n{i} but n{i}.phase raised {val[:120]!r} (expected {exp[i]!r});")
            elif abs(val - exp[i]) > TOL:
                fail("phase_longest", f"n{i}.phase = {val!r} but the longest expected-delay path over non-skipped connections is {exp[i]!r};")
            res.count("phase:value")
    for k, (cn, c) in enumerate(zip(conns, cfg.conns)):
        kind, val = _phase_of(cn)
        e = None if exp[c["src"]] is None else (exp[c["src"]] + cfg.nodes[c["src"]]["delay"]) + c["delay"]
        if e is None:
            if kind != "loop":
                fail("loop_report", f"connection#{k}.phase returned {val!r} although its sender n{c['src']} lies behind an un-skipped cycle;")
        elif kind != "ok" or abs(val - e) > TOL:
            fail("phase_longest", f"connection#{k} (n{c['src']}->n{c['dst']}).phase = {val!r}, expected sender phase + sender delay + connection delay = {e!r};")
    # ---- infos
    for i, nd in enumerate(nodes):
        ins = [(k, c) for k, c in enumerate(cfg.conns) if c["dst"] == i]
        info_ok = exp[i] is not None and all(exp[c["src"]] is not None for _, c in ins)
        try:
            info = nd.info
        except RecursionError:
            if info_ok:
                fail("info_consistent", f"n{i}.info raised RecursionError although no un-skipped cycle is involved;")
            continue
        except Exception as ex:  # noqa: BLE001
            fail("info_consistent", f"n{i}.info raised {type(ex).__name__}: {ex};")
            continue
        if not info_ok:
            fail("loop_report", f"n{i}.info was built although an un-skipped cycle reaches n{i} or one of its senders;")
            continue
        if abs(float(info.phase) - exp[i]) > TOL or abs(float(info.delay) - cfg.nodes[i]["delay"]) > TOL or not stored_matches(info.delay_dist, cfg.nodes[i]["dist"], pool):
            fail("info_consistent", f"n{i}.info has phase={info.phase!r} delay={info.delay!r}, configured phase={exp[i]!r} delay={cfg.nodes[i]['delay']!r} dist={pool.items[cfg.nodes[i]['dist']]['desc']};")
        if info.name != f"n{i}" or info.rate != nd.rate:
            fail("info_consistent", f"n{i}.info has name={info.name!r} rate={info.rate!r};")
        if list(info.inputs.keys()) != [f"n{c['src']}" for _, c in ins]:
            fail("info_consistent", f"n{i}.info.inputs = {list(info.inputs.keys())}, connections are {[('n%d' % c['src']) for _, c in ins]};")
            continue
        for (k, c) in ins:
            ii = info.inputs[f"n{c['src']}"]
            e = (exp[c["src"]] + cfg.nodes[c["src"]]["delay"]) + c["delay"]
            bad = []
            if abs(float(ii.phase) - e) > TOL:
                bad.append(f"phase={ii.phase!r} (expected {e!r})")
            if abs(float(ii.delay) - c["delay"]) > TOL:
                bad.append(f"delay={ii.delay!r} (configured {c['delay']!r})")
            if not stored_matches(ii.delay_dist, c["dist"], pool):
                bad.append(f"delay_dist is not the configured {pool.items[c['dist']]['desc']}")
            if bool(ii.skip) != c["skip"] or bool(ii.blocking) != c["blocking"] or int(ii.window) != c["window"] or ii.jitter.name != c["jitter"]:
                bad.append(f"skip/blocking/window/jitter = {ii.skip}/{ii.blocking}/{ii.window}/{ii.jitter}")
            if ii.output != f"n{c['src']}" or ii.rate != nodes[c["src"]].rate:
                bad.append(f"output/rate = {ii.output}/{ii.rate}")
            if bad:
                fail("info_consistent", f"n{i}.info.inputs[n{c['src']}]: " + ", ".join(bad) + ";")
    return exp, got


def check_roundtrip(res, ops, pool, cfg, nodes, exp):
    from rex.node import BaseNode

    replay = dict(kind="roundtrip", ops=ops, pool=pool.export())
    where = f"after [{_describe(ops, pool, len(ops))}]"
    try:
        infos = {nd.name: nd.info for nd in nodes}
        new = {name: BaseNode.from_info(info) for name, info in infos.items()}
        for name, info in infos.items():
            new[name].connect_from_info(info.inputs, new)
        infos2 = {name: nd.info for name, nd in new.items()}
    except Exception as ex:  # noqa: BLE001
        res.fail("roundtrip", f"from_info/connect_from_info raised {type(ex).__name__}: {str(ex)[:200]} {where}", replay)
        return
    for i, nd in enumerate(nodes):
        a, b, nn = infos[nd.name], infos2[nd.name], new[nd.name]
        bad = []
        for f in ("rate", "advance", "scheduling", "name", "cls", "color", "order"):
            if getattr(a, f) != getattr(b, f):
                bad.append(f"{f}: {getattr(a, f)!r} -> {getattr(b, f)!r}")
        if abs(float(a.phase) - float(b.phase)) > TOL or abs(float(nn.phase) - exp[i]) > TOL:
            bad.append(f"phase: {a.phase!r} -> info {b.phase!r}, node.phase {nn.phase!r}")
        if abs(float(a.delay) - float(b.delay)) > TOL or a.delay_dist is not b.delay_dist:
            bad.append(f"delay/delay_dist: {a.delay!r} -> {b.delay!r}, same distribution object: {a.delay_dist is b.delay_dist}")
        if list(a.inputs.keys()) != list(b.inputs.keys()) or list(nd.inputs.keys()) != list(nn.inputs.keys()):
            bad.append(f"inputs: {list(a.inputs.keys())} -> {list(b.inputs.keys())}")
        else:
            for k in a.inputs:
                x, y = a.inputs[k], b.inputs[k]
                for f in ("rate", "window", "blocking", "skip", "jitter", "name", "output"):
                    if getattr(x, f) != getattr(y, f):
                        bad.append(f"inputs[{k}].{f}: {getattr(x, f)!r} -> {getattr(y, f)!r}")
                if abs(float(x.phase) - float(y.phase)) > TOL or abs(float(x.delay) - float(y.delay)) > TOL or x.delay_dist is not y.delay_dist:
                    bad.append(f"inputs[{k}] phase/delay/dist: {x.phase!r}/{x.delay!r} -> {y.phase!r}/{y.delay!r}, same distribution object: {x.delay_dist is y.delay_dist}")
                if nn.inputs[k].output_node is not new[x.output] or nn.inputs[k].input_node is not nn:
                    bad.append(f"inputs[{k}] is not connected to the rebuilt node {x.output}")
        if sorted(nd.outputs.keys()) != sorted(nn.outputs.keys()):
            bad.append(f"outputs: {sorted(nd.outputs.keys())} -> {sorted(nn.outputs.keys())}")
        if bad:
            res.fail("roundtrip", f"from_info + connect_from_info changed n{i}: " + "; ".join(bad[:4]) + f" {where}", replay)


# ------------------------------------------------------------------------------------------------
# model vs implementation


def _model_cmd(ops, upto, pool, n_nodes):
    mops = []
    for o in ops[:upto]:
        m = dict(op=o["op"], dist=None if o["dist"] is None else dict(raw=pool.items[o["dist"]]["raw"], id=o["dist"]), delay=None if o["delay"] is None else fbits(o["delay"]))
        for f in ("src", "dst", "skip", "blocking", "n", "k"):
            if f in o and o[f] is not None:
                m[f] = o[f]
        mops.append(m)
    return dict(cmd="c16.history", ops=mops, q99=[fbits(x) for x in pool.q99()], fuel=n_nodes + 1)


def compare_model(res, out, nodes, conns, got, ops, upto, pool):
    case = dict(kind="history", ops=ops[:upto])
    where = f"after [{_describe(ops, pool, upto)}]"
    if "error" in out:
        res.corr_diff("history", f"driver error {out['error']} {where}", case)
        return
    out = unbits(out)
    for i, nd in enumerate(nodes):
        m = out["nodes"][i]
        if abs(m["delay"] - nd.delay) > TOL or m["raw"] or not stored_matches(nd.delay_dist, m["id"], pool):
            res.corr_diff("stored", f"n{i}: implementation delay={nd.delay!r} dist={nd.delay_dist!r}; model delay={m['delay']!r} dist token={m['id']} raw={m['raw']} {where}", case)
        mp = out["phase"][i]
        kind, val = got[i]
        if (mp == "loop") != (kind == "loop") or (kind == "ok" and mp != "loop" and abs(mp - val) > TOL):
            res.corr_diff("phase", f"n{i}.phase: implementation {kind} {val if kind == 'ok' else ''}; model {mp!r} {where}", case)
    for k, cn in enumerate(conns):
        m = out["conns"][k]
        if abs(m["delay"] - cn.delay) > TOL or m["raw"] or not stored_matches(cn.delay_dist, m["id"], pool) or m["skip"] != cn.skip:
            res.corr_diff("stored", f"connection#{k}: implementation delay={cn.delay!r} skip={cn.skip}; model delay={m['delay']!r} dist token={m['id']} skip={m['skip']} {where}", case)
        kind, val = _phase_of(cn)
        mp = out["conn_phase"][k]
        if (mp == "loop") != (kind == "loop") or (kind == "ok" and mp != "loop" and abs(mp - val) > TOL):
            res.corr_diff("phase", f"connection#{k}.phase: implementation {kind} {val if kind == 'ok' else ''}; model {mp!r} {where}", case)
    # infos and their round trip on the model side (only meaningful when nothing loops)
    if all(p != "loop" for p in out["phase"]):
        if out["infos"] != out["rb_infos"]:
            res.corr_diff("roundtrip", f"model: infos of the rebuilt configuration differ from the original infos {where}", case)
        for i, nd in enumerate(nodes):
            try:
                info = nd.info
            except Exception:  # noqa: BLE001
                continue
            mi = out["infos"][i]
            if abs(mi["phase"] - float(info.phase)) > TOL or abs(mi["delay"] - float(info.delay)) > TOL or [f"n{x['output']}" for x in mi["inputs"]] != list(info.inputs.keys()):
                res.corr_diff("info", f"n{i}.info: implementation phase={info.phase!r} delay={info.delay!r} inputs={list(info.inputs.keys())}; model {mi} {where}", case)
                continue
            for x in mi["inputs"]:
                ii = info.inputs[f"n{x['output']}"]
                if abs(x["phase"] - float(ii.phase)) > TOL or abs(x["delay"] - float(ii.delay)) > TOL or x["skip"] != bool(ii.skip) or x["blocking"] != bool(ii.blocking):
                    res.corr_diff("info", f"n{i}.info.inputs[n{x['output']}]: implementation phase={ii.phase!r} delay={ii.delay!r} skip={ii.skip}; model {x} {where}", case)


# ------------------------------------------------------------------------------------------------
# asynchronous-runtime observations


def sim_oracle(cfg):
    names = list(cfg["nodes"])
    memo = {}

    def ph(x, stack=()):
        if x in memo:
            return memo[x]
        assert x not in stack
        best = 0.0
        for e in cfg["edges"]:
            if e["dst"] == x and not e["skip"]:
                best = max(best, ph(e["src"], stack + (x,)) + cfg["nodes"][e["src"]]["delay"] + e["delay"])
        memo[x] = best
        return best

    return {x: ph(x) for x in names}


def check_sim(res, task, r):
    spec = r["spec"]
    hist = []
    for si, st in enumerate(r["stages"]):
        cfg, obs = st["cfg"], st["obs"]
        hist += st["calls"]
        exp = sim_oracle(cfg)
        replay = dict(kind="simulation", task=task, spec=spec, stage=si, calls=hist, cfg=cfg)
        where = f"[{obs['tag']}; graph seed={task['args']['seed']}; calls so far: {', '.join(hist) or 'none'}]"
        for name, o in obs["nodes"].items():
            res.evaluations += 1
            rate = cfg["nodes"][name]["rate"]
            if abs(o["live_phase"] - exp[name]) > 1e-9:
                res.fail("phase_longest", f"{name}.phase = {o['live_phase']!r}, longest configured path = {exp[name]!r} {where}", replay)
            if "info_phase" in o and (abs(o["info_phase"] - exp[name]) > 1e-9 or abs(o["info_delay"] - cfg["nodes"][name]["delay"]) > 1e-9):
                res.fail("sim_info", f"recorded NodeInfo of {name}: phase={o['info_phase']!r} delay={o['info_delay']!r}, configured phase={exp[name]!r} delay={cfg['nodes'][name]['delay']!r} {where}", replay)
            if "rt_phase" in o and abs(o["rt_phase"] - exp[name]) > 1e-9:
                res.fail("sim_phase", f"the runtime scheduled {name} with phase {o['rt_phase']!r} in this episode; the configured delays give {exp[name]!r} (node.phase {o['live_phase']!r}) {where}", replay)
            for src, v in o.get("rt_conn_phase", {}).items():
                e = [e for e in cfg["edges"] if e["src"] == src and e["dst"] == name][0]
                want = exp[src] + cfg["nodes"][src]["delay"] + e["delay"]
                if abs(v - want) > 1e-9 or abs(o["live_conn_phase"][src] - want) > 1e-9:
                    res.fail("sim_phase", f"the runtime used connection phase {v!r} for {src}->{name} in this episode (connection.phase {o['live_conn_phase'][src]!r}); the configured delays give {want!r} {where}", replay)
            if not o["ts_start"]:
                res.count("sim:node_without_steps")  # its phase lies beyond the supervisor's last step
                continue
            for k, ts in enumerate(o["ts_start"]):
                want = o["seq"][k] / rate + exp[name]
                if abs(ts - want) > 2e-6:
                    res.fail("sim_phase", f"{name} step {o['seq'][k]} started at ts={ts!r}; the configured delays give seq/rate + phase = {want!r} (phase {exp[name]!r}, node.phase {o['live_phase']!r}) {where}", replay)
                    break
            for k, d in enumerate(o["delay"]):
                if abs(d - cfg["nodes"][name]["sim"]) > 1e-6:
                    res.fail("sim_delay", f"{name}: simulated computation delay {d!r}, configured distribution is Deterministic({cfg['nodes'][name]['sim']!r}) {where}", replay)
                    break
            for src, m in o["msgs"].items():
                e = [e for e in cfg["edges"] if e["src"] == src and e["dst"] == name][0]
                for d, a, b in zip(m["delay"], m["ts_sent"], m["ts_recv"]):
                    if abs(d - e["sim"]) > 2e-6 and abs((b - a) - e["sim"]) > 2e-6:  # FIFO can only hold a message back when delays vary; they do not here
                        res.fail("sim_delay", f"{src}->{name}: simulated communication delay {d!r} (sent {a!r}, received {b!r}), configured distribution is Deterministic({e['sim']!r}) {where}", replay)
                        break
        res.count(f"sim:stage{si}")


# ------------------------------------------------------------------------------------------------


def _replay(ctx, res):
    """./check C16 --replay <file>: re-run the recorded history / simulation on the current tree."""
    import rex.constants as const
    from rex.node import BaseNode

    rp = ctx.replay.get("failure", {}).get("replay") or ctx.replay
    if rp.get("kind") == "simulation":
        import pool as wpool

        r = wpool.run_tasks([rp["task"]], timeout=480)[0]
        if r is None or r.get("timeout") or "error" in r:
            res.fail("sim_exception", f"replayed simulation failed: {r}", rp)
        else:
            check_sim(res, rp["task"], r)
        return res
    pool = Pool(specs=[i["spec"] for i in rp["pool"][1:]])
    ops = rp["ops"]
    cfg, nodes, conns = Cfg(pool), [], []
    n_nodes = len([o for o in ops if o["op"] == "node"])
    exp = None
    for k, o in enumerate(ops):
        cfg.apply(o)
        _apply_real(o, nodes, conns, pool, BaseNode, const)
        if k + 1 >= n_nodes:
            exp, _ = check_state(res, ops, k + 1, pool, cfg, nodes, conns, o)
            res.evaluations += 1
    if exp is not None and all(e is not None for e in exp):
        check_roundtrip(res, ops, pool, cfg, nodes, exp)
    return res


def run(ctx):
    sys.path.insert(0, common.REPO)
    res = Result()
    rng = ctx.rng

    if ctx.replay is not None:
        return _replay(ctx, res)

    # asynchronous-runtime part runs in worker processes while the pure part runs here
    n_sim = ctx.n(10, 16 if ctx.search else 60)
    sim_tasks = [dict(fn="tasks_c16:sim_case", args=dict(seed=rng.randrange(1 << 30))) for _ in range(n_sim)]
    sim_out = {}

    def _sims():
        import pool as wpool

        rs = wpool.run_tasks(sim_tasks, timeout=240)
        late = [i for i, r in enumerate(rs) if r is None or r.get("timeout")]
        if late:  # a loaded machine: try once more before calling it a hang
            again = wpool.run_tasks([sim_tasks[i] for i in late], timeout=480)
            for i, r in zip(late, again):
                rs[i] = r
        sim_out["r"] = rs

    import time

    t_start = time.time()
    th = threading.Thread(target=_sims)
    th.start()

    import rex.constants as const
    from rex.node import BaseNode

    n = ctx.n(100, 600 if ctx.search else 3000)
    pool = Pool(rng)
    cmds, metas = [], []
    for case in range(n):
        cyclic = rng.random() < 0.25
        ops = gen_history(rng, pool, cyclic)
        cfg = Cfg(pool)
        nodes, conns = [], []
        n_nodes = len([o for o in ops if o["op"] == "node"])
        probe_at = {len(ops), rng.randint(n_nodes + 1, len(ops))}
        exp = got = None
        failed_before = len(res.failures)
        try:
            for k, o in enumerate(ops):
                cfg.apply(o)
                _apply_real(o, nodes, conns, pool, BaseNode, const)
                if k + 1 >= n_nodes:
                    exp, got = check_state(res, ops, k + 1, pool, cfg, nodes, conns, o)
                    res.evaluations += 1
                    if k + 1 in probe_at and ctx.driver is not None:
                        cmds.append(_model_cmd(ops, k + 1, pool, n_nodes))
                        # snapshot of what the implementation says at this prefix (objects keep changing afterwards)
                        snap_nodes, snap_conns = _build(ops, pool, k + 1)
                        metas.append((snap_nodes, snap_conns, [_phase_of(x) for x in snap_nodes], ops, k + 1))
                if len(res.failures) > failed_before + 3:
                    break
            if exp is not None and all(e is not None for e in exp) and len(res.failures) == failed_before:
                check_roundtrip(res, ops, pool, cfg, nodes, exp)
                res.count("roundtrip")
        except Exception as ex:  # the implementation raised on a valid history
            res.fail("exception", f"{type(ex).__name__}: {str(ex)[:300]} during [{_describe(ops, pool, len(ops))}]", dict(kind="history", ops=ops))
        # distribution / non-triviality
        n_skip = sum(1 for c in cfg.conns if c["skip"])
        indeg = {}
        for c in cfg.conns:
            if not c["skip"]:
                indeg[c["dst"]] = indeg.get(c["dst"], 0) + 1
        diamond = any(v >= 2 for v in indeg.values())
        n_set = sum(1 for o in ops if o["op"].startswith("set_"))
        res.count("cases")
        res.count(f"nodes={n_nodes}")
        res.count("cyclic" if exp is not None and any(e is None for e in exp) else "acyclic")
        res.count("has_skip" if n_skip else "no_skip")
        res.count("has_diamond" if diamond else "no_diamond")
        res.count("set_delay_zero", sum(1 for o in ops if o["op"].startswith("set_") and o["delay"] == 0.0))
        res.count("set_delay_dist", sum(1 for o in ops if o["op"].startswith("set_") and o["dist"] is not None))
        if n_skip and diamond and n_set:
            res.nontriv(dict(ops=ops))
        if len(res.samples) < 2:
            res.samples.append(dict(history=_describe(ops, pool, len(ops)), phases=exp))
        if len(res.failures) > 40:
            break
    # ---- model vs implementation
    if ctx.driver is not None and cmds:
        try:
            outs = ctx.driver.run(cmds)
        except Exception as ex:  # noqa: BLE001
            res.corr_diff("driver", f"driver failed: {str(ex)[-300:]}", dict(kind="driver"))
            outs = []
        for (snap_nodes, snap_conns, got, ops, upto), out in zip(metas, outs):
            compare_model(res, out, snap_nodes, snap_conns, got, ops, upto, pool)
            res.traces += 1
    # ---- simulation
    res.notes.append(f"pure part (histories + model comparison): {time.time() - t_start:.1f}s")
    th.join()
    res.notes.append(f"asynchronous episodes finished after {time.time() - t_start:.1f}s ({n_sim} graphs x 4 episodes)")
    n_ok = 0
    for t, r in zip(sim_tasks, sim_out.get("r", [])):
        if r is None or r.get("timeout"):
            raise RuntimeError(f"asynchronous episode sequence timed out twice (graph seed={t['args']['seed']}); harness problem, not a verdict")
        if "error" in r:
            res.fail("sim_exception", f"the asynchronous episode sequence raised {r['error'][:300]} (graph seed={t['args']['seed']})", dict(kind="simulation", task=t, traceback=r.get("traceback", "")[-1500:]))
            continue
        check_sim(res, t, r)
        n_ok += 1
        if len(res.samples) < 3:
            res.samples.append(dict(simulation=dict(seed=t["args"]["seed"], calls=[c for st in r["stages"] for c in st["calls"]],
                                                    first_steps={k: v["ts_start"][:2] for k, v in r["stages"][-1]["obs"]["nodes"].items()})))
    res.count("sim_cases", n_ok)
    res.traces += n_ok
    return res
