"""C15 — delay distributions give non-negative, replayable samples and true quantiles; the estimator returns a proper distribution."""
import math
import re

import pool
from common import Result, close, fbits, log, unbits

INFO = dict(
    level="proof",
    rule="random StaticDist (Deterministic / Normal with mean near 0 / MixtureSameFamily with mostly unequal weights) and TrainableDist instances x rng keys from "
    "inside split trees x sample shapes (None, int, tuples) x quantile levels, exact CDF tables (with ties and plateaus) through the real "
    "mixture_distribution_quantiles, nodes/connections built on those distributions, GMMEstimator.get_dist on injected parameter vectors, short real fits and "
    "constant data sets (incl. all-zero); every statement of C15 is evaluated as a monitor on the real rex objects and the Lean model (generated kernels on Float) "
    "is compared with the implementation; replayability at the level of the asynchronous runtime: episodes of one AsyncGraph started from the same graph state draw the same computation / communication delays, however many the earlier episode consumed. Non-trivial: a sampling case whose raw draw contains a negative value (scale > 0, mean near 0); a quantile case on a "
    "Normal with loc <= 2*scale or a mixture with unequal weights; a grid case whose level ties with a tabulated CDF value; an estimator case that prunes a component or has constant data",
    trusted=[
        "harness/extract.py + harness/extract_dist.py (Python ast -> Lean) for the kernels listed under kernels_extracted",
        "modelled, not verified: jax.random.split / threefry (abstract `split` with a rank function and distinct children), the raw distrax sampler (`draw`), "
        "jax.scipy.special.ndtri (monotone, ndtri(1/2)=0) and the normal CDF (inverse of ndtri), distrax component CDFs (values in [0,1], non-decreasing), "
        "numpy argmax (first True, 0 if none) and argsort, jnp.exp/jnp.log = Real.exp/Real.log; float32 rounding (compared with tolerances, never bit-exact)",
        "monitors: harness/tasks_c15.py (true CDFs computed in float64 with math.erf, independent of rex and of the Lean model)",
    ],
    assumptions=[
        "delay distributions have non-negative locations; mixture quantile levels are scalars in [0.01, 0.99] (array levels raise in rex; levels equal to the largest tabulated CDF value "
        "and levels below the CDF at 0.9*q_0.001 are outside the claim - see notes/C15.md)",
        "'agrees with the CDF' for mixtures = CDF(x - grid step) <= q <= CDF(x) for the returned grid point x, and x is the FIRST grid point whose CDF exceeds q (strict)",
        "constant-data determinism is claimed for data whose float32 mean is exact (all-zero and short dyadic constants); other constants are reported, not judged (suspected defect)",
    ],
)

DYADIC = [0.0, 1 / 16, 1 / 8, 3 / 16, 1 / 4, 3 / 8, 1 / 2, 5 / 8, 3 / 4, 7 / 8, 15 / 16, 1.0]


# ------------------------------------------------------------------------------------------------------------------
# generators


def gen_dist(rng, kinds):
    kind = rng.choice(kinds)
    if kind == "det":
        return dict(kind="det", loc=rng.choice([0.0, 0.001, 0.01, round(rng.uniform(0, 0.2), 5), 1.0]))
    if kind == "normal":
        loc = rng.choice([0.0, round(rng.uniform(0, 0.005), 5), round(rng.uniform(0, 0.05), 5), round(rng.uniform(0.05, 2.0), 4)])
        scale = rng.choice([round(rng.uniform(1e-4, 0.02), 6), round(rng.uniform(0.001, 0.02), 6), round(rng.uniform(0.02, 0.5), 5)])
        return dict(kind="normal", loc=loc, scale=scale)
    if kind == "mix":
        k = rng.choice([2, 2, 3, 4])
        style = rng.random()
        if style < 0.2:
            w = [1.0 / k] * k
        elif style < 0.5 and k == 2:
            a = rng.choice([0.9, 0.1, 0.75, 0.95, 0.05, 0.3])
            w = [a, 1 - a]
        else:
            raw = [rng.uniform(0.05, 1.0) ** 2 for _ in range(k)]
            w = [round(x / sum(raw), 4) for x in raw]
            w[-1] = round(1.0 - sum(w[:-1]), 4)
        base = rng.choice([0.002, 0.01, 0.05, 0.5])
        loc = sorted(round(base * rng.uniform(0.5, 8.0), 6) for _ in range(k))
        scale = [round(base * rng.uniform(0.05, 0.6), 6) for _ in range(k)]
        return dict(kind="mix", w=w, loc=loc, scale=scale)
    if kind == "trainable":
        lo = rng.choice([0.0, round(rng.uniform(0, 0.02), 4)])
        hi = round(lo + rng.uniform(0.005, 0.1), 4)
        delay = round(rng.uniform(lo, hi), 5)
        return dict(kind="trainable", lo=lo, hi=hi, delay=min(max(delay, lo), hi))
    raise ValueError(kind)


def gen_key(rng):
    return [rng.randrange(2**31)] + [rng.randrange(3) for _ in range(rng.choice([0, 0, 1, 3]))]


def gen_sampling(rng, n):
    out = []
    for i in range(n):
        d = gen_dist(rng, ["normal", "normal", "normal", "mix", "mix", "det", "trainable"])
        if d["kind"] == "normal" and rng.random() < 0.6:  # the non-trivial region: mean near 0, scale > 0
            d["loc"] = rng.choice([0.0, round(rng.uniform(0, 1.5) * d["scale"], 6)])
        shape = rng.choice([None, rng.randint(1, 50), rng.randint(1, 50), 50, [rng.randint(1, 4), rng.randint(1, 6)], [2, 1, 3], [50]])
        out.append(dict(dist=d, key=gen_key(rng), shape=shape, nseq=rng.choice([2, 3, 5]), pure_api=rng.random() < 0.3, jit=(i % 16 == 5)))
    return out


def gen_quantiles(rng, n):
    out = []
    for _ in range(n):
        d = gen_dist(rng, ["normal", "normal", "mix", "mix", "mix", "det", "trainable"])
        if d["kind"] == "normal" and rng.random() < 0.15:
            d["scale"] = 0.0  # the jitter-free end of a scale sweep: every sample and every quantile is loc
            d["loc"] = rng.choice([0.0, 0.01, round(rng.uniform(0.001, 0.5), 4)])
        if d["kind"] == "mix":
            qs = sorted(set([round(rng.uniform(0.01, 0.99), 4) for _ in range(3)] + rng.sample([0.01, 0.05, 0.25, 0.5, 0.75, 0.9, 0.95, 0.99], 2)))
        else:
            qs = sorted(set([round(rng.uniform(0.001, 0.999), 4) for _ in range(4)] + rng.sample([0.001, 0.01, 0.5, 0.9, 0.99, 0.999], 2)))
        out.append(dict(dist=d, qs=qs))
    return out


def gen_grid(rng, n):
    out = []
    for i in range(n):
        m = rng.randint(2, 24)
        vals, v = [], rng.choice([0.0, 0.0, 1 / 16])
        for _ in range(m):
            vals.append(v)
            v = min(1.0, v + rng.choice([0.0, 0.0, 1 / 16, 1 / 8, 1 / 4]))
        if vals[-1] == vals[0]:
            vals[-1] = min(1.0, vals[0] + 0.5)
        lo, hi = vals[0], vals[-1]
        cands = [x for x in set(vals) if x < hi] + [x + 1 / 64 for x in set(vals) if x + 1 / 64 < hi]
        ps = sorted(rng.choice(cands) for _ in range(rng.randint(1, 4)))
        r = rng.random()
        if r < 0.08:
            ps = sorted(ps + [hi])  # level equal to the largest tabulated CDF value: no grid point exceeds it
        elif r < 0.14:
            ps = ps + [hi + 0.25]  # outside: the grid check has to raise
        elif r < 0.18 and lo > 0:
            ps = [lo / 2] + ps
        gmin = rng.choice([0.0, 0.5, -1.0, 10.0])
        out.append(dict(table=vals, ps=ps, gmin=gmin, gmax=gmin + rng.choice([1.0, 2.5, float(m - 1)])))
    return out


def gen_mixcdf(rng, n):
    out = []
    for _ in range(n):
        d = gen_dist(rng, ["mix"])
        lo = min(m - 5 * s for m, s in zip(d["loc"], d["scale"]))
        hi = max(m + 5 * s for m, s in zip(d["loc"], d["scale"]))
        out.append(dict(dist=d, ps=sorted(round(rng.uniform(0.02, 0.98), 3) for _ in range(3)), n=rng.choice([60, 120, 250]), gmin=lo, gmax=hi))
    return out


def gen_nodes(rng, n):
    out = []
    for i in range(n):
        d = None if i % 9 == 0 else gen_dist(rng, ["normal", "normal", "mix", "mix", "det", "trainable"])
        out.append(dict(dist=d, rate=rng.choice([1, 5, 10, 20, 50, 100]), explicit=round(rng.uniform(0, 0.1), 4), raw_distrax=rng.random() < 0.5))
    return out


def gen_data(rng, n):
    base = rng.choice([0.004, 0.02, 0.3, 2.0])
    return [abs(rng.gauss(base, 0.15 * base)) if rng.random() < 0.7 else abs(rng.gauss(3 * base, 0.4 * base)) for _ in range(n)]


def gen_inject(rng, n):
    out = []
    for i in range(n):
        k = rng.choice([2, 4, 4, 6])
        log_w = [round(rng.gauss(0, 1.5), 4) for _ in range(k)]
        for j in range(k):
            if rng.random() < 0.35:
                log_w[j] = round(rng.uniform(-9, -5), 4)  # a component that does not contribute -> pruned
        if all(x < -4 for x in log_w):
            log_w[0] = 0.0
        out.append(dict(data=gen_data(rng, rng.randint(12, 40)), log_w=log_w, mus=[round(rng.gauss(0, 1), 4) for _ in range(k)],
                        log_s=[round(rng.gauss(-0.5, 0.7), 4) for _ in range(k)], pct=rng.choice([0.99, 0.99, 0.9, 0.999, 0.5]), usable=(i % 8 == 0)))
    return out


def gen_const(rng, n):
    out = [dict(value=0.0, n=rng.randint(5, 64), verdict=True), dict(value=0.0, n=50, verdict=True)]
    for _ in range(n):
        out.append(dict(value=rng.randint(1, 64) / 1024.0, n=rng.randint(5, 64), verdict=True))
    out.append(dict(value=1.0, n=20, verdict=True))
    # reported, never judged: constants whose float32 mean is inexact (see notes/C15.md)
    out += [dict(value=v, n=k, verdict=False) for v, k in [(1234.567, 20), (3.3, 7), (100.1, 20), (0.0123, 33), (0.1, 7)]]
    return out


# ------------------------------------------------------------------------------------------------------------------


def _enc(x):
    if isinstance(x, bool) or x is None or isinstance(x, (int, str)):
        return x
    if isinstance(x, float):
        return fbits(x)
    if isinstance(x, (list, tuple)):
        return [_enc(v) for v in x]
    if isinstance(x, dict):
        return {k: _enc(v) for k, v in x.items()}
    return x


def _same(a, b, rtol, atol):
    if isinstance(a, bool) or isinstance(b, bool):
        return a == b
    if a is None or b is None:
        return a is None and b is None
    if isinstance(a, (list, tuple)):
        return isinstance(b, (list, tuple)) and len(a) == len(b) and all(_same(x, y, rtol, atol) for x, y in zip(a, b))
    if isinstance(a, int) and isinstance(b, int):
        return a == b
    return close(float(a), float(b), rtol, atol)


def _chunks(xs, k):
    k = max(1, k)
    size = max(1, math.ceil(len(xs) / k))
    return [xs[i : i + size] for i in range(0, len(xs), size)]


def _key_indices(ctx):
    """(n, index of the new rng, index of the sampling key) as the extracted kernels say; default = the pinned tree"""
    rep = getattr(ctx.ob, "kernel_report", {}) or {}
    out = {}
    for name in ("sample_new_key", "sample_seed_key"):
        m = re.search(r"\(split rng (\d+) (\d+)\)", (rep.get(name) or {}).get("lean", "") or "")
        if m:
            out[name] = (int(m.group(1)), int(m.group(2)))
    if len(out) == 2 and out["sample_new_key"][0] == out["sample_seed_key"][0]:
        return [out["sample_new_key"][0], out["sample_new_key"][1], out["sample_seed_key"][1]]
    return [2, 0, 1]


def run(ctx):
    res = Result()
    rng = ctx.rng
    big = ctx.search
    tasks = []
    if ctx.replay:  # re-run one recorded failing case
        rp = ctx.replay.get("failure", {}).get("replay", {})
        t, c = rp.get("task"), rp.get("case")
        if t in ("sampling", "quantiles", "grid", "mixcdf", "nodes", "gmm_inject", "gmm_const", "runtime_replay"):
            tasks.append(dict(fn=f"tasks_c15:{t}", args=dict(cases=[c])))
        elif t == "gmm_fit":
            log("[C15] replay of a fit needs the full data set; re-running the seeded check instead")
    if not tasks:
        kidx = _key_indices(ctx)
        n_s = ctx.n(72, 240 if big else 1000)
        n_q = ctx.n(56, 200 if big else 800)
        n_g = ctx.n(120, 400 if big else 3000)
        n_m = ctx.n(12, 40 if big else 120)
        n_n = ctx.n(30, 80 if big else 300)
        n_i = ctx.n(40, 120 if big else 500)
        n_f = ctx.n(2, 3 if big else 6)
        n_c = ctx.n(5, 12 if big else 30)
        par = ctx.n(5, 6 if big else 12)
        for ch in _chunks(gen_sampling(rng, n_s), par):
            tasks.append(dict(fn="tasks_c15:sampling", args=dict(cases=ch, key_idx=kidx)))
        for ch in _chunks(gen_quantiles(rng, n_q), par):
            tasks.append(dict(fn="tasks_c15:quantiles", args=dict(cases=ch)))
        for ch in _chunks(gen_grid(rng, n_g), 2):
            tasks.append(dict(fn="tasks_c15:grid", args=dict(cases=ch)))
        for ch in _chunks(gen_mixcdf(rng, n_m), 2):
            tasks.append(dict(fn="tasks_c15:mixcdf", args=dict(cases=ch)))
        for ch in _chunks(gen_nodes(rng, n_n), 3):
            tasks.append(dict(fn="tasks_c15:nodes", args=dict(cases=ch)))
        for ch in _chunks(gen_inject(rng, n_i), 3):
            tasks.append(dict(fn="tasks_c15:gmm_inject", args=dict(cases=ch)))
        for i in range(n_f):
            tasks.append(dict(fn="tasks_c15:gmm_fit", args=dict(case=dict(data=gen_data(rng, rng.randint(40, 70)), steps=rng.choice([15, 25]), ncomp=rng.choice([1, 2]), seed=rng.randrange(1000)))))
        for ch in _chunks(gen_const(rng, n_c), 3):
            tasks.append(dict(fn="tasks_c15:gmm_const", args=dict(cases=ch)))
        for _ in range(ctx.n(2, 4 if big else 10)):
            tasks.append(dict(fn="tasks_c15:runtime_replay", args=dict(cases=[dict(seed=rng.randrange(1 << 30), n1=rng.randint(5, 8), n2=rng.randint(3, 6))])))
        # longest first
        tasks.sort(key=lambda t: 0 if ("gmm_fit" in t["fn"] or "runtime_replay" in t["fn"]) else 1 if "gmm_const" in t["fn"] else 2)
    outs = pool.run_tasks(tasks, timeout=600)
    model = []
    for t, r in zip(tasks, outs):
        if r is None or r.get("timeout") or "error" in r:
            raise RuntimeError(f"worker task {t['fn']} failed: {str(r)[:1500]}")
        res.evaluations += r["evals"]
        for k, v in r["counts"].items():
            res.count(k, v)
        for key, desc, rp in r["fails"]:
            res.fail(key, desc, rp)
        for stream, desc, case in r["corr"]:
            res.corr_diff(stream, desc, case)
        for obj in r["nontriv"]:
            res.nontriv(obj)
        for s in r["samples"]:
            if len(res.samples) < 6 and not any(x.get("kind") == s.get("kind") for x in res.samples):
                res.samples.append(s)
        for nt in r["notes"]:
            if nt not in res.notes:
                res.notes.append(nt)
        model += r["model"]
        res.count("task:" + t["fn"].split(":")[1])
    # ---- model vs implementation
    if ctx.driver is not None and model:
        cmds = [dict(cmd=m[0], **_enc(m[1])) for m in model]
        drv = ctx.driver.run(cmds)
        for (cmd, args, impl, case, (rtol, atol)), out in zip(model, drv):
            if "error" in out:
                res.corr_diff(cmd, f"driver error {out['error']} on {args}", case)
                continue
            out = unbits(out)
            bad = [k for k in impl if not _same(impl[k], out.get(k), rtol, atol)]
            if bad:
                k = bad[0]
                res.corr_diff(cmd, f"{cmd}.{k}: implementation {impl[k]} vs model {out.get(k)} for {str(args)[:300]}", case)
            res.traces += 1
            res.count("model:" + cmd)
    return res
