"""C18 — search solvers keep the best candidate, respect bounds and ignore NaN losses.

CEM (rex/cem.py): theorems in lean/RexModel/Props/C18.lean about the kernels regenerated from the source; here the REAL
`cem_step` / `cem` run on adversarial loss functions, the property's statements are evaluated as monitors on every iteration, and
the executable Lean model (driver `c18.run`, `c18.sample`) is compared with the implementation (elite set via the mean/stdev
update, stored candidate, stored loss, sampled candidates).
Evolutionary solver (rex/evo.py): evosax is a black box — monitors only (populations returned by `ask`, arguments given to `tell`,
`best_fitness` / `best_member`)."""
import math

import common
import pool
from common import Result, close, fbits, unbits

INFO = dict(
    level="proof",
    rule="random CEM configurations (1-2 parameter leaves, 2-12 samples, 1..n elites, smoothing in [0,1], bounds incl. degenerate and clipping-heavy "
    "ones) x adversarial loss functions (quantised => ties, constant, NaN half-space, +inf half-space, sporadic NaN with p up to 1 => all-NaN "
    "generations) x 5 iterations through the real cem_step; evosax strategies through the real evo_step. A case is non-trivial when its losses "
    "contain >=1 NaN and >=1 tie between finite losses (distinct by loss trace)",
    trusted=[
        "harness/extract.py (Python ast -> Lean) for the 15 kernels of gaussian_samples.sample and cem_update_mean_stdev",
        "modelled, not verified: jnp.argsort = stable sort with NaN last (checked against the implementation through the elite mean/stdev on every case); "
        "jnp.mean/jnp.std over the elite samples and tree_map = leafwise maps (abstract `refit` in the model); float32 arithmetic of mean + stdev*noise "
        "(compared with tolerance 1e-5); jax.random (noise is an input of the model); vmap / scan / jit",
        "evosax (ask / tell / best tracking) is a black box: no theorem, monitors on what crosses the boundary and on EvoState only",
    ],
    assumptions=[
        "u_min <= u_max (witness theorem cem_sample_bounds_need_le_witness otherwise)",
        "num_elites = int(num_samples * elite_portion) >= 1 and num_samples >= 1 (otherwise the source raises IndexError; witness cem_update_zero_elites_witness)",
        "mean, stdev and bounds are not NaN (the clip theorem is over a linear order)",
        "interpretation (DESIGN section 6): NaN never displaces a finite-loss candidate; leftover elite slots are filled with NaN-loss candidates by design",
        "evo: rank-based evosax strategies only; strategies that use raw fitness values (OpenES, PGPE, ARS without fitness shaping) are excluded, see notes/C18.md",
    ],
)

# rank-based strategies; OpenES only with rank-based fitness shaping (with raw fitness values one NaN loss poisons its mean, see notes/C18.md)
EVO_STRATEGIES = ["CMA_ES", "Sep_CMA_ES", "SimpleGA", "DE", "PSO", "SimpleES", "RandomSearch", "SNES", "OpenES"]


# ------------------------------------------------------------------------------------------------
# generators


def _f32(x):
    import numpy as onp

    return float(onp.float32(x))


def _rand_space(rng):
    leaves = [rng.randint(1, 3) for _ in range(rng.randint(1, 2))]
    d = sum(leaves)
    u_min, u_max = [], []
    for _ in range(d):
        lo = _f32(rng.choice([-1.0, -0.5, 0.0, rng.uniform(-3, 1)]))
        w = _f32(rng.choice([0.0, 0.25, 1.0, 2.0, rng.uniform(0.1, 4)])) if rng.random() < 0.15 else _f32(rng.choice([0.5, 1.0, 2.0, rng.uniform(0.1, 4)]))
        u_min.append(lo)
        u_max.append(_f32(lo + w))
    mean0 = [_f32(rng.choice([a, b, (a + b) / 2, rng.uniform(a, b)])) for a, b in zip(u_min, u_max)]
    return leaves, d, u_min, u_max, mean0


def _rand_loss(rng, d, u_min, u_max, p_nan_choices):
    spec = dict(target=[_f32(rng.uniform(a - 0.2, b + 0.2)) for a, b in zip(u_min, u_max)])
    if rng.random() < 0.3:
        spec["l1"] = True
    r = rng.random()
    if r < 0.55:
        spec["q"] = rng.choice([0.25, 0.5, 1.0, 2.0])  # quantised => ties
    elif r < 0.65:
        spec["const"] = rng.choice([0.0, 1.5, -2.0])
    if rng.random() < 0.3:
        ax = rng.randrange(d)
        spec["nan_region"] = [ax, _f32(rng.uniform(u_min[ax], u_max[ax])), rng.random() < 0.5]
    if rng.random() < 0.25:
        ax = rng.randrange(d)
        spec["inf_region"] = [ax, _f32(rng.uniform(u_min[ax], u_max[ax])), rng.random() < 0.5]
    spec["p_nan"] = rng.choice(p_nan_choices)
    return spec


def gen_cem(rng, idx, scan):
    leaves, d, u_min, u_max, mean0 = _rand_space(rng)
    n = rng.choice([2, 3, 3, 4, 4, 5, 6, 8, 12])
    k = rng.randint(1, n)
    portion = (k + 0.5) / n  # int(n * portion) == k
    assert int(n * portion) == k
    stdev0 = None
    r = rng.random()
    if r < 0.25:
        stdev0 = [_f32(rng.choice([0.0, 1e-3, 5.0]) if rng.random() < 0.5 else rng.uniform(0.05, 3)) for _ in range(d)]
    return dict(
        kind="cem", idx=idx, leaves=leaves, u_min=u_min, u_max=u_max, mean0=mean0, stdev0=stdev0, num_samples=n, elite_portion=portion,
        smoothing=_f32(rng.choice([0.0, 0.1, 0.5, 1.0, rng.uniform(0, 1)])), steps=5, seed=rng.randrange(1 << 30),
        loss=_rand_loss(rng, d, u_min, u_max, [0.0, 0.0, 0.2, 0.4, 0.6, 0.85, 1.0]), scan=scan,
    )


def gen_evo(rng, idx, scan):
    leaves, d, u_min, u_max, mean0 = _rand_space(rng)
    # evosax needs a proper box
    u_max = [b if b > a else _f32(a + 1.0) for a, b in zip(u_min, u_max)]
    mean0 = [_f32((a + b) / 2) for a, b in zip(u_min, u_max)]
    strategy = EVO_STRATEGIES[idx % len(EVO_STRATEGIES)]
    kw = dict(popsize=rng.choice([8, 10, 12]))
    if strategy in ("CMA_ES", "Sep_CMA_ES"):
        kw.update(elite_ratio=rng.choice([0.25, 0.5]), sigma_init=rng.choice([0.3, 1.0]))
    fk = dict(centered_rank=True) if strategy == "OpenES" else {}
    return dict(
        kind="evo", idx=idx, leaves=leaves, u_min=u_min, u_max=u_max, mean0=mean0, strategy=strategy, strategy_kwargs=kw, fitness_kwargs=fk,
        steps=5, seed=rng.randrange(1 << 30), logger=rng.random() < 0.5, scan=scan,
        loss=_rand_loss(rng, d, u_min, u_max, [0.0, 0.2, 0.4, 0.7, 1.0]),
    )


# ------------------------------------------------------------------------------------------------
# monitors


def _isnan(x):
    return isinstance(x, float) and math.isnan(x)


def _san(x):
    return math.inf if _isnan(x) else x


def _fmt(xs):
    return "[" + ", ".join("nan" if _isnan(v) else repr(v) for v in xs) + "]"


def _short(cfg):
    keys = ("kind", "num_samples", "elite_portion", "smoothing", "u_min", "u_max", "mean0", "stdev0", "strategy", "strategy_kwargs", "fitness_kwargs", "seed", "loss")
    return {k: cfg[k] for k in keys if k in cfg}


def _elite_subsets(r, k, s):
    """All k-subsets of the candidates that explain the implementation's new mean and stdev (the elite set is only observable
    through them). None when the update carries no information (k = n, smoothing ~ 1, too many subsets)."""
    import itertools

    import numpy as onp

    n = len(r["samples"])
    if k >= n or s > 0.9 or math.comb(n, k) > 2000:
        return None
    subsets = list(itertools.combinations(range(n), k))
    E = onp.asarray(r["samples"], dtype=onp.float64)[onp.asarray(subsets)]  # (m, k, d)
    wm = s * onp.asarray(r["mean"]) + (1 - s) * E.mean(axis=1)
    ws = s * onp.asarray(r["stdev"]) + (1 - s) * E.std(axis=1)
    ok = onp.isclose(wm, onp.asarray(r["new_mean"]), rtol=1e-4, atol=2e-5).all(axis=1) & onp.isclose(ws, onp.asarray(r["new_stdev"]), rtol=1e-4, atol=2e-5).all(axis=1)
    return [subsets[i] for i in onp.nonzero(ok)[0]]


def check_cem(cfg, out, res, cmds, metas):
    """Monitors for one CEM case; queues the model commands."""
    u_min, u_max = cfg["u_min"], cfg["u_max"]
    replay = dict(task="tasks_c18:cem_case", cfg=cfg)
    tag = f"cem n={cfg['num_samples']} elites={out.get('num_elites')} smoothing={cfg['smoothing']} bounds={list(zip(u_min, u_max))} seed={cfg['seed']} loss={cfg['loss']}"
    prev_best = out["init"]["best_loss"]
    init_best = list(out["init"]["best"])
    evaluated = []  # (candidate, raw loss)
    batches = []
    has_nan = has_tie = False
    for it, r in enumerate(out["iters"]):
        if "error" in r:
            res.fail("cem_exception", f"cem_step raised {r['error']} at iteration {it}: {tag}", replay)
            return
        res.evaluations += 1
        losses, samples = r["losses"], r["samples"]
        batches.append(losses)
        fin = [l for l in losses if not _isnan(l) and l != math.inf]
        has_nan |= any(_isnan(l) for l in losses)
        has_tie |= len(set(fin)) < len(fin)
        res.count("cem_iterations")
        res.count("cem_gen_all_nan" if not fin else ("cem_gen_with_nan" if len(fin) < len(losses) else "cem_gen_all_finite"))
        # 1. bounds (exact: clip returns one of its arguments)
        for i, s in enumerate(samples):
            for c, v in enumerate(s):
                if not (u_min[c] <= v <= u_max[c]):
                    res.fail("cem_bounds", f"iteration {it}: candidate {i} coordinate {c} = {v!r} outside [{u_min[c]}, {u_max[c]}]; mean={r['mean']} stdev={r['stdev']}: {tag}", replay)
        if len(losses) != len(samples):
            res.fail("cem_shape", f"iteration {it}: {len(losses)} losses for {len(samples)} candidates: {tag}", replay)
        evaluated += list(zip(samples, losses))
        best = r["best_loss"]
        # 2. never increases, never NaN
        if _isnan(best) or not best <= prev_best:
            res.fail("cem_monotone", f"iteration {it}: bestsofar_loss went from {prev_best} to {best} with losses {_fmt(losses)}: {tag}", replay)
        # 3. equals the smallest loss evaluated so far (NaN -> +inf; +inf while nothing finite was seen)
        want = min([out["init"]["best_loss"]] + [_san(l) for _, l in evaluated])
        if _isnan(best) or best != want:
            res.fail("cem_min", f"iteration {it}: bestsofar_loss = {best} but the smallest finite loss evaluated so far is {want} (this iteration: {_fmt(losses)}): {tag}", replay)
        # 4. the stored candidate attained it
        att = [c for c, l in evaluated if _san(l) == best and c == r["best"]]
        if not att and not (best == out["init"]["best_loss"] and r["best"] == init_best):
            res.fail("cem_attained", f"iteration {it}: bestsofar = {r['best']} (loss {best}) is not a candidate that was evaluated with that loss: {tag}", replay)
        if fin or any(not _isnan(l) and l != math.inf for _, l in evaluated):
            if not any(c == r["best"] and not _isnan(l) and l == best for c, l in evaluated):
                res.fail("cem_nan_best", f"iteration {it}: a finite loss exists but bestsofar = {r['best']} is not a finite-loss candidate with loss {best}: {tag}", replay)
        prev_best = best if not _isnan(best) else prev_best
        # 5. elites: the candidates that entered the mean/stdev update are the num_elites smallest (NaN -> +inf): no candidate that was
        #    left out has a smaller loss than one that was used — in particular a NaN-loss candidate never displaces a finite-loss one
        k = out["num_elites"]
        matched = _elite_subsets(r, k, cfg["smoothing"])
        if matched is not None:
            res.count("cem_elite_sets_inferred")
            sl = [_san(l) for l in losses]
            adm = [S for S in matched if max(sl[i] for i in S) <= min(sl[j] for j in range(len(sl)) if j not in S)]
            if matched and not adm:
                S = matched[0]
                i = max(S, key=lambda i: sl[i])
                j = min((j for j in range(len(sl)) if j not in S), key=lambda j: sl[j])
                res.fail("cem_elites", f"iteration {it}: the new mean {r['new_mean']} was computed from candidates {list(S)}: candidate {i} (loss {_fmt([losses[i]])}) was used as elite "
                         f"while candidate {j} (loss {_fmt([losses[j]])}) was not; losses {_fmt(losses)}, num_elites={k}: {tag}", replay)
            elif not matched:
                res.corr_diff("elites", f"iteration {it}: no set of {k} candidates explains the new mean/stdev {r['new_mean']}/{r['new_stdev']}; losses {_fmt(losses)}: {tag}", replay)
    if has_nan and has_tie:
        res.nontriv([_fmt(b) for b in batches])
    res.count("cem_cases")
    if has_nan:
        res.count("cem_cases_with_nan")
    if has_tie:
        res.count("cem_cases_with_tie")
    if len(res.samples) < 2 and has_nan:
        res.samples.append(dict(cem=_short(cfg), losses=[_fmt(b) for b in batches], bestsofar_loss=[r["best_loss"] for r in out["iters"]]))
    # 6. scanned cem(): final best = smallest finite loss among everything it evaluated, stored candidate inside the bounds
    if "scan" in out:
        sc = out["scan"]
        allv = [_san(l) for row in sc["losses"] for l in row]
        want = min([math.inf] + allv)
        res.evaluations += 1
        res.count("cem_scans")
        if _isnan(sc["best_loss"]) or sc["best_loss"] != want:
            res.fail("cem_scan_min", f"cem(): final bestsofar_loss = {sc['best_loss']} but the smallest finite loss among the {len(allv)} evaluations it returned is {want}: {tag}", replay)
        if any(not (u_min[c] <= v <= u_max[c]) for c, v in enumerate(sc["best"])):
            res.fail("cem_scan_bounds", f"cem(): final bestsofar {sc['best']} outside the bounds: {tag}", replay)
    # model commands
    cmds.append(dict(cmd="c18.run", k=out["num_elites"], best="inf" if out["init"]["best_loss"] == math.inf else fbits(out["init"]["best_loss"]),
                     batches=[[("nan" if _isnan(l) else fbits(l)) for l in b] for b in batches]))
    metas.append(("run", cfg, out))
    for it, r in enumerate(out["iters"][:2]):
        n, d = len(r["samples"]), len(u_min)
        cmds.append(dict(cmd="c18.sample", mean=[fbits(r["mean"][c]) for _ in range(n) for c in range(d)], stdev=[fbits(r["stdev"][c]) for _ in range(n) for c in range(d)],
                         noise=[fbits(v) for row in r["noise"] for v in row], lo=[fbits(u_min[c]) for _ in range(n) for c in range(d)], hi=[fbits(u_max[c]) for _ in range(n) for c in range(d)]))
        metas.append(("sample", cfg, (it, r)))


def corr_cem(kind, cfg, payload, mout, res):
    import numpy as onp

    case = dict(task="tasks_c18:cem_case", cfg=cfg)
    if "error" in mout:
        res.corr_diff(kind, f"driver error {mout['error']}", case)
        return
    res.traces += 1
    if kind == "sample":
        it, r = payload
        got = [v for row in r["samples"] for v in row]
        want = unbits(mout["samples"])
        for a, b in zip(got, want):
            if not close(a, b, 1e-5, 1e-5):
                res.corr_diff("sample", f"iteration {it}: implementation sampled {a} where the model (clip(mean + stdev*noise)) gives {b}", case)
                break
        return
    out = payload
    s = cfg["smoothing"]
    for it, (r, m) in enumerate(zip(out["iters"], mout["steps"])):
        if "raise" in m:
            res.corr_diff("run", f"iteration {it}: model raises {m['raise']}, implementation did not", case)
            return
        mb = unbits(m["best_loss"])
        if not (mb == r["best_loss"] or (_isnan(mb) and _isnan(r["best_loss"]))):
            res.corr_diff("best_loss", f"iteration {it}: implementation bestsofar_loss {r['best_loss']} vs model {mb}; losses {_fmt(r['losses'])}", case)
            return
        bid = m["best"]
        want_c = out["init"]["best"] if bid < 0 else out["iters"][bid // 100000]["samples"][bid % 100000]
        if want_c != r["best"]:
            res.corr_diff("best", f"iteration {it}: implementation bestsofar {r['best']} vs model candidate #{bid} = {want_c}; losses {_fmt(r['losses'])}", case)
            return
        # elite set, observed through the mean / stdev update
        el = onp.asarray([r["samples"][i] for i in m["elites"]], dtype=onp.float64)
        wm = s * onp.asarray(r["mean"]) + (1 - s) * el.mean(axis=0)
        ws = s * onp.asarray(r["stdev"]) + (1 - s) * el.std(axis=0)
        if not onp.allclose(wm, r["new_mean"], rtol=1e-4, atol=2e-5) or not onp.allclose(ws, r["new_stdev"], rtol=1e-4, atol=2e-5):
            res.corr_diff("elites", f"iteration {it}: mean/stdev {r['new_mean']}/{r['new_stdev']} were not computed from the model's elite candidates {m['elites']} "
                          f"(expected {wm.tolist()}/{ws.tolist()}); losses {_fmt(r['losses'])}", case)
            return


def check_evo(cfg, out, res):
    replay = dict(task="tasks_c18:evo_case", cfg=cfg)
    tag = f"evo {cfg['strategy']} {cfg['strategy_kwargs']} bounds={list(zip(cfg['u_min'], cfg['u_max']))} seed={cfg['seed']} loss={cfg['loss']}"
    lo, hi = out["lo"], out["hi"]
    init = out["init"]["best_loss"]
    prev = init
    evaluated = []
    has_nan = has_tie = False
    traces = []
    for it, r in enumerate(out["iters"]):
        if "error" in r:
            res.fail("evo_exception", f"evo_step raised {r['error']} at generation {it}: {tag}", replay)
            return
        res.evaluations += 1
        res.count("evo_generations")
        losses = r["losses"]
        traces.append(_fmt(losses))
        fin = [l for l in losses if not _isnan(l) and l != math.inf]
        has_nan |= any(_isnan(l) for l in losses)
        has_tie |= len(set(fin)) < len(fin)
        if len(r["asked"]) != 1 or len(r["told"]) != 1:
            res.fail("evo_protocol", f"generation {it}: evo_step called ask {len(r['asked'])}x and tell {len(r['told'])}x (expected once each): {tag}", replay)
            return
        x, told = r["asked"][0], r["told"][0]
        # 1. bounds of the sampled population (NaN is not inside any bounds)
        for i, row in enumerate(x):
            for c, v in enumerate(row):
                if not (lo[c] <= v <= hi[c]):
                    res.fail("evo_bounds", f"generation {it}: candidate {i} coordinate {c} = {v!r} outside [{lo[c]}, {hi[c]}]: {tag}", replay)
        # 2. what is told to the strategy: the asked population, losses with NaN replaced by +inf
        if told["x"] != x:
            res.fail("evo_tell_x", f"generation {it}: tell() received a different population than ask() returned: {tag}", replay)
        want_fit = [_san(l) for l in losses]
        if any(_isnan(f) for f in told["fitness"]) or told["fitness"] != want_fit:
            res.fail("evo_tell_nan", f"generation {it}: tell() received fitness {_fmt(told['fitness'])} for losses {_fmt(losses)} (NaN must be replaced by +inf before tell): {tag}", replay)
        evaluated += list(zip(x, losses))
        best = r["best_loss"]
        # 3. best fitness: never increases, equals the smallest finite loss seen (the initial value while none was seen)
        if _isnan(best) or not best <= prev:
            res.fail("evo_monotone", f"generation {it}: best_fitness went from {prev} to {best} with losses {_fmt(losses)}: {tag}", replay)
        want = min([init] + [l for _, l in evaluated if not _isnan(l)])
        if _isnan(best) or best != want:
            res.fail("evo_min", f"generation {it}: best_fitness = {best} but the smallest finite loss evaluated so far is {want} (this generation: {_fmt(losses)}): {tag}", replay)
        # 4. best member attained it
        if best < init and not any(c == r["best"] and l == best for c, l in evaluated):
            res.fail("evo_attained", f"generation {it}: best_member {r['best']} (fitness {best}) is not a candidate evaluated with that loss: {tag}", replay)
        prev = best if not _isnan(best) else prev
    res.count("evo_cases")
    res.count(f"evo_{cfg['strategy']}")
    if has_nan and has_tie:
        res.nontriv(traces)
    if "scan" in out:
        sc = out["scan"]
        vals = [l for row in sc["losses"] for l in row if not _isnan(l)]
        want = min([sc["init_loss"]] + vals)
        res.evaluations += 1
        res.count("evo_scans")
        if _isnan(sc["best_loss"]) or sc["best_loss"] != want:
            res.fail("evo_scan_min", f"evo(): final best_fitness = {sc['best_loss']} but the smallest finite loss among the evaluations it returned is {want}: {tag}", replay)
        if sc["best_loss"] < sc["init_loss"] and any(not (lo[c] <= v <= hi[c]) for c, v in enumerate(sc["best"])):
            res.fail("evo_scan_bounds", f"evo(): final best_member {sc['best']} outside the bounds: {tag}", replay)


# ------------------------------------------------------------------------------------------------


def run(ctx):
    res = Result()
    rng = ctx.rng
    tasks = []
    if ctx.replay:  # re-run the recorded case only
        f = ctx.replay.get("failure", {}).get("replay") or {}
        if "cfg" in f:
            tasks.append(dict(fn=f["task"], args=dict(cfg=f["cfg"]), timeout=300))
    if not tasks:
        n_cem = ctx.n(60, 1000)
        n_evo = ctx.n(9, 99)
        if ctx.search:
            n_cem, n_evo = 360, 36
        n_scan = max(4, n_cem // 10)
        for i in range(n_cem):
            cfg = gen_cem(rng, i, scan=("jit" if i % 2 else "eager") if i < n_scan else None)
            if ctx.budget == "thorough" and not ctx.search:
                cfg["steps"] = 20
            tasks.append(dict(fn="tasks_c18:cem_case", args=dict(cfg=cfg), timeout=300))
        for i in range(n_evo):
            cfg = gen_evo(rng, i, scan=i < max(2, n_evo // 8))
            tasks.append(dict(fn="tasks_c18:evo_case", args=dict(cfg=cfg), timeout=300))
    # longest first
    order = sorted(range(len(tasks)), key=lambda i: (tasks[i]["fn"].endswith("cem_case"), -tasks[i]["args"]["cfg"].get("num_samples", 0)))
    outs = [None] * len(tasks)
    for i, o in zip(order, pool.run_tasks([tasks[i] for i in order], timeout=300)):
        outs[i] = o
    cmds, metas = [], []
    for t, out in zip(tasks, outs):
        cfg = t["args"]["cfg"]
        if out is None or out.get("timeout") or "error" in out:
            # a worker problem is a harness problem, not a verdict
            raise RuntimeError(f"worker failed on {cfg.get('kind')} case {cfg.get('idx')}: {out}")
        if cfg["kind"] == "cem":
            check_cem(cfg, out, res, cmds, metas)
        else:
            check_evo(cfg, out, res)
    if ctx.driver is not None and cmds:
        for (kind, cfg, payload), mout in zip(metas, ctx.driver.run(cmds)):
            corr_cem(kind, cfg, payload, mout, res)
    return res
