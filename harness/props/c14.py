"""C14 — records and graphs convert, stack, pad, index, filter and convert to networkx without loss."""
import sys
import threading

import common
from common import Result, unbits

INFO = dict(
    level="proof",
    rule="random topologies (2-5 nodes, names with underscores, forward and skipped backward connections) x random ragged graphs / records built directly as "
    "rex.base dataclasses with numpy arrays (int32/int64 seq, float32/float64 times; never-received messages (seq_in = -1) in the middle and at the end; "
    "window-style graphs with leading seq_out = -1; zero-length nodes), plus real recorded episodes of different lengths from the asynchronous runtime; "
    "every statement of the property is evaluated on the real rex code against reference semantics written from the statement, and the Lean model "
    "(generated kernels, Float carrier) is run on the same inputs. A case is non-trivial when the stacked episodes are ragged (>= 2 different lengths "
    "in some leaf), the filter selects a proper non-empty subset of the nodes, and at least one edge has a -1 entry that is not trailing",
    trusted=[
        "harness/extract.py (Python ast -> Lean) for the pad value / pad width / stack axis of Graph.stack and ExperimentRecord._padded_stack, the tests and keys of "
        "Graph.filter and EpisodeRecord.filter, the field selection and edge key of EpisodeRecord.to_graph, the zip / skip tests / vertex names / attributes of to_networkx_graph, "
        "Graph.__len__/__getitem__",
        "modelled, not verified: a Python dict is a duplicate-free key list plus a lookup function; jax.tree_util.tree_map over Graph / EpisodeRecord pytrees is written out per "
        "field (only the step columns seq/ts_start/ts_end and the five message columns are in the model; the other record leaves are checked on the implementation only); "
        "numpy onp.pad / onp.stack / onp.array semantics; networkx add_node / add_edge semantics (the model yields the call sequence, harness/tasks_c14.py:RefNx folds it); "
        "vertex names f'{kind}_{seq}' are modelled as pairs (kind, seq)",
        "reference semantics and monitors: harness/tasks_c14.py (independent of the Lean model)",
    ],
    assumptions=[
        "the three columns of a vertex / edge have one length (Vertex.Aligned / Edge.Aligned; the alignment hypothesis of toNx_pad is shown necessary by toNx_pad_needs_aligned)",
        "all stacked graphs / records have the same dict structure (SameKeys; jax.tree_util.tree_map raises otherwise)",
        "filter_edges / filter_connections = True select the connections the provided node objects are connected by, named by the sending node (Sel.inputs of the model = "
        "sender names; connections made under a custom input name are part of every stream since the repair of the defect recorded in known_findings.txt)",
    ],
    statements=[
        "stackLeaf_eq: _stack pads every array at the END with the pad value up to the longest one and keeps the episode order (stackLeaf_rect: rectangular; length_le_maxLen: pad width >= 0)",
        "stack_get_cols / stack_get: episode i of Graph.stack(gs) has the keys of gs[i] and each column is the original column followed by pad values only (PadOf gs[i] (stack gs)[i])",
        "stack_get_exact / unpad_stack_get: dropping trailing all(-1) rows of (stack gs)[i] gives back gs[i] exactly (unpad((stack gs)[i]) = unpad(gs[i]) in general)",
        "stack_len / len_single: len(Graph.stack(gs)) = number of graphs; len(single graph) = 1",
        "toNx_pad / toNx_stack_get: appending pad rows to any vertices / edges of an aligned graph changes no add_node / add_edge call of to_networkx_graph; toNx((stack gs)[i]) = toNx(gs[i])",
        "toNx_nodes / toNx_sedges / toNx_medges: add_node exactly for rows with seq != -1 with that row's times; one stateful edge (kind,seq-1)->(kind,seq) per executed row with seq>0; "
        "one message edge with that row's ts_recv exactly for rows with seq_out != -1 and seq_in != -1",
        "gfilter_vertices / gfilter_edges_true / gfilter_edges_false(_closed) / gfilter_closed / gfilter_data / gfilter_map: Graph.filter keeps exactly the selected vertices and exactly the "
        "edges among them (flag True: additionally listed in the provided node's inputs), never leaves a dangling edge, never touches data, commutes with stacking/indexing",
        "rfilter_nodes / rfilter_inputs_true / rfilter_inputs_false / rfilter_toGraph_closed / rfilter_toGraph_gfilter / rfilter_isSome: the same for EpisodeRecord.filter; filter and to_graph commute",
        "toGraph_vertices / toGraph_ekeys / toGraph_edge / toGraph_map: to_graph has one vertex per recorded node with the recorded seq/ts_start/ts_end and one edge per recorded connection with the "
        "recorded seq_out/seq_in/ts_recv",
        "rpadLeaf_eq / paddedStack_get_cols / paddedStack_toGraph: ExperimentRecord._padded_stack pads like Graph.stack; stacked_record[i] = record i followed by pad values; stack().to_graph() = to_graph()",
        "witnesses: toNx_pad_needs_aligned (alignment hypothesis is necessary), gfilter_custom_input_name_kept (a connection made under a custom input name survives both flags), rfilter_unrecorded_name (KeyError)",
    ],
)


def _names_idx(topo):
    return {n: i for i, n in enumerate(topo["names"])}


def _nontrailing_minus_one(g, onp):
    for e in g.edges.values():
        for col in (e.seq_out, e.seq_in):
            a = onp.asarray(col)
            idx = onp.nonzero(a == -1)[0]
            if len(idx) and len(a) and (a[idx[0]:] != -1).any():
                return True
    return False


def _ragged(gs, T):
    for key in T.graph_leaves(gs[0]):
        if len({len(T.graph_leaves(g)[key]) for g in gs}) > 1:
            return True
    return False


def run(ctx):
    sys.path.insert(0, common.REPO)
    import numpy as onp

    import pool
    import tasks_c14 as T
    from rex import base

    res = Result()
    rng = ctx.rng
    n_cases = ctx.n(60, 400 if ctx.search else 1500)
    n_real = ctx.n(2, 3 if ctx.search else 6)

    # ---- real recorded episodes, in worker processes, while the synthetic cases run here
    real_out = {}

    def real():
        tasks = [dict(fn="tasks_c14:real_episodes", args=dict(seed=rng_real[i], lengths=[(7, 4, 9), (5, 8), (3, 6, 4)][i % 3]), timeout=75) for i in range(n_real)]
        real_out["tasks"] = tasks
        real_out["res"] = pool.run_tasks(tasks, nproc=min(n_real, 4), timeout=75)

    rng_real = [rng.randrange(1 << 30) for _ in range(n_real)]
    th = threading.Thread(target=real)
    th.start()

    cmds, metas = [], []

    def fail_all(fails, case):
        for key, desc in fails[:4]:
            res.fail(key, desc, dict(case=case, all=[d for _, d in fails[:10]]))

    for case_i in range(n_cases):
        topo = T.rand_topology(rng, custom_names=(case_i % 3 == 1))  # a third of the systems use custom input names for some connections
        if any(c["name"] for c in topo["conns"]):
            res.count("topologies_with_custom_input_names")
        idx = _names_idx(topo)
        names = topo["names"]
        nodes_full = T.build_nodes(topo)
        style = rng.choice(["mixed", "mixed", "window", "clean"])
        neps = rng.choice([1, 2, 2, 3, 4])
        fdt, idt = rng.choice([onp.float64, onp.float32]), rng.choice([onp.int64, onp.int32])
        gs = [T.rand_graph(rng, onp, base, topo, style=style, fdtype=fdt, idtype=idt) for _ in range(neps)]
        case = dict(case=case_i, topo=topo, style=style, graphs=[T.graph_json(g, idx, onp) for g in gs])
        label = f"case {case_i} ({len(names)} nodes {names}, {neps} episodes, style {style})"
        res.evaluations += 1
        res.count("graph_cases")
        res.count(f"style={style}")
        res.count(f"episodes={neps}")
        res.count(f"nodes={len(names)}")
        ragged = _ragged(gs, T)
        nontrail = any(_nontrailing_minus_one(g, onp) for g in gs)
        res.count("ragged" if ragged else "equal_lengths")
        if nontrail:
            res.count("non_trailing_minus_one")

        # -- networkx conversion of every single graph (implementation vs arrays), model on the same graph
        for gi, g in enumerate(gs):
            f, got = T.mon_networkx(g, nodes_full, onp, f"{label} graph {gi}")
            fail_all(f, case)
            if got is not None:
                cmds.append(dict(cmd="c14.tonx", graph=case["graphs"][gi]))
                metas.append(("tonx", dict(ref=got, names=names, label=f"{label} graph {gi}", len=len(g)), case))
        # -- stack / len / index
        f, S = T.mon_graph_stack(gs, nodes_full, onp, base, label)
        fail_all(f, case)
        if S is not None:
            cmds.append(dict(cmd="c14.stack", graphs=case["graphs"]))
            metas.append(("stack", dict(S=S, gs=gs, names=names, label=label), case))
        # -- filters
        keep, sels = T.selections(rng, topo, nodes_full)
        proper = 0 < len(keep) < len(names)
        for sel_label, nodes_arg in sels:
            for flag in (False, True):
                g = gs[0]
                fl = f"{label} Graph.filter({sorted(nodes_arg)}; {sel_label}; filter_edges={flag})"
                f, F = T.mon_graph_filter(g, nodes_arg, flag, onp, fl)
                fail_all(f, dict(case, selection=sorted(nodes_arg), sel=sel_label, flag=flag))
                res.count("graph_filters")
                if F is not None:
                    cmds.append(dict(cmd="c14.gfilter", graph=case["graphs"][0], names=[idx[n] for n in nodes_arg],
                                     inputs=[[idx.get(c_.output_node.name, 1000 + j) for j, c_ in enumerate(nodes_arg[n].inputs.values())] for n in nodes_arg], flag=flag))
                    metas.append(("gfilter", dict(F=F, names=names, label=fl), case))
                    # the filtered graph converts to networkx without touching a vertex outside of it (graphs of style clean are closed)
                    if style == "clean":
                        try:
                            from rex.utils import to_networkx_graph

                            to_networkx_graph(F, nodes=nodes_full, validate=True)
                        except AssertionError as ex:
                            # an edge to a step that was not executed in this (random) graph is a generator artefact only if the vertex kind exists
                            missing_kind = [k for k in F.edges if k[0] not in F.vertices or k[1] not in F.vertices]
                            if missing_kind:
                                res.fail("filter_dangling", f"{fl}: to_networkx_graph(validate=True) rejected the filtered graph: {ex}", case)
                # filter of the stack, then index == index, then filter
                if S is not None and F is not None:
                    try:
                        FS = S.filter(nodes_arg, filter_edges=flag)
                        for i in range(len(gs)):
                            a = FS[i]
                            b = gs[i].filter(nodes_arg, filter_edges=flag)
                            la, lb = T.graph_leaves(a), T.graph_leaves(b)
                            if set(la) != set(lb) or not all(T.is_padding_of(onp, la[k], lb[k]) for k in lb):
                                res.fail("filter_stack", f"{fl}: filter of the stack, episode {i}, is not the filtered graph {i} followed by -1 only", case)
                    except Exception as ex:
                        res.fail("filter_exception", f"{fl}: filtering the stacked graph raised {type(ex).__name__}: {str(ex)[:200]}", case)
        if ragged and proper and nontrail:
            res.nontriv(dict(c=case_i, t=topo, s=style))
        if len(res.samples) < 2:
            res.samples.append(dict(case=case_i, topo=topo, style=style, first_graph=T.graph_json(gs[0], idx, onp) if len(str(case["graphs"][0])) < 3000 else "(large)", selection=keep))

        # -- records (every second case)
        if case_i % 2 == 0:
            rstyle = rng.choice(["mixed", "clean"])
            try:
                recs = [T.rand_record(rng, onp, base, topo, nodes_full, eps=e, style=rstyle, fdtype=fdt, idtype=idt) for e in range(rng.choice([1, 2, 3]))]
            except RecursionError:
                recs = []
            rcase = dict(case=case_i, topo=topo, records=[T.record_json(r, idx, onp) for r in recs])
            res.count("record_cases")
            for ri, r in enumerate(recs):
                f, g = T.mon_record_to_graph(r, onp, f"{label} record {ri}")
                fail_all(f, rcase)
                if g is not None:
                    f, _ = T.mon_networkx(g, nodes_full, onp, f"{label} record {ri} to_graph")
                    fail_all(f, rcase)
            if recs:
                fail_all(T.mon_record_stack(recs, onp, base, label), rcase)
                cmds.append(dict(cmd="c14.rstack", records=rcase["records"]))
                metas.append(("rstack", dict(recs=recs, names=names, label=label), rcase))
                for sel_label, nodes_arg in sels:
                    for flag in (False, True):
                        fl = f"{label} EpisodeRecord.filter({sorted(nodes_arg)}; {sel_label}; filter_connections={flag})"
                        f, F = T.mon_record_filter(recs[0], nodes_arg, flag, onp, fl)
                        fail_all(f, dict(rcase, selection=sorted(nodes_arg), sel=sel_label, flag=flag))
                        res.count("record_filters")
                        if F is not None:
                            cmds.append(dict(cmd="c14.rfilter", record=rcase["records"][0], names=[idx[n] for n in nodes_arg],
                                             inputs=[[idx.get(c_.output_node.name, 1000 + j) for j, c_ in enumerate(nodes_arg[n].inputs.values())] for n in nodes_arg], flag=flag))
                            metas.append(("rfilter", dict(F=F, names=names, label=fl), rcase))
                    # filter of the stacked record == stack of the filtered records (keys)
                    try:
                        exp = base.ExperimentRecord(episodes=recs)
                        for flag in (False, True):
                            FE = exp.filter(nodes_arg, filter_connections=flag)
                            SF = exp.stack("padded").filter(nodes_arg, filter_connections=flag)
                            for i in range(len(recs)):
                                if T.record_connections(FE.episodes[i]) != T.record_connections(SF[i]) or set(FE.episodes[i].nodes) != set(SF[i].nodes):
                                    res.fail("rfilter_stack", f"{label}: filter of the stacked record [{i}] and filter of episode {i} keep different nodes/connections ({sel_label}, flag={flag})", rcase)
                    except Exception as ex:
                        res.fail("rfilter_exception", f"{label}: ExperimentRecord.filter/stack raised {type(ex).__name__}: {str(ex)[:200]}", rcase)

        # -- all nodes selected, every connection made under a custom input name: nothing may be dropped by either flag
        if case_i % 10 == 0:
            ctopo = T.rand_topology(rng, custom_names=True)
            cnodes = T.build_nodes(ctopo)
            cg = T.rand_graph(rng, onp, base, ctopo, style="clean")
            res.count("custom_name_stream.cases")
            try:
                for flag in (True, False):
                    f, _ = T.mon_graph_filter(cg, cnodes, flag, onp, f"custom input names {[(c['src'], c['dst'], c['name']) for c in ctopo['conns'] if c['name']]}: Graph.filter(all nodes, filter_edges={flag})")
                    fail_all(f, dict(topo=ctopo, flag=flag))
                crec = T.rand_record(rng, onp, base, ctopo, cnodes, style="clean")
                for flag in (True, False):
                    f, _ = T.mon_record_filter(crec, cnodes, flag, onp, f"custom input names {[(c['src'], c['dst'], c['name']) for c in ctopo['conns'] if c['name']]}: EpisodeRecord.filter(all nodes, filter_connections={flag})")
                    fail_all(f, dict(topo=ctopo, flag=flag))
            except Exception as ex:
                res.fail("filter_exception", f"custom-name stream: {type(ex).__name__}: {str(ex)[:200]}", dict(topo=ctopo))

    # ---- model vs implementation
    if ctx.driver is not None and cmds:
        outs = ctx.driver.run(cmds)
        for (kind, m, case), out in zip(metas, outs):
            if "error" in out:
                res.corr_diff(kind, f"driver error {out['error']}", case)
                continue
            out = unbits(out)
            names = m["names"]
            try:
                _compare(kind, m, out, names, res, case, T, onp)
            except Exception as ex:
                res.corr_diff(kind, f"{m['label']}: comparison raised {type(ex).__name__}: {str(ex)[:200]}", case)
            res.traces += 1

    # ---- real episodes
    th.join()
    for t, r in zip(real_out.get("tasks", []), real_out.get("res", [])):
        if r is None or r.get("timeout") or r.get("crashed") or "error" in r:
            res.count("real_episodes.not_run")
            res.notes.append(f"real episodes task {t['args']}: {str(r)[:300]}")
            continue
        if "skipped" in r:
            res.count("real_episodes.skipped")
            continue
        res.evaluations += 1
        res.count("real_episodes.runs")
        res.count("real_episodes.episodes", r["stats"]["episodes"])
        for key, desc in r["fails"][:4]:
            res.fail(key, desc, dict(task=t, spec=r.get("spec"), all=[d for _, d in r["fails"][:10]]))
        if len(res.samples) < 3:
            res.samples.append(dict(real=t["args"], stats=r["stats"]))
    return res


def _graph_from_model(j, names, onp):
    """driver graph JSON (single episode) -> dict of leaves keyed like tasks_c14.graph_leaves"""
    out = {}
    for k, cols in zip(j["vkeys"], j["v"]):
        for f, c in zip(("seq", "ts_start", "ts_end"), cols):
            out[("v", names[k], f)] = c
    for (a, b), cols in zip(j["ekeys"], j["e"]):
        for f, c in zip(("seq_out", "seq_in", "ts_recv"), cols):
            out[("e", (names[a], names[b]), f)] = c
    return out


def _leaves_equal(onp, model_leaves, impl_leaves):
    if set(model_leaves) != set(impl_leaves):
        return f"keys differ: model {sorted(map(str, model_leaves))[:6]} vs implementation {sorted(map(str, impl_leaves))[:6]}"
    for k, a in impl_leaves.items():
        a = onp.asarray(a, dtype=float)
        b = onp.asarray(model_leaves[k], dtype=float).reshape(a.shape) if onp.asarray(model_leaves[k]).size == a.size else onp.asarray(model_leaves[k], dtype=float)
        if a.shape != b.shape or not onp.array_equal(a, b):
            return f"leaf {k}: implementation {a.tolist()} vs model {b.tolist()}"
    return None


def _compare(kind, m, out, names, res, case, T, onp):
    label = m["label"]
    if kind == "tonx":
        ref = T.ref_from_ops(out["ops"], names)
        if not ref.same(m["ref"]):
            res.corr_diff("tonx", f"{label}: to_networkx_graph vs model: {ref.diff(m['ref'])[:3]} (model vs implementation)", case)
        if out["len"] != m["len"]:
            res.corr_diff("len", f"{label}: len(graph) = {m['len']} vs model {out['len']}", case)
    elif kind == "stack":
        S, gs = m["S"], m["gs"]
        if not out.get("ok"):
            res.corr_diff("stack", f"{label}: model refuses to stack", case)
            return
        if out["len"] != len(S):
            res.corr_diff("len", f"{label}: len(stack) = {len(S)} vs model {out['len']}", case)
        d = _leaves_equal(onp, _graph_from_model(out["stacked"], names, onp), T.graph_leaves(S))
        if d:
            res.corr_diff("stack", f"{label}: stacked arrays: {d}", case)
        from rex.utils import to_networkx_graph

        for i, ep in enumerate(out["eps"]):
            d = _leaves_equal(onp, _graph_from_model(ep["graph"], names, onp), T.graph_leaves(S[i]))
            if d:
                res.corr_diff("getitem", f"{label}: stacked[{i}]: {d}", case)
            if _graph_from_model(ep["unpad"], names, onp) != _graph_from_model(out["orig_unpad"][i], names, onp):
                res.corr_diff("unpad", f"{label}: model: unpad(stacked[{i}]) != unpad(graph {i})", case)
    elif kind == "gfilter":
        F = m["F"]
        mv = [names[k] for k in out["vkeys"]]
        me = [(names[a], names[b]) for a, b in out["ekeys"]]
        if mv != list(F.vertices) or set(me) != set(F.edges):
            res.corr_diff("gfilter", f"{label}: implementation keeps {list(F.vertices)} / {sorted(F.edges)}, model keeps {mv} / {sorted(me)}", case)
    elif kind == "rfilter":
        F = m["F"]
        if not out.get("ok"):
            res.corr_diff("rfilter", f"{label}: model raises KeyError, implementation returned a record", case)
            return
        mn = [names[k] for k in out["nkeys"]]
        mc = {(names[a], names[n2]) for n2, iks in zip(out["nkeys"], out["ikeys"]) for a in iks}
        mi = {(names[a], names[n2]) for n2, iks in zip(out["nkeys"], out["infokeys"]) for a in iks}
        ic = T.record_connections(F)
        ii = {(n1, n2) for n2, v in F.nodes.items() for n1 in v.info.inputs}
        if mn != list(F.nodes) or mc != ic or mi != ii:
            res.corr_diff("rfilter", f"{label}: implementation keeps {list(F.nodes)} / {sorted(ic)} / info {sorted(ii)}, model keeps {mn} / {sorted(mc)} / info {sorted(mi)}", case)
        d = _leaves_equal(onp, _graph_from_model(out["graph"], names, onp), T.graph_leaves(F.to_graph()))
        if d:
            res.corr_diff("rfilter", f"{label}: to_graph of the filtered record: {d}", case)
    elif kind == "rstack":
        from rex import base

        recs = m["recs"]
        if not out.get("ok"):
            res.corr_diff("rstack", f"{label}: model refuses to stack the records", case)
            return
        G = base.ExperimentRecord(episodes=recs).to_graph()
        for route in ("via_records", "via_graphs"):
            d = _leaves_equal(onp, _graph_from_model(out[route], names, onp), T.graph_leaves(G))
            if d:
                res.corr_diff("rstack", f"{label}: ExperimentRecord.to_graph() vs model ({route}): {d}", case)
        S = base.ExperimentRecord(episodes=recs).stack("padded")
        for i, ep in enumerate(out["eps"]):
            d = _leaves_equal(onp, _graph_from_model(ep["graph"], names, onp), T.graph_leaves(S[i].to_graph()))
            if d:
                res.corr_diff("rstack", f"{label}: stacked_record[{i}].to_graph(): {d}", case)
            Si = S[i]
            for n2, row in zip(recs[0].nodes, ep["msgs"]):  # the model keeps the dict order of the first record, jax sorts the keys
                for n1, cols in zip(recs[0].nodes[n2].inputs, row):
                    mm = Si.nodes[n2].inputs[n1].messages
                    for f, c in zip(("seq_out", "seq_in", "ts_sent", "ts_recv", "delay"), cols):
                        a = onp.asarray(getattr(mm, f), dtype=float)
                        if a.tolist() != [float(x) for x in c]:
                            res.corr_diff("rstack", f"{label}: stacked_record[{i}] messages {n1}->{n2}.{f}: implementation {a.tolist()} vs model {c}", case)
