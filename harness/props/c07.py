"""C07 — the compiled schedule runs every graph vertex once, in dependency order."""
import asynccheck as ac
import compiledcheck as cc
from common import Result

INFO = dict(
    level="translation_validation",
    rule="every compiled instance the harness builds — recorded random probe graphs (2 ragged episodes), an equal-rate family, a high-rate-ratio family (> 10 slots of one kind), generated graphs whose sink ends exactly at a supervisor start, and graphs written down directly with sinks of very different step durations (a long sink step still running at the last supervisor start while short ones finish) x {MCS, GENERATIONAL, TOPOLOGICAL} x "
    "{prune, no prune} x episode — is exported (windowed graph + Graph.timings) and decided by the Lean checker Rex.Sched.checkSchedule whose soundness is proved in Props/C07.lean; the high-ratio family is also executed "
    "and compared step by step with the recorded async episode (the executor's slot order is not visible in the timings). Non-trivial: ragged stack or prune off",
    trusted=["Lean: checkSchedule is sound for the declarative statement (Props/C07.lean); apply_window = last-w-consumed (Props/C01.lean)",
             "the supergraph library is not modelled: its output is validated per instance; instance export in harness/rt.py:sched_instance"],
    assumptions=["the scheduled set may be a superset of the needed set (vertices needed only beyond the horizon may run early)"],
)


def run(ctx):
    res = Result()
    n = ctx.n(4, 6 if ctx.search else 24)
    seeds = [ctx.rng.randrange(1 << 30) for _ in range(n + 8)]
    kinds = ["random"] * n + ["equal_rates", "high_ratio", "trainable", "trainable", "sink_tie", "sink_tie", "raw_sinks", "raw_sinks"]
    tasks = [dict(fn="tasks_rt:sched_case", args=dict(seed=s, spec_kind=k), timeout=1200) for s, k in zip(seeds, kinds)]
    tasks.append(dict(fn="tasks_rt:compiled_case", args=dict(seed=seeds[-1] + 1, spec_kind="high_ratio", modes=("GENERATIONAL", "TOPOLOGICAL"), prunes=(True,)), timeout=1200))
    # the witness of the known finding c6_needed_beyond_horizon: a fixed graph with fixed record lengths (no schedule dependence)
    tasks.append(dict(fn="tasks_rt:sched_case", args=dict(seed=303971950, spec_kind="trainable", modes=("MCS",), prunes=(False,), graph_file="c07_finding_graph.json"), timeout=1200))
    good = ac.pool_cases(tasks, res, timeout=1200)
    cmds, meta = [], []
    for t, r in good:
        if r.get("skipped"):
            res.count("skipped")
            continue
        if t["fn"].endswith("compiled_case"):
            for entry in r["compiled"]:
                for e, crec in enumerate(entry["episodes"]):
                    res.evaluations += 1
                    diffs, rows = cc.compare_async_compiled(r["spec"], r["async_records"][e], crec, e)
                    res.count("executed_rows_compared", rows)
                    for d in diffs[:2]:
                        res.fail("execution_order", f"seed={t['args']['seed']} high-rate-ratio graph, {entry['mode']}: executing the schedule does not reproduce the recorded steps: {d}", dict(task=t, spec=r["spec"], mode=entry["mode"]))
            continue
        for k, it in enumerate(r["instances"]):
            cmds.append(dict(cmd="sched.check", **it["inst"]))
            meta.append((t, r, it))
    outs = ac.run_driver_parallel(cmds) if (ctx.driver is not None and cmds) else []
    for (t, r, it), o in zip(meta, outs):
        res.evaluations += 1
        res.count(f"{it['mode']}/prune={it['prune']}")
        res.count("scheduled_vertices", o.get("scheduled", 0))
        if "error" in o:
            res.corr_diff("sched.check", f"driver error {o['error']}", dict(task=t))
            continue
        for wb in it.get("window_mismatches", [])[:2]:
            res.fail("window_oracle", f"seed={t['args']['seed']} ({t['args']['spec_kind']}) {it['mode']} prune={it['prune']} episode {it['episode']}: {wb}",
                     dict(task=t, spec=r["spec"], mode=it["mode"], prune=it["prune"], episode=it["episode"]))
        if not o["ok"]:
            failing = list(o["failing"])
            c6f = [x for x in failing if x.startswith("c6")]
            if c6f and o.get("c6_missing"):
                # which owed vertices have no slot, and is each of them needed by a recorded supervisor step beyond the horizon?
                inst = it["inst"]
                cons = {}
                for v in inst["verts"]:
                    me = (v["kind"], v["seq"])
                    if v["seq"] > 0:
                        cons.setdefault((v["kind"], v["seq"] - 1), []).append(me)
                    for w in v["wins"]:
                        for sq in w[1]:
                            if sq >= 0:
                                cons.setdefault((w[0], sq), []).append(me)
                beyond = []
                for mk, ms in o["c6_missing"]:
                    seen, todo, hit = set(), [(mk, ms)], None
                    while todo and hit is None:
                        x = todo.pop()
                        if x in seen:
                            continue
                        seen.add(x)
                        if x[0] == inst["sup"] and x[1] >= inst["parts"]:
                            hit = x
                        todo.extend(cons.get(x, []))
                    beyond.append(hit)
                names = [n["name"] for n in r["spec"]["nodes"]]
                if all(b is not None for b in beyond):
                    failing = [x for x in failing if not x.startswith("c6")]
                    mk, ms = o["c6_missing"][0]
                    res.fail("c6_needed_beyond_horizon", f"seed={t['args']['seed']} ({t['args']['spec_kind']}{', stored recorded graph harness/data/' + t['args']['graph_file'] if t['args'].get('graph_file') else ''}) {it['mode']} prune=False episode {it['episode']}: "
                             f"step {ms} of {names[mk]} finishes before supervisor step {inst['parts'] - 1} of the horizon starts but has no slot; it is needed only by the recorded supervisor step {beyond[0][1]}, beyond the "
                             f"horizon of {inst['parts']} steps ({len(o['c6_missing'])} such vertices)", dict(task=t, spec=r["spec"], mode=it["mode"], episode=it["episode"], missing=o["c6_missing"]))
                else:
                    bad = [(names[a], b) for (a, b), h in zip(o["c6_missing"], beyond) if h is None]
                    failing = [x + f" (vertices {bad[:4]})" if x.startswith("c6") else x for x in failing]
            if failing:
                res.fail("invalid_schedule", f"seed={t['args']['seed']} ({t['args']['spec_kind']}) {it['mode']} prune={it['prune']} episode {it['episode']}: Graph.timings violates: {'; '.join(failing)}",
                         dict(task=t, spec=r["spec"], mode=it["mode"], prune=it["prune"], episode=it["episode"], failing=failing))
        if it["episode"] > 0 or not it["prune"]:
            res.nontriv(dict(seed=t["args"]["seed"], mode=it["mode"], prune=it["prune"], e=it["episode"]))
        if len(res.samples) < 2:
            res.samples.append(dict(seed=t["args"]["seed"], mode=it["mode"], prune=it["prune"], episode=it["episode"], parts=it["inst"]["parts"], gens=it["inst"]["gens"],
                                    vertices=len(it["inst"]["verts"]), cells=len(it["inst"]["cells"]), first_cells=it["inst"]["cells"][:3]))
    res.traces = len(outs)
    return res
