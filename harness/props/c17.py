"""C17 — parameter transforms are invertible and compose in order."""
import math
import sys

import common
from common import Result, close, fbits, unbits

INFO = dict(
    level="proof",
    rule="random nested parameter pytrees (dict/list nesting, scalar and array leaves, None leaves) through the real rex.base transforms and "
    "through the Lean model (generated kernels on Float); a case is non-trivial when the tree is nested, has >=1 None leaf and the chain has >=2 members",
    trusted=[
        "harness/extract.py (Python ast -> Lean) for Denormalize/Exponential lambdas and the Chain iteration expressions",
        "modelled, not verified: jax.tree_util.tree_map = leafwise map over flattened leaves; eqx.tree_at = replace one leaf; jnp.exp/jnp.log = Real.exp/Real.log; float32 rounding (compared with rtol 1e-4)",
        "Extend.inv raises under the installed JAX (environment; in the always-failing baseline tests) and is only proved on the model",
    ],
    assumptions=["bounds with min < max", "floating point: inverse laws hold up to rounding (rtol 1e-4 float32)"],
)


def _rand_tree(rng, depth, with_none, alen=None):
    alen = alen or rng.randint(1, 3)  # one array length per tree: Denormalize.init or-reduces its zero filter across leaves and needs broadcastable shapes
    import numpy as onp

    kind = rng.random()
    if depth <= 0 or kind < 0.35:
        if with_none and rng.random() < 0.2:
            return None
        if rng.random() < 0.5:
            return onp.float32(rng.uniform(-3, 3))
        return onp.array([rng.uniform(-3, 3) for _ in range(alen)], dtype=onp.float32)
    if kind < 0.7:
        return {f"k{i}": _rand_tree(rng, depth - 1, with_none, alen) for i in range(rng.randint(1, 3))}
    if kind < 0.85:
        return [_rand_tree(rng, depth - 1, with_none, alen) for _ in range(rng.randint(1, 3))]
    # tuples are pytree containers too (a pair of gains (kp, kd), ...)
    return tuple(_rand_tree(rng, depth - 1, with_none, alen) for _ in range(rng.choice([1, 2, 2, 2, 3])))


def _map(f, *trees):
    t = trees[0]
    if t is None:
        return None
    if isinstance(t, dict):
        return {k: _map(f, *[x[k] for x in trees]) for k in t}
    if isinstance(t, list):
        return [_map(f, *[x[i] for x in trees]) for i in range(len(t))]
    if isinstance(t, tuple):
        return tuple(_map(f, *[x[i] for x in trees]) for i in range(len(t)))
    return f(*trees)


def _leaves(t):
    import numpy as onp

    if t is None:
        return []
    if isinstance(t, dict):
        return [x for k in sorted(t) for x in _leaves(t[k])]
    if isinstance(t, (list, tuple)):
        return [x for v in t for x in _leaves(v)]
    return [float(v) for v in onp.asarray(t).reshape(-1)]


def _depth(t):
    if isinstance(t, dict):
        return 1 + max([_depth(v) for v in t.values()] or [0])
    if isinstance(t, (list, tuple)):
        return 1 + max([_depth(v) for v in t] or [0])
    return 0


_PCLS = []


def _param_classes():
    """two flax dataclasses with the same fields in opposite declaration orders (`J` / `J_motor`, `motor` / `motor_delay`)"""
    if not _PCLS:
        from typing import Any

        import flax.struct as fs

        @fs.dataclass
        class ParamsA:
            J: Any
            J_motor: Any
            motor: Any
            motor_delay: Any
            sub: Any

        @fs.dataclass
        class ParamsB:
            sub: Any
            motor_delay: Any
            motor: Any
            J_motor: Any
            J: Any

        _PCLS.extend([ParamsA, ParamsB])
    return _PCLS


def run(ctx):
    import dataclasses

    import jax
    import jax.numpy as jnp
    import numpy as onp

    sys.path.insert(0, common.REPO)
    from rex import base

    res = Result()
    rng = ctx.rng
    n = ctx.n(60, 1500)
    cmds, metas = [], []
    for case in range(n):
        tree = _rand_tree(rng, rng.randint(1, 3), True)
        if not _leaves(tree):
            continue
        if rng.random() < 0.25:
            # tiny bound intervals (offset comparable to the width, so float32 keeps the normalised value to ~1e-6)
            wd = 10.0 ** rng.uniform(-8, -5)
            mins = _map(lambda x: (onp.asarray(x) * 0 + onp.float32(rng.uniform(0.5, 2) * wd)).astype(onp.float32), tree)
            maxs = _map(lambda m: (m + onp.float32(rng.uniform(1, 3) * wd)).astype(onp.float32), mins)
            res.count("tiny_interval")
        else:
            mins = _map(lambda x: (onp.asarray(x) * 0 + onp.float32(rng.uniform(-5, 0))).astype(onp.float32), tree)
            maxs = _map(lambda m: (m + onp.float32(rng.uniform(0.5, 6))).astype(onp.float32), mins)
        xs = _map(lambda x: onp.clip(onp.asarray(x, dtype=onp.float32) / 3, -1, 1), tree)
        nchain = rng.randint(1, 3)
        res.evaluations += 1
        res.count("cases")
        has_none = len(jax.tree_util.tree_leaves(tree)) < len(jax.tree_util.tree_leaves(tree, is_leaf=lambda x: x is None))
        if _depth(tree) >= 2 and has_none and nchain >= 2:
            res.nontriv(dict(t=_leaves(tree), n=nchain))
        res.count(f"depth={_depth(tree)}")
        res.count("has_none" if has_none else "no_none")
        try:
            # ---- Denormalize on the real implementation
            T = base.Denormalize.init(mins, maxs)
            ys = T.apply(xs)
            back = T.inv(ys)
            lo = T.apply(_map(lambda x: onp.asarray(x) * 0 - 1, xs))
            hi = T.apply(_map(lambda x: onp.asarray(x) * 0 + 1, xs))
            L = lambda t: [float(v) for l in jax.tree_util.tree_leaves(t) for v in onp.asarray(l).reshape(-1)]
            lx, ly, lb, llo, lhi, lmn, lmx = L(xs), L(ys), L(back), L(lo), L(hi), L(mins), L(maxs)
            case_desc = dict(kind="denormalize", mins=lmn, maxs=lmx, xs=lx)
            for i in range(len(lx)):
                if not close(lb[i], lx[i], 1e-4, 1e-4):
                    res.fail("denorm_inv", f"Denormalize.inv(apply(x)) != x: x={lx[i]} min={lmn[i]} max={lmx[i]} got {lb[i]}", case_desc)
                if not close(llo[i], lmn[i], 1e-4, 1e-5 * (lmx[i] - lmn[i])) or not close(lhi[i], lmx[i], 1e-4, 1e-5 * (lmx[i] - lmn[i])):
                    res.fail("denorm_endpoints", f"Denormalize maps -1/+1 to {llo[i]}/{lhi[i]}, expected {lmn[i]}/{lmx[i]}", case_desc)
                if not (lmn[i] - 1e-4 * (lmx[i] - lmn[i]) <= ly[i] <= lmx[i] + 1e-4 * (lmx[i] - lmn[i])):
                    res.fail("denorm_range", f"Denormalize.apply({lx[i]}) = {ly[i]} outside [{lmn[i]}, {lmx[i]}]", case_desc)
            # monotone: x2 >= x
            xs2 = _map(lambda x: onp.minimum(onp.asarray(x) + onp.float32(0.25), 1), xs)
            ly2 = L(T.apply(xs2))
            lx2 = L(xs2)
            for i in range(len(lx)):
                if lx2[i] > lx[i] + 1e-3 and not ly2[i] > ly[i]:
                    res.fail("denorm_mono", f"Denormalize not increasing: f({lx[i]})={ly[i]} f({lx2[i]})={ly2[i]}", case_desc)
            cmds.append(dict(cmd="c17.denorm", mins=[fbits(v) for v in lmn], maxs=[fbits(v) for v in lmx], xs=[fbits(v) for v in lx]))
            metas.append(("denorm", dict(apply=ly, back=lb, lo=llo, hi=lhi), case_desc))

            # ---- Chain on the real implementation, members Denormalize / Exponential / Identity
            members, mdesc = [], []
            cur_lo = -1.0
            for k in range(nchain):
                kind = rng.choice(["denorm", "denorm", "exp", "id"])
                if kind == "denorm":
                    mn, mx = rng.uniform(-2, 0.5), rng.uniform(1, 3)
                    members.append(base.Denormalize.init(_map(lambda x: onp.asarray(x) * 0 + onp.float32(mn), xs), _map(lambda x: onp.asarray(x) * 0 + onp.float32(mx), xs)))
                    mdesc.append(dict(kind="denorm", min=fbits(onp.float32(mn)), max=fbits(onp.float32(mx))))
                elif kind == "exp":
                    members.append(base.Exponential.init())
                    mdesc.append(dict(kind="exp", min=fbits(0), max=fbits(0)))
                else:
                    members.append(base.Identity.init())
                    mdesc.append(dict(kind="id", min=fbits(0), max=fbits(0)))
            C = base.Chain.init(*members)
            cy = C.apply(xs)
            manual = xs
            for m in members:
                manual = m.apply(manual)
            lcy, lman = L(cy), L(manual)
            cdesc = dict(kind="chain", members=[m["kind"] for m in mdesc], xs=lx)
            if any(not close(a, b, 1e-6, 1e-7) for a, b in zip(lcy, lman)):
                res.fail("chain_order", f"Chain.apply != members applied first-to-last: {lcy[:4]} vs {lman[:4]}", cdesc)
            cb = L(C.inv(cy))
            # exp members can overflow nothing here (|x| <= 3); inverse law up to float32 rounding amplified by exp
            for i in range(len(lx)):
                if not close(cb[i], lx[i], 2e-3, 2e-3):
                    res.fail("chain_inv", f"Chain.inv(apply(x)) != x: x={lx[i]} got {cb[i]} members={[m['kind'] for m in mdesc]}", cdesc)
            res.count(f"chain_len={nchain}")
            cmds.append(dict(cmd="c17.chain", members=mdesc, xs=[fbits(v) for v in lx]))
            metas.append(("chain", dict(apply=lcy, back=cb), cdesc))

            # ---- Exponential alone on a wide part of its domain (logs of small and large physical constants)
            wide = _map(lambda x: (onp.asarray(x, dtype=onp.float32) * 0 + onp.asarray(rng.uniform(-16, 10), dtype=onp.float32)).astype(onp.float32), tree)
            Ex = base.Exponential.init()
            wb = L(Ex.inv(Ex.apply(wide)))
            lw = L(wide)
            for i in range(len(lw)):
                if not close(wb[i], lw[i], 0.0, 1e-5 * max(1.0, abs(lw[i]))):
                    res.fail("exp_inv", f"Exponential.inv(apply(x)) != x: x={lw[i]} got {wb[i]} (exp(x)={math.exp(lw[i])})", dict(kind="exp_inv", x=lw[i]))
                    break
            res.count("exp_wide")
            # ---- Extend: partial tree = tree with some leaves replaced by None
            # base leaves may be integer-typed (python ints / int arrays) while the user supplies fractional values
            basep = _map(lambda x: (onp.asarray(onp.round(onp.asarray(x)), dtype=onp.int32) if rng.random() < 0.3 else onp.asarray(x, dtype=onp.float32)), tree)
            optp = _map(lambda x: None if rng.random() < 0.4 else (onp.asarray(x, dtype=onp.float32) + onp.float32(10.75)).astype(onp.float32), basep)
            if rng.random() < 0.3 and isinstance(optp, dict) and optp:  # None standing for a whole subtree
                optp[rng.choice(sorted(optp))] = None
            if rng.random() < 0.5:
                # parameter trees of rex are dataclass pytrees; field names that are prefixes of one another, both declaration orders
                cls = rng.choice(_param_classes())
                vals = {f: onp.asarray(rng.uniform(-3, 3), dtype=onp.float32) for f in ("J", "J_motor", "motor", "motor_delay")}
                bdc = cls(sub=basep, **vals)
                odc = cls(sub=optp, **{f: (None if rng.random() < 0.5 else (v + onp.float32(10.75)).astype(onp.float32)) for f, v in vals.items()})
                basep, optp = ({"world": bdc, "k": onp.asarray(1.0, dtype=onp.float32)}, {"world": odc, "k": None}) if rng.random() < 0.5 else (bdc, odc)
                res.count("extend_dataclass")
            E = base.Extend.init(basep, optp)
            ext = E.apply(optp)

            def chk(b, o, e, path="/"):
                if dataclasses.is_dataclass(b):
                    for f in dataclasses.fields(b):
                        chk(getattr(b, f.name), None if o is None else getattr(o, f.name), getattr(e, f.name), path + f.name + "/")
                elif isinstance(b, dict):
                    for k in b:
                        chk(b[k], None if o is None else o[k], e[k], path + k + "/")
                elif isinstance(b, (list, tuple)):
                    for i in range(len(b)):
                        chk(b[i], None if o is None else o[i], e[i], path + str(i) + "/")
                elif b is not None:
                    want = b if o is None else o
                    if not onp.array_equal(onp.asarray(e, dtype=onp.float64), onp.asarray(want, dtype=onp.float64)):
                        res.fail("extend", f"Extend.apply leaf {path}: got {e}, expected {'base' if o is None else 'supplied'} value {want}", dict(kind="extend", path=path))

            chk(basep, optp, ext)
            if jax.tree_util.tree_structure(ext) != jax.tree_util.tree_structure(basep):
                res.fail("extend", "Extend.apply result does not have the base tree's structure", dict(kind="extend"))
            res.count("extend")
            # ---- Shared: share leaf b into a
            sp = {"a": None, "b": jnp.asarray(rng.uniform(-1, 1), dtype=jnp.float32), "c": {"d": jnp.asarray(1.5)}}
            S = base.Shared.init(where=lambda p: p["a"], replace_fn=lambda p: p["b"], inverse_fn=lambda p: None)
            sa = S.apply(sp)
            sb = S.inv(sa)
            if float(sa["a"]) != float(sp["b"]) or float(sa["b"]) != float(sp["b"]) or float(sa["c"]["d"]) != 1.5:
                res.fail("shared", f"Shared.apply did not copy the shared leaf / changed another leaf: {sa}", dict(kind="shared"))
            if sb["a"] is not None or float(sb["b"]) != float(sp["b"]) or float(sb["c"]["d"]) != 1.5:
                res.fail("shared", f"Shared.inv(apply(x)) != x: {sb}", dict(kind="shared"))
            # ---- Shared with several target nodes (`where` returns a sequence): b is shared into a and c/e
            sp2 = {"a": None, "b": jnp.asarray(rng.uniform(-1, 1), dtype=jnp.float32), "c": {"d": jnp.asarray(1.5), "e": None}}
            S2 = base.Shared.init(where=lambda p: (p["a"], p["c"]["e"]), replace_fn=lambda p: (p["b"], p["b"]), inverse_fn=lambda p: (None, None))
            sa2 = S2.apply(sp2)
            sb2 = S2.inv(sa2)
            if float(sa2["a"]) != float(sp2["b"]) or float(sa2["c"]["e"]) != float(sp2["b"]) or float(sa2["b"]) != float(sp2["b"]) or float(sa2["c"]["d"]) != 1.5:
                res.fail("shared", f"Shared.apply (two target nodes) did not copy the shared leaf / changed another leaf: {sa2}", dict(kind="shared"))
            if jax.tree_util.tree_structure(sb2, is_leaf=lambda x: x is None) != jax.tree_util.tree_structure(sp2, is_leaf=lambda x: x is None) or sb2["a"] is not None or sb2["c"]["e"] is not None \
                    or float(sb2["b"]) != float(sp2["b"]) or float(sb2["c"]["d"]) != 1.5:
                res.fail("shared", f"Shared.inv(apply(x)) != x with two target nodes: x={sp2}, got {sb2}", dict(kind="shared"))
            res.count("shared_multi")
            # Identity
            I = base.Identity.init()
            if L(I.inv(I.apply(xs))) != lx:
                res.fail("identity", "Identity changed the parameters", dict(kind="identity"))
            if len(res.samples) < 3:
                res.samples.append(dict(case=case, denorm=dict(mins=lmn[:3], maxs=lmx[:3], xs=lx[:3], apply=ly[:3]), chain=[m["kind"] for m in mdesc]))
        except Exception as ex:  # the implementation raised on a valid input
            res.fail("exception", f"{type(ex).__name__}: {str(ex)[:300]}", dict(kind="exception", case=case))
    # ---- model vs implementation
    if ctx.driver is not None and cmds:
        outs = ctx.driver.run(cmds)
        for (kind, impl, desc), out in zip(metas, outs):
            if "error" in out:
                res.corr_diff(kind, f"driver error {out['error']}", desc)
                continue
            out = unbits(out)
            tol = (1e-4, 1e-5) if kind == "denorm" else (2e-3, 2e-3)
            for key in impl:
                if key == "back" and kind == "chain":
                    continue
                for a, b in zip(impl[key], out[key]):
                    if not close(a, b, *tol):
                        res.corr_diff(kind, f"{kind}.{key}: implementation {a} vs model {b}", desc)
                        break
            res.traces += 1
    return res
