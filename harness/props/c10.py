"""C10 — a trainable delay set to d behaves exactly like a static delay of d."""
import math

import asynccheck as ac
from common import Result

INFO = dict(
    level="proof",
    rule="(a) direct calls of the real TrainableDist.apply_delay (zoh) on constructed extended windows: regular, jittered, bunched sender streams and a float32-exact tie stream; rates 4-40 Hz, min in {0, >0}, "
    "(max-min)*rate from 0.5 to 3 (non-integer included), d at the bounds and inside, windows 1-3; expected = the newest `window` messages with sent + d <= ts_start out of the whole sender history; "
    "(b) saturation of get_alpha outside [min, max]; (c) end-to-end: generated graphs sender -> receiver -> supervisor compiled twice, with TrainableDist(d) (set through the distribution or through init_delays) "
    "and with a static Deterministic(d), receiver windows/states/outputs compared step by step. Entries within 1e-5 of an inexact float32 tie are not judged. "
    "A mismatch is the known finding `zoh_wrap` iff more than E = ceil(rate*(max-min)) sender outputs lie in (ts_start - d, ts_start - min]; anything else is a violation. "
    "Non-trivial: d strictly inside (min, max) and at least one message still in flight under d",
    trusted=["harness/extract.py for the kernels of TrainableDist.sample/mean/get_alpha/window/apply_delay", "jax.lax.dynamic_slice semantics (negative start wraps, then clamps) modelled in Lib/Delay.lean",
             "float32 device arithmetic: exact ties only on the dyadic stream"],
    assumptions=["non-blocking connection, zero-order hold (linear interpolation is C11)"],
)

TIE = 1e-5


def run(ctx):
    res = Result()
    nb = ctx.n(6, 10 if ctx.search else 60)
    tasks = [dict(fn="tasks_c10:unit_cases", args=dict(seed=ctx.rng.randrange(1 << 30), n=60), timeout=600) for _ in range(nb)]
    tasks += [dict(fn="tasks_c10:saturation_cases", args=dict(seed=ctx.rng.randrange(1 << 30)), timeout=300)]
    tasks += [dict(fn="tasks_c10:e2e_case", args=dict(seed=ctx.rng.randrange(1 << 30)), timeout=900) for _ in range(ctx.n(6, 10 if ctx.search else 40))]
    for t, r in ac.pool_cases(tasks, res, timeout=900):
        fn = t["fn"].split(":")[1]
        if fn == "unit_cases":
            for c in r:
                res.evaluations += 1
                if "error" in c:
                    res.fail("exception", f"apply_delay raised {c['error']}", dict(task=t, case=c))
                    continue
                res.count("stream:" + c["stream"])
                if len(c["got"]) != c["w"]:
                    res.fail("zoh_len", f"apply_delay returned {len(c['got'])} entries for window {c['w']} (rate {c['rate']}, min {c['dmin']}, max {c['dmax']})", dict(task=t, case=c))
                    continue
                if not (c["E_true"] <= c["E"] <= c["E_true"] + 1):  # one extra slot (float rounding of rate*(max-min) just above an integer) is harmless
                    res.fail("window_extension", f"TrainableDist.window({c['rate']}) = {c['E']} for max-min = {c['dmax'] - c['dmin']}, expected ceil(rate*(max-min)) = {c['E_true']}", dict(task=t, case=c))
                if c["near_tie"]:
                    res.count("near_tie_not_judged")
                    continue
                if c["dmin"] < c["d"] < c["dmax"] and c["in_gap"] > 0:
                    res.nontriv(dict(c=c["case"], s=t["args"]["seed"]))
                ok = [max(x, -1) for x in c["got"]] == [max(x, -1) for x in c["exp"]] and all(g == e for g, e, q in zip(c["got_data"], c["exp_data"], c["exp"]) if q >= 0)
                if ok:
                    continue
                known = c["in_gap"] > max(c["E"], c["E_true"])
                desc = (f"apply_delay(zoh) {c['stream']} sender at {c['rate']} Hz, min={c['dmin']}, max={c['dmax']:.5f}, d={c['d']:.5f}, window={c['w']}, ts_start={c['ts_start']:.5f}: extended window seqs {c['window_in']} "
                        f"-> got seqs {c['got']}, the static-delay system sees {c['exp']} ({c['in_gap']} sender outputs still in flight, E={c['E_true']})")
                res.fail("zoh_wrap" if known else "zoh_mismatch", desc, dict(task=t, case=c))
        elif fn == "saturation_cases":
            for c in r:
                res.evaluations += 1
                want = min(max(c["dreq"], c["dmin"]), c["dmax"])
                for k in ("eff", "sample", "quantile"):
                    if abs(c[k] - want) > 1e-5:
                        res.fail("saturation", f"TrainableDist(min={c['dmin']}, max={c['dmax']:.4f}) set to delay {c['dreq']:.4f}: {k} = {c[k]:.6f}, expected the clamped value {want:.6f}", dict(task=t, case=c))
                        break
        else:
            res.evaluations += 1
            st, tr = r["static"], r["train"]
            E_true = int(math.ceil(round(r["rate_s"] * (r["dmax"] - r["dmin"]), 9)))
            n = min(len([q for q in st["rseq"] if q >= 0]), len([q for q in tr["rseq"] if q >= 0]))
            sends = [e for e, q in zip(st["s_end"], st["s_seq"]) if q >= 0]
            res.count("e2e:" + ("jitter" if r["jitter"] else "regular") + "/" + r["via"])
            if n < 5:
                res.count("e2e_too_short")
                continue
            for i in range(n):
                if len(tr["seq"][i]) != r["window"]:
                    res.fail("zoh_len", f"e2e: receiver step {i} received {len(tr['seq'][i])} entries, window is {r['window']}", dict(task=t))
                    break
                same = [max(x, -1) for x in tr["seq"][i]] == [max(x, -1) for x in st["seq"][i]] and tr["data"][i] == st["data"][i] and tr["state"][i] == st["state"][i] and tr["out"][i] == st["out"][i]
                if same:
                    continue
                ts = st["ts_start"][i]
                near = any(abs((s + r["d"]) - ts) < TIE for s in sends)
                if near:
                    res.count("e2e_near_tie_not_judged")
                    break  # later states depend on this step
                in_gap = len([s for s in sends if ts - r["d"] < s <= ts - r["dmin"]])
                known = in_gap > E_true
                desc = (f"e2e seed={t['args']['seed']}: sender {r['rate_s']} Hz ({'jittery' if r['jitter'] else 'regular'}), receiver {r['rate_r']} Hz, window {r['window']}, TrainableDist(min={r['dmin']}, max={r['dmax']:.4f}) "
                        f"set to d={r['d']:.4f} via {r['via']}: receiver step {i} (ts_start={ts:.4f}) sees seqs {tr['seq'][i]} / payloads {tr['data'][i]}, the static-delay system sees {st['seq'][i]} / {st['data'][i]} "
                        f"({in_gap} sender outputs in the gap, E={E_true})")
                res.fail("zoh_wrap" if known else "zoh_mismatch", desc, dict(task=t, step=i))
                break
            if r["dmin"] < r["d"] < r["dmax"]:
                res.nontriv(dict(e2e=t["args"]["seed"]))
            res.traces += 1
        if len(res.samples) < 2 and fn == "unit_cases" and r:
            res.samples.append({k: v for k, v in r[0].items()})
    return res
