"""./check <Cxx> [--tier quick|thorough] [--replay file]  — see DESIGN.md §2.5"""
import argparse
import importlib
import json
import os
import random
import sys
import time
import traceback

HERE = os.path.dirname(os.path.abspath(__file__))
sys.path.insert(0, HERE)
import common  # noqa: E402


class Ctx:
    def __init__(self, pid, tier, seed, ob, driver):
        self.pid, self.tier, self.seed, self.ob, self.driver = pid, tier, seed, ob, driver
        self.budget = tier
        self.search = False
        self.rng = random.Random(f"{pid}-{seed}")
        self.replay = None

    def n(self, quick, thorough):
        return thorough if self.budget == "thorough" else quick


def main():
    ap = argparse.ArgumentParser()
    ap.add_argument("pid")
    ap.add_argument("--tier", default=os.environ.get("VERIF_TIER", "quick"))
    ap.add_argument("--replay", default=None)
    a = ap.parse_args()
    pid = a.pid.upper()
    tier = a.tier if a.tier in ("quick", "thorough") else "quick"
    seed = int(os.environ.get("VERIF_SEED", "0") or 0)
    t0 = time.time()
    try:
        if pid == "SETUP":
            import subprocess
            import extract
            from kernels import KERNELS

            rep = extract.run(common.REPO, KERNELS)
            bad = {k: v["error"] for k, v in rep.items() if not v["ok"]}
            if bad:
                print("extraction problems (not fatal for setup):", bad)
            import glob

            props = sorted(os.path.basename(f)[:-5] for f in glob.glob(os.path.join(common.LEAN, "RexModel", "Props", "C*.lean")))
            r = subprocess.run(["lake", "build", "rexdriver"] + [f"RexModel.Props.{p}" for p in props], cwd=common.LEAN)
            if r.returncode != 0:  # build what can be built; the individual checks report what is broken
                for p in props:
                    subprocess.run(["lake", "build", f"RexModel.Props.{p}"], cwd=common.LEAN, capture_output=True)
                subprocess.run(["lake", "build", "rexdriver"], cwd=common.LEAN, capture_output=True)
            return 0
        mod = importlib.import_module(f"props.{pid.lower()}")
        ob = common.prepare(pid)
        driver = common.Driver()
        try:
            driver.run([{"cmd": "ping"}])
        except Exception as ex:  # driver unusable (e.g. generated kernels no longer fit the model)
            ob.broken.append(dict(kind="driver", what="Driver/Main.lean", detail=str(ex)[-800:]))
            driver = None
        ctx = Ctx(pid, tier, seed, ob, driver)
        if a.replay:
            ctx.replay = json.load(open(a.replay))
        if tier == "thorough":
            ok, out = common.leanchecker(pid)
            if not ok:
                ob.broken.append(dict(kind="leanchecker", what=pid, detail=out[-800:]))
        res = mod.run(ctx)
        if (ob.broken or res.corr) and not res.failures and tier == "quick":
            common.log(f"[{pid}] obligation/correspondence broken -> searching for a failing input with the thorough budget")
            ctx.budget, ctx.search = "thorough", True
            ctx.rng = random.Random(f"{pid}-{seed}-search")
            res2 = mod.run(ctx)
            res.failures += res2.failures
            res.corr += res2.corr
            res.evaluations += res2.evaluations
            res.nontrivial |= res2.nontrivial
            res.traces += res2.traces
            for k, v in res2.dist.items():
                res.dist[k] = res.dist.get(k, 0) + v
        info = mod.INFO
        return common.finish(pid, tier, seed, ob, res, t0, info["level"], info["trusted"], info["assumptions"], info["rule"], info.get("statements"))
    except KeyboardInterrupt:
        return 2
    except Exception:
        traceback.print_exc()
        print(f"HARNESS-ERROR property={pid} (exit 2, not a verdict)")
        return 2


if __name__ == "__main__":
    sys.exit(main())
