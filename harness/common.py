"""Shared machinery for the rex checks: extraction, Lean build + axiom audit, the model driver,
verdict logic, evidence. See DESIGN.md §2."""
import fcntl
import hashlib
import json
import math
import os
import random
import re
import shutil
import struct
import subprocess
import sys
import tempfile
import time

HERE = os.path.dirname(os.path.abspath(__file__))
VERIF = os.path.dirname(HERE)
LEAN = os.path.join(VERIF, "lean")
REPO = os.environ.get("REX_REPO", "/repo")
ALLOWED_AXIOMS = {"propext", "Classical.choice", "Quot.sound"}
FORBIDDEN_RE = re.compile(r"\b(sorry|admit|native_decide|bv_decide|implemented_by|unsafe)\b|^\s*axiom\s|maxHeartbeats\s+0")


def log(*a):
    print(*a, flush=True)


# ------------------------------------------------------------------------------------------------
# floats <-> bits


def fbits(x):
    return {"b": struct.unpack("<Q", struct.pack("<d", float(x)))[0]}


def unbits(j):
    if isinstance(j, dict) and "b" in j:
        return struct.unpack("<d", struct.pack("<Q", int(j["b"])))[0]
    if isinstance(j, list):
        return [unbits(x) for x in j]
    if isinstance(j, dict):
        return {k: unbits(v) for k, v in j.items()}
    return j


def close(a, b, rtol=1e-5, atol=1e-6):
    if a is None or b is None:
        return a is None and b is None
    if math.isnan(a) or math.isnan(b):
        return math.isnan(a) and math.isnan(b)
    if math.isinf(a) or math.isinf(b):
        return a == b
    return abs(a - b) <= atol + rtol * max(abs(a), abs(b))


# ------------------------------------------------------------------------------------------------
# extraction + lean build


class Obligation:
    def __init__(self):
        self.broken = []  # list of dict(kind, what, detail)
        self.theorems = []  # audited theorem names
        self.axioms = {}  # name -> list
        self.kernels = {}  # name -> src

    def ok(self):
        return not self.broken


def _strip_comments(text):
    # remove /- ... -/ (nested, roughly) and -- comments
    out = []
    depth = 0
    i = 0
    while i < len(text):
        if text.startswith("/-", i):
            depth += 1
            i += 2
        elif text.startswith("-/", i) and depth > 0:
            depth -= 1
            i += 2
        elif depth > 0:
            i += 1
        elif text.startswith("--", i):
            j = text.find("\n", i)
            i = len(text) if j < 0 else j
        else:
            out.append(text[i])
            i += 1
    return "".join(out)


def lean_sources_for(pid):
    """Lean files that make up the proof of property pid (Props file + everything under RexModel it
    transitively imports)."""
    seen, todo = set(), [f"RexModel.Props.{pid}"]
    while todo:
        m = todo.pop()
        if m in seen:
            continue
        p = os.path.join(LEAN, *m.split(".")) + ".lean"
        if not os.path.exists(p):
            continue
        seen.add(m)
        for line in open(p):
            mm = re.match(r"\s*import\s+(RexModel[\w.]*)", line)
            if mm:
                todo.append(mm.group(1))
    return sorted(seen)


def theorem_names(pid):
    p = os.path.join(LEAN, "RexModel", "Props", pid + ".lean")
    text = _strip_comments(open(p).read())
    ns = []
    names = []
    for line in text.splitlines():
        m = re.match(r"\s*namespace\s+([\w.]+)", line)
        if m:
            ns.append(m.group(1))
        m = re.match(r"\s*end\s+([\w.]+)\s*$", line)
        if m and ns and ns[-1] == m.group(1):
            ns.pop()
        m = re.match(r"\s*(?:private\s+|protected\s+)?(?:theorem|lemma)\s+([\w.']+)", line)
        if m:
            names.append(".".join(ns + [m.group(1)]))
    return names


def prepare(pid, ob=None, quiet=False):
    """Steps 1+2 of the verdict logic: regenerate kernels, build Props.<pid>, audit axioms."""
    import extract
    from kernels import KERNELS

    ob = ob or Obligation()
    os.makedirs(os.path.join(LEAN, ".lake"), exist_ok=True)
    lock = open(os.path.join(LEAN, ".build.lock"), "w")
    fcntl.flock(lock, fcntl.LOCK_EX)
    try:
        rep = extract.run(REPO, KERNELS)
        ob.kernel_report = rep
        for k, v in rep.items():
            if pid in v["props"]:
                if v["ok"]:
                    ob.kernels[k] = f"{v['file']}:{v['line']}: {v['src']}"
                else:
                    ob.broken.append(dict(kind="extraction", what=k, detail=f"{v['file']} {v['func']}: {v['error']}"))
        # grep for forbidden constructs in the proof's source cone
        for m in lean_sources_for(pid):
            p = os.path.join(LEAN, *m.split(".")) + ".lean"
            txt = _strip_comments(open(p).read())
            for ln in txt.splitlines():
                if FORBIDDEN_RE.search(ln):
                    ob.broken.append(dict(kind="forbidden", what=m, detail=ln.strip()[:200]))
        # audit file
        names = theorem_names(pid)
        ob.theorems = names
        audit = os.path.join(LEAN, "RexModel", "Audit", pid + ".lean")
        content = f"import RexModel.Props.{pid}\n" + "".join(f"#print axioms {n}\n" for n in names)
        os.makedirs(os.path.dirname(audit), exist_ok=True)
        if not os.path.exists(audit) or open(audit).read() != content:
            open(audit, "w").write(content)
        t0 = time.time()
        r = subprocess.run(["lake", "build", f"RexModel.Props.{pid}"], cwd=LEAN, capture_output=True, text=True)
        ob.build_log = (r.stdout + r.stderr)[-6000:]
        props_ok = r.returncode == 0
        if not props_ok:
            errs = [l for l in (r.stdout + r.stderr).splitlines() if "error" in l.lower()][:8]
            ob.broken.append(dict(kind="lean_build", what=f"RexModel.Props.{pid}", detail="\n".join(errs) or ob.build_log[-1500:]))
        # the executable model (one binary for all properties): a failure only concerns this property if one of the
        # failing files belongs to this property's cone (its proof sources, its driver module, the shared machine)
        rd = subprocess.run(["lake", "build", "rexdriver"], cwd=LEAN, capture_output=True, text=True)
        ob.build_s = time.time() - t0
        ob.driver_ok = rd.returncode == 0
        if rd.returncode != 0:
            out = rd.stdout + rd.stderr
            failing = set(re.findall(r"(RexModel/[\w/]+\.lean|Driver/[\w/]+\.lean)", "\n".join(l for l in out.splitlines() if "error" in l.lower())))
            cone = {m.replace(".", "/") + ".lean" for m in lean_sources_for(pid)} | {f"RexModel/Driver/{pid}.lean", "RexModel/Driver/Basic.lean", "Driver/Main.lean"}
            if pid in ("C02", "C03", "C04"):
                cone |= {"RexModel/Driver/Async.lean", "RexModel/Async/Machine.lean"}
            mine = sorted(failing & cone)
            if mine and props_ok:
                errs = [l for l in out.splitlines() if "error" in l.lower() and any(f in l for f in mine)][:6]
                ob.broken.append(dict(kind="driver_build", what=",".join(mine), detail="\n".join(errs)))
            elif not mine:
                ob.driver_note = "driver build failed in modules of other properties: " + ",".join(sorted(failing))[:300]
        if props_ok:
            r = subprocess.run(["lake", "env", "lean", audit], cwd=LEAN, capture_output=True, text=True)
            out = r.stdout + r.stderr
            cur = None
            for m in re.finditer(r"'(\S+)' depends on axioms: \[([^\]]*)\]|'(\S+)' does not depend on any axioms", out):
                if m.group(1):
                    ob.axioms[m.group(1)] = [a.strip() for a in m.group(2).replace("\n", " ").split(",") if a.strip()]
                else:
                    ob.axioms[m.group(3)] = []
            if r.returncode != 0:
                ob.broken.append(dict(kind="audit", what=pid, detail=out[-1500:]))
            for n in names:
                if n not in ob.axioms:
                    ob.broken.append(dict(kind="audit", what=n, detail="theorem not reported by #print axioms"))
                else:
                    bad = [a for a in ob.axioms[n] if a not in ALLOWED_AXIOMS]
                    if bad:
                        ob.broken.append(dict(kind="axioms", what=n, detail=f"depends on {bad}"))
            ob.theorems = names
    finally:
        fcntl.flock(lock, fcntl.LOCK_UN)
        lock.close()
    return ob


def leanchecker(pid):
    mods = lean_sources_for(pid)
    r = subprocess.run(["lake", "env", "leanchecker"] + mods, cwd=LEAN, capture_output=True, text=True)
    return r.returncode == 0, (r.stdout + r.stderr)[-2000:]


# ------------------------------------------------------------------------------------------------
# driver


class Driver:
    """Runs the Lean model driver on a batch of JSON commands."""

    def __init__(self):
        self.calls = 0

    def run(self, cmds, timeout=600):
        if not cmds:
            return []
        inp = "\n".join(json.dumps(c) for c in cmds) + "\n"
        exe = os.path.join(LEAN, ".lake", "build", "bin", "rexdriver")
        cmd = [exe] if os.path.exists(exe) and not os.environ.get("VERIF_INTERPRET_DRIVER") else ["lake", "env", "lean", "--run", "Driver/Main.lean"]
        r = subprocess.run(cmd, cwd=LEAN, input=inp, capture_output=True, text=True, timeout=timeout)
        lines = [l for l in r.stdout.splitlines() if l.strip()]
        if r.returncode != 0 or len(lines) != len(cmds):
            raise RuntimeError(f"driver failed rc={r.returncode} lines={len(lines)}/{len(cmds)}: {r.stderr[-2000:]}")
        self.calls += len(cmds)
        return [json.loads(l) for l in lines]


# ------------------------------------------------------------------------------------------------
# results / verdict / evidence


class Result:
    def __init__(self):
        self.failures = []  # dict(key, desc, replay)  property fails on the implementation
        self.corr = []  # dict(stream, desc, case)    model != implementation
        self.evaluations = 0
        self.nontrivial = set()
        self.samples = []
        self.dist = {}
        self.traces = 0
        self.notes = []

    def count(self, k, n=1):
        self.dist[k] = self.dist.get(k, 0) + n

    def fail(self, key, desc, replay):
        self.failures.append(dict(key=key, desc=desc, replay=replay))

    def corr_diff(self, stream, desc, case):
        self.corr.append(dict(stream=stream, desc=desc, case=case))

    def nontriv(self, obj):
        self.nontrivial.add(hashlib.sha1(json.dumps(obj, sort_keys=True, default=str).encode()).hexdigest())


def known_findings():
    p = os.path.join(VERIF, "known_findings.txt")
    out = {}
    if os.path.exists(p):
        for line in open(p):
            m = re.match(r"known:\s+property=(\S+)\s+key=(\S+)\s+(.*)", line.strip())
            if m:
                out.setdefault(m.group(1), {})[m.group(2)] = m.group(3)
    return out


def write_replay(pid, obj):
    d = os.path.join(VERIF, "replays", pid)
    os.makedirs(d, exist_ok=True)
    txt = json.dumps(obj, indent=1, default=str, sort_keys=True)
    h = hashlib.sha1(txt.encode()).hexdigest()[:12]
    p = os.path.join(d, h + ".json")
    open(p, "w").write(txt)
    return os.path.relpath(p, VERIF)


def scratch_dir():
    return tempfile.mkdtemp(prefix="rexverif_", dir="/var/tmp")


def finish(pid, tier, seed, ob, res, t0, level, trusted, assumptions, explanation, statements=None):
    """Verdict logic (DESIGN §2.5). Returns the process exit code."""
    known = known_findings().get(pid, {})
    new_fail = []
    seen_known = {}
    for f in res.failures:
        if f["key"] in known:
            seen_known.setdefault(f["key"], f)
        else:
            new_fail.append(f)
    for k, f in seen_known.items():
        log(f"KNOWN-FINDING: property={pid} {known[k]} (e.g. {f['desc'][:160]})")
    violations = 0
    code = 0
    if new_fail:
        f = new_fail[0]
        path = write_replay(pid, dict(property=pid, kind="failing_input", seed=seed, tier=tier, failure=f, all_failures=[x["desc"] for x in new_fail[:20]],
                                      obligations_broken=ob.broken, correspondence_broken=res.corr[:5]))
        log(f"VIOLATION property={pid} replay={path}")
        for x in new_fail[:5]:
            log("  failing input:", x["desc"][:300])
        violations = len(new_fail)
        code = 1
    elif ob.broken or res.corr:
        path = write_replay(pid, dict(property=pid, kind="no_failing_input_found", seed=seed, tier=tier,
                                      obligations_broken=ob.broken, correspondence_broken=res.corr[:10],
                                      note="a proof obligation or the model/implementation correspondence no longer checks; the search over model and implementation found no concrete failing input"))
        for b in ob.broken[:6]:
            log(f"  broken obligation [{b['kind']}] {b['what']}: {b['detail'][:400]}")
        for c in res.corr[:6]:
            log(f"  correspondence [{c['stream']}]: {c['desc'][:400]}")
        log(f"VIOLATION property={pid} replay={path} no-failing-input-found")
        violations = 1
        code = 1
    n_thm = len(ob.theorems)
    discharged = n_thm if not [b for b in ob.broken if b["kind"] in ("lean_build", "axioms", "audit", "forbidden")] else 0
    axioms_used = sorted({a for v in ob.axioms.values() for a in v})
    cov = dict(
        obligations=max(n_thm, 0),
        discharged=discharged,
        checker_cmd=f"cd lean && lake build RexModel.Props.{pid} && lake env lean RexModel/Audit/{pid}.lean  (kernels regenerated from {REPO} by harness/extract.py first)",
        trusted_base=[f"Lean 4 kernel; axioms reported by #print axioms over all {n_thm} theorems: {axioms_used or 'none'}"] + trusted,
        evaluations=res.evaluations,
        distinct_nontrivial=len(res.nontrivial),
        rule=explanation,
        samples=(res.samples[:6] or ["(none)"]) + [dict(theorems=(statements or ob.theorems)[:40])],
        traces_validated_against_impl=res.traces,
        disagreements_checked=res.evaluations,
        programs=max(res.traces, 1) if level == 'translation_validation' else res.traces,
        input_distribution=res.dist,
        kernels_extracted=ob.kernels,
        obligations_broken=ob.broken,
        correspondence_diffs=len(res.corr),
        known_findings_seen=sorted(seen_known),
        notes=res.notes,
        lean_build_s=round(getattr(ob, "build_s", 0.0), 1),
    )
    ev = dict(property_id=pid, tier=tier, seed=seed, level=level, coverage=cov, assumptions=assumptions, wall_s=round(time.time() - t0, 1), violations=violations)
    os.makedirs(os.path.join(VERIF, "evidence"), exist_ok=True)
    with open(os.path.join(VERIF, "evidence", pid + ".json"), "w") as f:
        json.dump(ev, f, indent=1, default=str)
    if code == 0:
        log(f"OK property={pid} tier={tier} seed={seed} theorems={n_thm} evaluations={res.evaluations} nontrivial={len(res.nontrivial)} wall={ev['wall_s']}s")
    return code
