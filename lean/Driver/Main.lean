import RexModel.Driver.All
open Lean Rex.Driver

/-- One JSON object per input line (`{"cmd": ..., ...}`), one JSON object per output line. -/
partial def loop (h : IO.FS.Stream) (out : IO.FS.Stream) : IO Unit := do
  let line ← h.getLine
  if line.isEmpty then return ()
  let l := line.trimAscii.toString
  if l.isEmpty then loop h out else
  let res : Json :=
    match Json.parse l with
    | .error e => Json.mkObj [("error", Json.str s!"parse: {e}")]
    | .ok j =>
      match j.getObjValAs? String "cmd" with
      | .error e => Json.mkObj [("error", Json.str e)]
      | .ok cmd =>
        match allHandlers.lookup cmd with
        | none => Json.mkObj [("error", Json.str s!"unknown cmd {cmd}")]
        | some hnd =>
          match hnd j with
          | .ok r => r
          | .error e => Json.mkObj [("error", Json.str e)]
  out.putStrLn res.compress
  loop h out

def main : IO Unit := do
  loop (← IO.getStdin) (← IO.getStdout)
