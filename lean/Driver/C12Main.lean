import RexModel.Driver.C12
open Lean Rex.Driver

/-! Stand-alone line-protocol driver for the C12 model (run with `lake env lean --run Driver/C12Main.lean`). It is kept
out of `rexdriver` so that an edit of `rex/artificial.py` that breaks the generated C12 kernels cannot break the
driver the other properties use. -/

partial def loopC12 (h : IO.FS.Stream) (out : IO.FS.Stream) : IO Unit := do
  let line ← h.getLine
  if line.isEmpty then return ()
  let l := line.trimAscii.toString
  if l.isEmpty then loopC12 h out else
  let res : Json :=
    match Json.parse l with
    | .error e => Json.mkObj [("error", Json.str s!"parse: {e}")]
    | .ok j =>
      match j.getObjValAs? String "cmd" with
      | .error e => Json.mkObj [("error", Json.str e)]
      | .ok cmd =>
        match C12.handlers.lookup cmd with
        | none => Json.mkObj [("error", Json.str s!"unknown cmd {cmd}")]
        | some hnd =>
          match hnd j with
          | .ok r => r
          | .error e => Json.mkObj [("error", Json.str e)]
  out.putStrLn res.compress
  loopC12 h out

def main : IO Unit := do
  loopC12 (← IO.getStdin) (← IO.getStdout)
