-- Root of the library: everything that `lake build` checks (Props files that exist are imported by `./check setup`).
import RexModel.Prelude
import RexModel.Driver.All
