-- Root of the library: everything that `lake build` checks.
import RexModel.Prelude
import RexModel.Driver.All
import RexModel.Props.C17
