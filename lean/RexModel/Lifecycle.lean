import RexModel.Gen.Lifecycle

/-! The `stop()` handshake between the user thread and the supervisor's worker thread, at the granularity of the
shared-memory operations of `_Synchronizer._async_step` and `AsyncGraph.stop`. Core Lean only.

Only the supervisor's worker can block forever (it waits for an action future); the other wrappers' tasks never
wait on anything but connection `_stopping` tasks, and connection tasks never wait — that part is assumed, not
modelled. `k` is the number of supervisor step tasks still queued in front of its `_stopping` task; it is arbitrary.
The three Boolean parameters are the operation-order facts regenerated from the source. -/

namespace Rex.Lifecycle

/-- program counter of the supervisor's worker -/
inductive SPc | idle | pre | pub | wait | done
deriving DecidableEq, Repr

/-- program counter of the user thread inside `stop()` -/
inductive UPc | start | flipped | cancelled | returned
deriving DecidableEq, Repr

structure St where
  flipped : Bool       -- supervisor's state is no longer RUNNING
  spc : SPc
  k : Nat              -- queued supervisor step tasks
  stopQueued : Bool    -- the supervisor's `_stopping` task is queued behind them
  stopped : Bool       -- … and has run
  actPending : Bool    -- the supervisor's current action future is in the deque and unresolved
  cancelled : Bool     -- … and has been cancelled
  mustReset : Bool
  upc : UPc
deriving DecidableEq, Repr

/-- `checkState`: the supervisor re-checks its running state after publishing its future (the C05 repair).
One transition per shared-memory operation. -/
inductive Step (checkState : Bool) : St → St → Prop
  -- supervisor worker
  | sStart {s} : s.spc = .idle → 0 < s.k → Step checkState s { s with spc := .pre, k := s.k - 1 }
  | sPublish {s} : s.spc = .pre → Step checkState s { s with spc := .pub, actPending := true, cancelled := false }
  | sCheckSkip {s} : s.spc = .pub → (s.mustReset = true ∨ (checkState = true ∧ s.flipped = true)) →
      Step checkState s { s with spc := .done, mustReset := true, actPending := false }
  | sCheckWait {s} : s.spc = .pub → s.mustReset = false → ¬ (checkState = true ∧ s.flipped = true) →
      Step checkState s { s with spc := .wait }
  | sWake {s} : s.spc = .wait → s.cancelled = true →
      Step checkState s { s with spc := .done, mustReset := true, actPending := false }
  | sDone {s} : s.spc = .done → Step checkState s { s with spc := .idle }
  | sStopping {s} : s.spc = .idle → s.k = 0 → s.stopQueued = true →
      Step checkState s { s with stopQueued := false, stopped := true }
  -- user thread
  | uFlip {s} : s.upc = .start → Step checkState s { s with flipped := true, stopQueued := true, upc := .flipped }
  | uCancel {s} : s.upc = .flipped → Step checkState s { s with cancelled := s.cancelled || s.actPending, upc := .cancelled }
  | uReturn {s} : s.upc = .cancelled → s.stopped = true → Step checkState s { s with upc := .returned }

/-- every execution from `s` is finite and ends with `stop()` returned -/
inductive Terminates (checkState : Bool) : St → Prop
  | ret {s} : s.upc = .returned → Terminates checkState s
  | step {s} : (∃ s', Step checkState s s') → (∀ s', Step checkState s s' → Terminates checkState s') → Terminates checkState s

def spcRank : SPc → Nat | .idle => 0 | .done => 1 | .wait => 3 | .pub => 4 | .pre => 5
def upcRank : UPc → Nat | .start => 6 | .flipped => 4 | .cancelled => 2 | .returned => 0

/-- reachability -/
inductive Reach (checkState : Bool) : St → St → Prop
  | refl (s) : Reach checkState s s
  | tail {a b c} : Reach checkState a b → Step checkState b c → Reach checkState a c

/-- strictly decreases on every step of every thread -/
def mu (s : St) : Nat := 6 * s.k + spcRank s.spc + upcRank s.upc + (if s.stopQueued then 1 else 0)

/-- invariant of every state reachable while `stop()` runs -/
structure Inv (s : St) : Prop where
  flip : s.flipped = true ↔ s.upc ≠ .start
  waitPending : (s.spc = .wait ∨ s.spc = .pub) → s.actPending = true
  waitCancelled : s.spc = .wait → (s.upc = .cancelled ∨ s.upc = .returned) → s.cancelled = true
  stopTask : s.upc ≠ .start → (s.stopQueued = true ∨ s.stopped = true)
  notStopped : s.stopped = true → s.k = 0 ∧ s.spc = .idle ∧ s.stopQueued = false
  notFlippedNotStopped : s.upc = .start → s.stopped = false ∧ s.stopQueued = false
  retStopped : s.upc = .returned → s.stopped = true

/-- any state in which `stop()` may be entered: the supervisor's worker anywhere in its step, any number of queued steps -/
def Entry (s : St) : Prop :=
  s.upc = .start ∧ s.flipped = false ∧ s.stopQueued = false ∧ s.stopped = false ∧
  (s.spc = .wait → s.actPending = true) ∧ (s.spc = .wait → s.cancelled = false → True)

end Rex.Lifecycle
