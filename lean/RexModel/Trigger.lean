/-! Trigger discipline of a queue handler (C05: no lost wake-up). Core Lean only.

The connection handlers of the asynchronous runtime (`push_selection`, `push_ts_max`, `push_expected_nonblocking`) serve a queue
of *expectations* against a store of *items*; they run only when somebody calls them. This file models one such handler with its
pending calls and proves: if every append (of an expectation or an item) is followed by a call, and a call that served an
expectation checks again, then in **every** reachable state a ready expectation has a pending call — the handler can never be
ready with nobody left to call it. Without the re-check such a state is reachable (`oneshot_lost_wakeup`). -/

namespace Rex.Trigger

/-- an expectation queue served by one handler. `E`: queued expectations, `I`: the store of items they wait for -/
structure Q (E I : Type) where
  exp : List E
  items : I
  trig : Nat      -- calls of the handler that are queued but have not run yet

variable {E I : Type}

/-- the oldest expectation can be served -/
def Ready (ready : E → I → Bool) (q : Q E I) : Prop := ∃ e r, q.exp = e :: r ∧ ready e q.items = true

/-- one call of the handler: serve the oldest expectation if it is ready; with `recheck`, check again after serving -/
def serve (ready : E → I → Bool) (consume : E → I → I) (recheck : Bool) : List E → I → List E × I
  | [], i => ([], i)
  | e :: r, i =>
    if ready e i then (if recheck then serve ready consume recheck r (consume e i) else (r, consume e i)) else (e :: r, i)

/-- what can happen: an expectation / an item is appended (followed by a call of the handler iff the flag is set), or a
pending call runs -/
inductive Ev (E I : Type)
  | addExp (e : E) (calls : Bool)
  | arrive (f : I → I) (calls : Bool)
  | handle

def step (ready : E → I → Bool) (consume : E → I → I) (recheck : Bool) (q : Q E I) : Ev E I → Q E I
  | .addExp e t => { q with exp := q.exp ++ [e], trig := q.trig + (if t then 1 else 0) }
  | .arrive f t => { q with items := f q.items, trig := q.trig + (if t then 1 else 0) }
  | .handle =>
    if q.trig = 0 then q else
      { exp := (serve ready consume recheck q.exp q.items).1, items := (serve ready consume recheck q.exp q.items).2, trig := q.trig - 1 }

def run (ready : E → I → Bool) (consume : E → I → I) (recheck : Bool) (i0 : I) (evs : List (Ev E I)) : Q E I :=
  evs.foldl (step ready consume recheck) { exp := [], items := i0, trig := 0 }

/-- every append is followed by a call -/
def AllCall : List (Ev E I) → Prop
  | [] => True
  | .addExp _ t :: r => t = true ∧ AllCall r
  | .arrive _ t :: r => t = true ∧ AllCall r
  | .handle :: r => AllCall r

theorem serve_recheck_not_ready (ready : E → I → Bool) (consume : E → I → I) (l : List E) (i : I) :
    ¬ Ready ready { exp := (serve ready consume true l i).1, items := (serve ready consume true l i).2, trig := 0 } := by
  induction l generalizing i with
  | nil => intro ⟨e, r, h, _⟩; simp [serve] at h
  | cons a l ih =>
    simp only [serve]
    cases ha : ready a i with
    | true => simpa using ih (consume a i)
    | false =>
      intro ⟨e, r, h, hr⟩
      simp only [Bool.false_eq_true, if_false, List.cons.injEq] at h hr
      obtain ⟨rfl, _⟩ := h
      rw [ha] at hr; cases hr

theorem ready_trig_irrelevant (ready : E → I → Bool) (q : Q E I) (n : Nat) :
    Ready ready { q with trig := n } ↔ Ready ready q := Iff.rfl

theorem inv_foldl (ready : E → I → Bool) (consume : E → I → I) (evs : List (Ev E I)) :
    ∀ (q : Q E I), (Ready ready q → 0 < q.trig) → AllCall evs →
      (Ready ready (evs.foldl (step ready consume true) q) → 0 < (evs.foldl (step ready consume true) q).trig) := by
  induction evs with
  | nil => intro q hq _; exact hq
  | cons ev evs ih =>
    intro q hq hall
    simp only [List.foldl_cons]
    cases ev with
    | addExp e t =>
      obtain ⟨ht, hrest⟩ := hall
      apply ih _ _ hrest
      intro _
      simp [step, ht]
    | arrive f t =>
      obtain ⟨ht, hrest⟩ := hall
      apply ih _ _ hrest
      intro _
      simp [step, ht]
    | handle =>
      apply ih _ _ hall
      simp only [step]
      by_cases h0 : q.trig = 0
      · rw [if_pos h0]; exact hq
      · rw [if_neg h0]
        intro hr
        exact absurd hr (serve_recheck_not_ready ready consume q.exp q.items)

/-- **No lost wake-up.** -/
theorem no_lost_wakeup (ready : E → I → Bool) (consume : E → I → I) (i0 : I) (evs : List (Ev E I)) (hc : AllCall evs) :
    Ready ready (run ready consume true i0 evs) → 0 < (run ready consume true i0 evs).trig := by
  unfold run
  exact inv_foldl ready consume evs _ (by intro ⟨e, r, h, _⟩; simp at h) hc

/-- … and without the re-check a handler can be left ready with no call pending: two expectations (one message, then none)
are queued before the message arrives; the call that follows the message serves the first, nobody serves the second. -/
theorem oneshot_lost_wakeup :
    let q := run (fun (n h : Nat) => decide (n ≤ h)) (fun n h => h - n) false 0
      [.addExp 1 true, .addExp 0 true, .handle, .handle, .arrive (· + 1) true, .handle]
    q.exp = [0] ∧ q.items = 0 ∧ q.trig = 0 ∧ Ready (fun (n h : Nat) => decide (n ≤ h)) q := by
  refine ⟨by decide, by decide, by decide, 0, [], by decide, by decide⟩

/-! ### Handlers that join one item from each of `k` queues (`push_zip`, `push_step`): one unit per call -/

/-- `counts i`: items waiting in source queue `i < k`; `trig`: pending calls -/
structure U where
  counts : Nat → Nat
  trig : Nat

inductive UEv | append (i : Nat) (calls : Bool) | handle

def ustep (k : Nat) (u : U) : UEv → U
  | .append i t => { counts := fun j => if j = i then u.counts j + 1 else u.counts j, trig := u.trig + (if t then 1 else 0) }
  | .handle =>
    if u.trig = 0 then u
    else if (List.range k).all (fun i => decide (0 < u.counts i)) then { counts := fun j => u.counts j - 1, trig := u.trig - 1 }
    else { u with trig := u.trig - 1 }

def UAllCall : List UEv → Prop
  | [] => True
  | .append _ t :: r => t = true ∧ UAllCall r
  | .handle :: r => UAllCall r

def urun (k : Nat) (evs : List UEv) : U := evs.foldl (ustep k) { counts := fun _ => 0, trig := 0 }

theorem uinv_foldl (k : Nat) (hk : 0 < k) (evs : List UEv) :
    ∀ (u : U), (∀ n, (∀ i, i < k → n ≤ u.counts i) → n ≤ u.trig) → UAllCall evs →
      ∀ n, (∀ i, i < k → n ≤ (evs.foldl (ustep k) u).counts i) → n ≤ (evs.foldl (ustep k) u).trig := by
  induction evs with
  | nil => intro u hu _; exact hu
  | cons ev evs ih =>
    intro u hu hall
    simp only [List.foldl_cons]
    cases ev with
    | append i t =>
      obtain ⟨ht, hrest⟩ := hall
      apply ih _ _ hrest
      intro n hn
      simp only [ustep, ht, if_true] at hn ⊢
      have : n - 1 ≤ u.trig := by
        apply hu
        intro j hj
        have := hn j hj
        split at this <;> omega
      omega
    | handle =>
      apply ih _ _ hall
      intro n hn
      simp only [ustep] at hn ⊢
      by_cases h0 : u.trig = 0
      · rw [if_pos h0] at hn ⊢; exact hu n hn
      · rw [if_neg h0] at hn ⊢
        by_cases hall' : (List.range k).all (fun i => decide (0 < u.counts i)) = true
        · rw [if_pos hall'] at hn ⊢
          simp only at hn ⊢
          have hpos : ∀ i, i < k → 0 < u.counts i := by
            intro i hi
            have := List.all_eq_true.mp hall' i (List.mem_range.mpr hi)
            simpa using this
          have : n + 1 ≤ u.trig := by
            apply hu
            intro j hj
            have h1 := hn j hj
            have h2 := hpos j hj
            omega
          omega
        · rw [if_neg hall'] at hn ⊢
          simp only at hn ⊢
          -- some source is empty, so n = 0
          have : ∃ i, i < k ∧ u.counts i = 0 := by
            have hne : ¬ ∀ i ∈ List.range k, decide (0 < u.counts i) = true := by
              intro h; exact hall' (List.all_eq_true.mpr h)
            apply Classical.byContradiction
            intro hcon
            apply hne
            intro i hi
            have hi' := List.mem_range.mp hi
            have : u.counts i ≠ 0 := fun h => hcon ⟨i, hi', h⟩
            simp; omega
          obtain ⟨i, hi, hz⟩ := this
          have := hn i hi
          omega

/-- **No lost wake-up for a joining handler**: if every append is followed by a call, then in every reachable state the number of
complete units (one item in each of the `k ≥ 1` source queues) is at most the number of pending calls; in particular a ready
handler has a call pending. -/
theorem unit_no_lost_wakeup (k : Nat) (hk : 0 < k) (evs : List UEv) (hc : UAllCall evs) :
    (∀ i, i < k → 0 < (urun k evs).counts i) → 0 < (urun k evs).trig := by
  intro h
  have := uinv_foldl k hk evs { counts := fun _ => 0, trig := 0 } (by
    intro n hn
    have := hn 0 hk
    simpa using this) hc 1 (by intro i hi; exact h i hi)
  exact this

/-! ### A joining handler one of whose inputs is produced by its own success (`push_phase_shift`)

`push_phase_shift` joins the next scheduled tick, one blocking arrival per blocking input, and the previous step's end time. The
first two kinds are appended by other handlers, each append followed by a call; the end time of step `j` is appended by the success
for step `j - 1` itself (the first one at start-up) **without** a call. No call is lost all the same: the end time the next unit needs
is always there, so a unit is complete as soon as every external source has delivered, and the calls that follow those deliveries
suffice. -/

/-- `arrived i` / `served i`: items delivered by external source `i < k` / calls of the handler that followed such a delivery and
have run; `done`: units completed so far (the previous-end item of unit `done` is available by construction) -/
structure C where
  arrived : Nat → Nat
  served : Nat → Nat
  done : Nat

inductive CEv | deliver (i : Nat) | call (i : Nat)

def cstep (k : Nat) (c : C) : CEv → C
  | .deliver i => { c with arrived := fun j => if j = i then c.arrived j + 1 else c.arrived j }
  | .call i =>
    if c.served i < c.arrived i then
      let served' := fun j => if j = i then c.served j + 1 else c.served j
      if (List.range k).all (fun j => decide (c.done < c.arrived j)) then { c with served := served', done := c.done + 1 }
      else { c with served := served' }
    else c

def crun (k : Nat) (evs : List CEv) : C := evs.foldl (cstep k) { arrived := fun _ => 0, served := fun _ => 0, done := 0 }

/-- the invariant: the calls served for every source never run ahead of the completed units, and never ahead of the deliveries -/
def CInv (k : Nat) (c : C) : Prop := (∀ n, (∀ i, i < k → n ≤ c.served i) → n ≤ c.done) ∧ (∀ i, c.served i ≤ c.arrived i)

theorem cinv_step (k : Nat) (hk : 0 < k) (c : C) (ev : CEv) (h : CInv k c) : CInv k (cstep k c ev) := by
  obtain ⟨h1, h2⟩ := h
  cases ev with
  | deliver i =>
    refine ⟨h1, ?_⟩
    intro j
    simp only [cstep]
    have := h2 j
    split <;> omega
  | call i =>
    simp only [cstep]
    by_cases hp : c.served i < c.arrived i
    · rw [if_pos hp]
      have hs2 : ∀ j, (if j = i then c.served j + 1 else c.served j) ≤ c.arrived j := by
        intro j
        by_cases hj : j = i
        · subst hj; simp; omega
        · simp [hj]; exact h2 j
      by_cases hall : (List.range k).all (fun j => decide (c.done < c.arrived j)) = true
      · rw [if_pos hall]
        refine ⟨?_, hs2⟩
        intro n hn
        simp only at hn ⊢
        -- every source has served at least n - 1 before
        have : n - 1 ≤ c.done := by
          apply h1
          intro j hj
          have := hn j hj
          split at this <;> omega
        omega
      · rw [if_neg hall]
        refine ⟨?_, hs2⟩
        intro n hn
        simp only at hn ⊢
        -- some source has not delivered the item of unit `done`
        have : ∃ j, j < k ∧ c.arrived j ≤ c.done := by
          apply Classical.byContradiction
          intro hcon
          apply hall
          apply List.all_eq_true.mpr
          intro j hj
          have hj' := List.mem_range.mp hj
          have : ¬ c.arrived j ≤ c.done := fun hle => hcon ⟨j, hj', hle⟩
          simp; omega
        obtain ⟨j, hj, hle⟩ := this
        have hnj := hn j hj
        by_cases hji : j = i
        · subst hji
          simp only [if_true] at hnj
          omega
        · simp only [hji, if_false] at hnj
          have := h2 j
          omega
    · rw [if_neg hp]; exact ⟨h1, h2⟩

theorem cinv_run (k : Nat) (hk : 0 < k) (evs : List CEv) : CInv k (crun k evs) := by
  unfold crun
  suffices H : ∀ c, CInv k c → CInv k (evs.foldl (cstep k) c) by
    apply H
    refine ⟨?_, fun _ => Nat.le_refl _⟩
    intro n hn
    have := hn 0 hk
    simpa using this
  induction evs with
  | nil => intro c h; exact h
  | cons ev evs ih => intro c h; exact ih _ (cinv_step k hk c ev h)

/-- **No lost wake-up for the chained joining handler**: in every reachable state, if the next unit is complete (every external source
has delivered its item), some call that followed a delivery has not run yet. -/
theorem chain_no_lost_wakeup (k : Nat) (hk : 0 < k) (evs : List CEv) :
    (∀ i, i < k → (crun k evs).done < (crun k evs).arrived i) → ∃ i, i < k ∧ (crun k evs).served i < (crun k evs).arrived i := by
  intro hready
  obtain ⟨h1, h2⟩ := cinv_run k hk evs
  apply Classical.byContradiction
  intro hcon
  have hall : ∀ i, i < k → (crun k evs).done + 1 ≤ (crun k evs).served i := by
    intro i hi
    have hr := hready i hi
    have hs : ¬ (crun k evs).served i < (crun k evs).arrived i := fun h => hcon ⟨i, hi, h⟩
    have := h2 i
    omega
  have := h1 _ hall
  omega

end Rex.Trigger
