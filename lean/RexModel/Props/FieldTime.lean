import RexModel.Async.Arrival
import Mathlib.Algebra.Order.Field.Basic
import Mathlib.Tactic.Linarith
import Mathlib.Tactic.Ring
import Mathlib.Order.Monotone.Basic

/-! Shared by the machine-level theorems of C03 and C04: an ordered field as time carrier of the asynchronous machine, and the
arrival recurrence over it. -/

namespace Rex.FieldTime

open Rex.Gen.Async Rex.Async

variable {α : Type} [Field α] [LinearOrder α] [IsStrictOrderedRing α]

/-- an ordered field with a rounding function and a floor division is a time carrier of the asynchronous machine -/
@[reducible] def fieldTime (α : Type) [Field α] [LinearOrder α] (rnd : α → α) (fdiv : α → α → Int) : Rex.Async.TimeLike α :=
  { toAdd := inferInstance, toSub := inferInstance, toMul := inferInstance, toDiv := inferInstance, toNeg := inferInstance,
    toLT := inferInstance, toLE := inferInstance, toBEq := inferInstance, toMax := inferInstance, toMin := inferInstance,
    toNatCast := inferInstance, toIntCast := inferInstance, toFloorDiv := ⟨fdiv⟩,
    decLt := inferInstance, decLe := inferInstance, rnd := rnd }

/-- zipping a send time with the delay `recv - sent` gives back `recv` when `recv` lies on the clock grid -/
theorem zip_of_delay (rnd : α → α) (fdiv : α → α → Int) (hidem : ∀ x, rnd (rnd x) = rnd x) (cd : Nat → α) :
    letI := fieldTime α rnd fdiv
    ∀ (S : List α) (i : Nat) (prev : α),
      List.zipWith (zip_recv_sc rnd) S (List.zipWith delay_sc (recvChain cd i prev S) S) = recvChain cd i prev S := by
  letI := fieldTime α rnd fdiv
  intro S
  induction S with
  | nil => intro i prev; rfl
  | cons s r ih =>
    intro i prev
    simp only [recvChain, List.zipWith_cons_cons, ih]
    congr 1
    show rnd (s + (rnd (max (s + cd i) prev) - s)) = rnd (max (s + cd i) prev)
    have : s + (rnd (max (s + cd i) prev) - s) = rnd (max (s + cd i) prev) := by ring
    rw [this]
    exact hidem _

/-- the arrival recurrence is non-decreasing from its second element on, and every element is at least the previous receive time
when that one lies on the grid -/
theorem chain_mono (rnd : α → α) (fdiv : α → α → Int) (hm : Monotone rnd) (hidem : ∀ x, rnd (rnd x) = rnd x) (cd : Nat → α) :
    letI := fieldTime α rnd fdiv
    ∀ (S : List α) (i : Nat) (prev : α), rnd prev = prev →
      (∀ x ∈ recvChain cd i prev S, prev ≤ x) ∧ (recvChain cd i prev S).Pairwise (· ≤ ·) := by
  letI := fieldTime α rnd fdiv
  intro S
  induction S with
  | nil => intro i prev _; exact ⟨(by intro x hx; cases hx), List.Pairwise.nil⟩
  | cons s r ih =>
    intro i prev hp
    simp only [recvChain]
    have hr0 : rnd (recv_sc rnd s (cd i) prev) = recv_sc rnd s (cd i) prev := by simp only [recv_sc]; exact hidem _
    have hge : prev ≤ recv_sc rnd s (cd i) prev := by
      simp only [recv_sc]
      calc prev = rnd prev := hp.symm
        _ ≤ rnd (max (s + cd i) prev) := hm (le_max_right _ _)
    obtain ⟨h1, h2⟩ := ih (i + 1) _ hr0
    refine ⟨?_, ?_⟩
    · intro x hx
      rcases List.mem_cons.mp hx with rfl | hx
      · exact hge
      · exact le_trans hge (h1 x hx)
    · exact List.Pairwise.cons h1 h2

/-- FIFO: the arrival recurrence is non-decreasing (whatever the initial receive time) -/
theorem chain_sorted (rnd : α → α) (fdiv : α → α → Int) (hm : Monotone rnd) (hidem : ∀ x, rnd (rnd x) = rnd x) (cd : Nat → α) :
    letI := fieldTime α rnd fdiv
    ∀ (S : List α) (i : Nat) (prev : α), (recvChain cd i prev S).Pairwise (· ≤ ·) := by
  letI := fieldTime α rnd fdiv
  intro S i prev
  cases S with
  | nil => exact List.Pairwise.nil
  | cons s r =>
    simp only [recvChain]
    have hr0 : rnd (recv_sc rnd s (cd i) prev) = recv_sc rnd s (cd i) prev := by simp only [recv_sc]; exact hidem _
    obtain ⟨h1, h2⟩ := chain_mono rnd fdiv hm hidem cd r (i + 1) _ hr0
    exact List.Pairwise.cons h1 h2

end Rex.FieldTime
