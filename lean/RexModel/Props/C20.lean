import RexModel.Lib.Policy
import Mathlib.Algebra.Order.Field.Basic
import Mathlib.Analysis.SpecialFunctions.Log.Basic
import Mathlib.Analysis.Complex.Trigonometric
import Mathlib.Tactic.Ring
import Mathlib.Tactic.Linarith

/-! # C20 — the exported policy computes the same action as the trained actor

All statements are about the definitions in `RexModel/Gen/Policy.lean` (regenerated from `rex/ppo.py`, `rex/actor_critic.py`
and `rex/rl.py` on every run) and the plumbing in `RexModel/Lib/Policy.lean`.

* §1 the activation lookup table of `Policy.apply_actor` and the if-chain of `Actor.__call__` agree on every name;
* §2 the hand-written forward pass (key count, index loop over `Dense_i`, final `Dense_{n-1}`) equals the Actor's
  module-creation loop on the same parameter dict, and both equal a fold over the layer list — for every depth, every layer
  type (`dense` is abstract, so every width) and every activation name;
* §3 same Gaussian: same `loc`, same `scale = exp log_std`; with an rng the policy's sample is the actor distribution's sample;
* §4 `Policy.get_action` = what `ppo.train` feeds to the environment in its in-training evaluation (deterministic) and in
  trajectory collection (sampling), including the observation-normalisation flags at the three call sites;
* §5 the actor never sees an observation outside `[-clip, clip]` however far the raw observation is from the training range;
  the returned action is inside `[low, high]`, oriented `tanh = -1 ↦ low`, `tanh = 1 ↦ high`;
* §6 `PPOResult.policy` wires the Policy to the configuration / state that `train` used.

Supported class: gaussian head with `STATE_INDEPENDENT_STD=True` (parameter dict `Dense_0 … Dense_n`, `log_std`). -/

namespace Rex.C20

open Rex.Gen.Policy Rex.Policy

/-! ## §1 activation tables -/

theorem lookup_cons_ite {α β} [BEq α] [LawfulBEq α] [DecidableEq α] (a k : α) (v : β) (t : List (α × β)) :
    List.lookup a ((k, v) :: t) = if a = k then some v else List.lookup a t := by
  by_cases h : a = k
  · simp [List.lookup, h]
  · have hb : (a == k) = false := by simpa using h
    simp [List.lookup, hb, h]

theorem activation_tables_agree (name : String) :
    pa_act_table.lookup name = ac_act_table.lookup name := by
  simp only [pa_act_table, ac_act_table, lookup_cons_ite, List.lookup_nil]
  by_cases h1 : name = "tanh" <;> by_cases h2 : name = "relu" <;> by_cases h3 : name = "gelu" <;>
    by_cases h4 : name = "softplus" <;> simp [h1, h2, h3, h4]

/-! ## §2 the hand-written forward pass = the Actor's loop = a fold over the layer list -/

variable {L S V ρ : Type}

theorem loopOpt_succ {σ} (f : σ → Nat → Option σ) (m : Nat) (x : σ) :
    loopOpt f (m + 1) x = (loopOpt f m x).bind (f · m) := by
  simp [loopOpt, List.range_succ, List.foldl_append]

theorem getDense_nat (p : ActorParams L S) (k : Nat) : p.getDense (k : Int) = p.dense[k]? := by
  simp only [ActorParams.getDense, Int.toNat_natCast]
  split
  · omega
  · rfl

theorem num_layers_eq {strIn} (h : StrInOk strIn) (p : ActorParams L S) :
    numLayers strIn p = (p.dense.length : Int) := by
  have h1 : ∀ k ∈ (List.range p.dense.length).map denseKey, pa_is_dense_key strIn k = true := by
    intro k hk
    obtain ⟨i, _, rfl⟩ := List.mem_map.mp hk
    simp [pa_is_dense_key, h.dense, h.refl]
  have h2 : pa_is_dense_key strIn logStdKey = false := by simp [pa_is_dense_key, h.logStd]
  simp [numLayers, ActorParams.keys, List.filter_append, List.filter_eq_self.mpr h1, h2]

theorem mlpO_of_ne_nil (dense : L → V → V) (ao : Option (V → V)) (hidden : List L) (out : L) (x : V) (h : hidden ≠ []) :
    mlpO dense ao hidden out x = ao.map fun act => mlp dense act hidden out x := by
  cases hidden with
  | nil => exact absurd rfl h
  | cons _ _ => rfl

/-- the index loop of the policy over the first `m` hidden layers = fold over `hidden.take m` -/
theorem policy_loop (dense : L → V → V) (interp : String → V → V) (name : String) (hidden : List L) (out : L) (ls : S)
    (m : Nat) (hm : m ≤ hidden.length) (x : V) :
    loopOpt (policyHiddenStep dense interp name ⟨hidden ++ [out], ls⟩) m x =
      if m = 0 then some x else
        (actOf interp pa_act_table name).map fun act => (hidden.take m).foldl (fun x l => act (dense l x)) x := by
  induction m with
  | zero => simp [loopOpt]
  | succ m ih =>
    rw [loopOpt_succ, ih (by omega)]
    have hget : (⟨hidden ++ [out], ls⟩ : ActorParams L S).getDense (pa_hidden_key (m : Int)) = some hidden[m] := by
      simp only [pa_hidden_key, getDense_nat]
      rw [List.getElem?_append_left (by omega)]
      exact List.getElem?_eq_getElem (by omega)
    have htake : hidden.take (m + 1) = hidden.take m ++ [hidden[m]] := by
      rw [List.take_succ_eq_append_getElem (by omega)]
    have hstep : ∀ y, policyHiddenStep dense interp name ⟨hidden ++ [out], ls⟩ y m =
        (actOf interp pa_act_table name).map fun act => act (dense hidden[m] y) := by
      intro y
      simp only [policyHiddenStep, hget, pa_hidden_act, pa_hidden_dense, Option.bind_some]
    simp only [hstep]
    cases actOf interp pa_act_table name with
    | none => by_cases h0 : m = 0 <;> simp [h0]
    | some act =>
      by_cases h0 : m = 0
      · subst h0
        have h1 : List.take 1 hidden = [hidden[0]] := by simpa using htake
        simp [h1]
      · simp only [h0, if_false, Option.map_some, Option.bind_some, Nat.add_eq_zero_iff, Nat.one_ne_zero, and_false]
        rw [htake, List.foldl_append]
        rfl

theorem policy_mean_eq_mlp {strIn} (h : StrInOk strIn) (dense : L → V → V) (interp : String → V → V) (name : String)
    (hidden : List L) (out : L) (ls : S) (x : V) :
    policyMean strIn dense interp name ⟨hidden ++ [out], ls⟩ x =
      mlpO dense (actOf interp pa_act_table name) hidden out x := by
  have hn : numLayers strIn (⟨hidden ++ [out], ls⟩ : ActorParams L S) = ((hidden.length + 1 : Nat) : Int) := by
    rw [num_layers_eq h]; simp
  have hr : (pa_range ((hidden.length + 1 : Nat) : Int)).toNat = hidden.length := by
    simp only [pa_range]; omega
  have hf : (⟨hidden ++ [out], ls⟩ : ActorParams L S).getDense (pa_final_key ((hidden.length + 1 : Nat) : Int)) = some out := by
    have : pa_final_key ((hidden.length + 1 : Nat) : Int) = (hidden.length : Int) := by simp only [pa_final_key]; omega
    rw [this, getDense_nat]; simp
  simp only [policyMean, hn, hr, hf, pa_x0, pa_mean, policy_loop dense interp name hidden out ls hidden.length (Nat.le_refl _)]
  cases hidden with
  | nil => simp [mlpO]
  | cons l t => cases actOf interp pa_act_table name <;> simp [mlpO, mlp]

/-- the Actor's loop: after `m` iterations `m` Dense modules have been created -/
theorem actor_loop (dense : L → V → V) (interp : String → V → V) (name : String) (hidden : List L) (out : L) (ls : S)
    (m : Nat) (hm : m ≤ hidden.length) (x : V) :
    loopOpt (actorHiddenStep dense interp name ⟨hidden ++ [out], ls⟩) m (x, 0) =
      if m = 0 then some (x, 0) else
        (actOf interp ac_act_table name).map fun act => ((hidden.take m).foldl (fun x l => act (dense l x)) x, m) := by
  induction m with
  | zero => simp [loopOpt]
  | succ m ih =>
    rw [loopOpt_succ, ih (by omega)]
    have hget : (⟨hidden ++ [out], ls⟩ : ActorParams L S).getDense (m : Int) = some hidden[m] := by
      simp only [getDense_nat]
      rw [List.getElem?_append_left (by omega)]
      exact List.getElem?_eq_getElem (by omega)
    have htake : hidden.take (m + 1) = hidden.take m ++ [hidden[m]] := by
      rw [List.take_succ_eq_append_getElem (by omega)]
    have hstep : ∀ y, actorHiddenStep dense interp name ⟨hidden ++ [out], ls⟩ (y, m) m =
        (actOf interp ac_act_table name).map fun act => (act (dense hidden[m] y), m + 1) := by
      intro y
      simp only [actorHiddenStep, hget, ac_hidden_dense, Option.bind_some]
    cases hao : actOf interp ac_act_table name with
    | none =>
      by_cases h0 : m = 0
      · subst h0; simp [hstep, hao]
      · simp [h0]
    | some act =>
      by_cases h0 : m = 0
      · subst h0
        have h1 : List.take 1 hidden = [hidden[0]] := by simpa using htake
        simp [h1, hstep, hao]
      · simp only [h0, if_false, Option.map_some, Option.bind_some, Nat.add_eq_zero_iff, Nat.one_ne_zero, and_false, hstep, hao]
        rw [htake, List.foldl_append]
        rfl

theorem actor_mean_eq_mlp (dense : L → V → V) (interp : String → V → V) (name : String)
    (hidden : List L) (out : L) (ls : S) (x : V) :
    actorMean dense interp name ⟨hidden ++ [out], ls⟩ (hidden.length : Int) x =
      mlpO dense (actOf interp ac_act_table name) hidden out x := by
  have hr : (ac_range (hidden.length : Int)).toNat = hidden.length := by simp [ac_range]
  have hf : (⟨hidden ++ [out], ls⟩ : ActorParams L S).getDense (hidden.length : Int) = some out := by
    rw [getDense_nat]; simp
  simp only [actorMean, hr, actor_loop dense interp name hidden out ls hidden.length (Nat.le_refl _)]
  by_cases h0 : hidden.length = 0
  · have : hidden = [] := List.length_eq_zero_iff.mp h0
    subst this
    simp [mlpO, ac_mean, ActorParams.getDense]
  · rw [mlpO_of_ne_nil _ _ _ _ _ (fun hn => h0 (by simp [hn]))]
    simp only [h0, if_false, List.take_length]
    cases actOf interp ac_act_table name with
    | none => simp
    | some act => simp only [Option.map_some, Option.bind_some, hf, ac_mean, mlp]

/-- **policy_eq_actor** -/
theorem policy_eq_actor {strIn} (h : StrInOk strIn) (dense : L → V → V) (interp : String → V → V) (name : String)
    (hidden : List L) (out : L) (ls : S) (x : V) :
    policyMean strIn dense interp name ⟨hidden ++ [out], ls⟩ x =
      actorMean dense interp name ⟨hidden ++ [out], ls⟩ (hidden.length : Int) x := by
  rw [policy_mean_eq_mlp h, actor_mean_eq_mlp]
  simp only [actOf, activation_tables_agree]

/-- No exception for the supported configurations: for each of the four activation names and every depth the forward pass
returns a value (so the equalities above are not equalities between two failures). -/
theorem policy_mean_defined {strIn} (h : StrInOk strIn) (dense : L → V → V) (interp : String → V → V) (name : String)
    (hname : name ∈ ["relu", "tanh", "gelu", "softplus"]) (hidden : List L) (out : L) (ls : S) (x : V) :
    ∃ act, actOf interp pa_act_table name = some act ∧
      policyMean strIn dense interp name ⟨hidden ++ [out], ls⟩ x = some (mlp dense act hidden out x) := by
  rw [policy_mean_eq_mlp h]
  have hl : ∃ fn, pa_act_table.lookup name = some fn := by
    simp only [List.mem_cons, List.not_mem_nil, or_false] at hname
    rcases hname with rfl | rfl | rfl | rfl <;> simp [pa_act_table, lookup_cons_ite]
  obtain ⟨fn, hfn⟩ := hl
  refine ⟨interp fn, by simp [actOf, hfn], ?_⟩
  cases hidden with
  | nil => simp [mlpO, mlp]
  | cons l t => simp [mlpO, actOf, hfn]

/-- Non-vacuity of `StrInOk`: a function that agrees with Python's substring test on all keys of an Actor's parameter dict. -/
theorem strInOk_example : StrInOk (fun a b => a == b || (a == "Dense" && b != logStdKey)) := by
  refine ⟨fun i => ?_, by decide, fun k => by simp⟩
  have hne : denseKey i ≠ logStdKey := by
    intro h
    have := congrArg String.toList h
    simp [denseKey, logStdKey, String.toList_append] at this
  simp [hne]

/-- Every activation name of the table reaches the fold (no exception), e.g. `"gelu"`. -/
example {strIn} (h : StrInOk strIn) (dense : Nat → Nat → Nat) (interp : String → Nat → Nat) (x : Nat) :
    policyMean strIn dense interp "gelu" (⟨[1, 2] ++ [3], ()⟩ : ActorParams Nat Unit) x =
      some (mlp dense (interp "nn.gelu") [1, 2] 3 x) := by
  rw [policy_mean_eq_mlp h]
  simp [mlpO, actOf, pa_act_table, lookup_cons_ite]

/-- The depth hypothesis is needed: an Actor built with fewer hidden layers than the dict has Dense entries computes
something else (here `dense l x = l + x`, identity activations, dict `Dense_0..Dense_2 = 1, 2, 4`, Actor depth 1). -/
theorem policy_ne_actor_wrong_depth :
    policyMean (fun a b => a == b || (a == "Dense" && b != logStdKey)) (fun l x => l + x) (fun _ => id) "relu"
        (⟨[1, 2] ++ [4], ()⟩ : ActorParams Nat Unit) 0 = some 7 ∧
    actorMean (fun l x => l + x) (fun _ => id) "relu" (⟨[1, 2] ++ [4], ()⟩ : ActorParams Nat Unit) 1 0 = some 3 := by
  constructor
  · rw [policy_mean_eq_mlp strInOk_example]
    simp [mlpO, mlp, actOf, pa_act_table, lookup_cons_ite]
  · simp [actorMean, ac_range, loopOpt, List.range_succ, actorHiddenStep, ActorParams.getDense, actOf, ac_act_table,
      ac_hidden_dense, ac_mean]

/-! ## §3 same Gaussian -/

/-- The distribution the policy samples from has the actor distribution's `loc` and `scale` (= leafwise `exp log_std`). -/
theorem same_gaussian {α : Type} (exp : α → α) (logStd : List α) (m : V) :
    (⟨pa_loc m, logStd.map (pa_scale exp)⟩ : Gaussian V (List α)) = ⟨ac_loc m, logStd.map (ac_scale exp)⟩ := rfl

/-- the scale really is `exp log_std`: positive, and its logarithm is the trained parameter -/
theorem std_is_exp_log_std (logStd : ℝ) :
    pa_scale Real.exp logStd = Real.exp logStd ∧ 0 < pa_scale Real.exp logStd ∧
      Real.log (pa_scale Real.exp logStd) = logStd ∧ pa_scale Real.exp logStd = ac_scale Real.exp logStd :=
  ⟨rfl, Real.exp_pos _, Real.log_exp _, rfl⟩

/-- `Policy.apply_actor` without rng returns the mean of the Actor's distribution; with an rng it returns
`pi.sample(seed=rng)` of the Actor's distribution `pi` (same `loc`, same `scale`, same key). -/
theorem apply_actor_eq_actor {α : Type} {strIn} (h : StrInOk strIn) (dense : L → V → V) (interp : String → V → V)
    (sample : Gaussian V (List α) → ρ → V) (exp : α → α) (name : String) (hidden : List L) (out : L) (ls : List α) (x : V) :
    applyActor strIn dense interp sample exp name ⟨hidden ++ [out], ls⟩ x none =
        (actorPi dense interp exp name ⟨hidden ++ [out], ls⟩ (hidden.length : Int) x).map (·.loc) ∧
    ∀ r : ρ, applyActor strIn dense interp sample exp name ⟨hidden ++ [out], ls⟩ x (some r) =
        (actorPi dense interp exp name ⟨hidden ++ [out], ls⟩ (hidden.length : Int) x).map (sample · r) := by
  simp only [applyActor, actorPi, policy_eq_actor h]
  cases actorMean dense interp name ⟨hidden ++ [out], ls⟩ (hidden.length : Int) x with
  | none => simp
  | some m =>
    have hg := same_gaussian (V := V) exp ls m
    simp only [pa_loc, ac_loc] at hg
    simp [policyHead, pa_use_rng, pa_return, pa_det, pa_sampled, pa_loc, ac_return, ac_loc, hg]

/-! ## §4 `get_action` = the training-time paths -/

section Pipeline
variable {α : Type} [Add α] [Sub α] [Mul α] [Div α] [Neg α] [NatCast α] [Max α] [Min α]

/-- the observation-normalisation flags agree at all call sites: exported policy, in-training evaluation,
`NormalizeVecObservationWrapper.step` / `.reset` (what the actor was trained on); clipping is on everywhere. -/
theorem normalize_flags_agree :
    (ga_norm_clip, ga_norm_submean) = (ev_norm_clip, ev_norm_submean) ∧
    (ga_norm_clip, ga_norm_submean) = (wr_norm_clip, wr_norm_submean) ∧
    (ga_norm_clip, ga_norm_submean) = (wr_reset_norm_clip, wr_reset_norm_submean) ∧ ga_norm_clip = true := by
  decide

/-- **get_action_pipeline (deterministic)**: for every raw observation, `policy.get_action(obs)` is exactly the action that
the in-training evaluation of `ppo.train` applies to the base environment with the same parameters and scaling state. -/
theorem get_action_eq_eval_path (E : Env α L ρ) (h : StrInOk E.strIn) (name : String) (hidden : List L) (out : L)
    (ls : List α) (ns : Option (NormState α)) (sq : SquashState α) (zeros obs : List α) :
    getAction E ⟨some sq, ns, some ⟨hidden ++ [out], ls⟩, name⟩ zeros obs none =
      evalPathAction E name (hidden.length : Int) ⟨hidden ++ [out], ls⟩ ns sq obs := by
  have ha := fun x => (apply_actor_eq_actor h E.dense E.interp E.sample E.exp name hidden out ls x).1
  cases ns with
  | none =>
    simp only [getAction, evalPathAction, ga_norm_obs, ga_action0, ga_action1, ga_return, wr_step_action, ev_action,
      Option.isSome_none, Option.isSome_some, if_true, Option.bind_some, Bool.false_eq_true, if_false, ha]
    cases actorPi E.dense E.interp E.exp name ⟨hidden ++ [out], ls⟩ (hidden.length : Int) obs <;> simp
  | some ns =>
    simp only [getAction, evalPathAction, ga_norm_obs, ga_action0, ga_action1, ga_return, wr_step_action, ev_action,
      ev_norm_clip, ev_norm_submean, Option.isSome_some, if_true, Option.bind_some, Option.map_some, ha]
    cases actorPi E.dense E.interp E.exp name ⟨hidden ++ [out], ls⟩ (hidden.length : Int)
      (normalize E.sqrt ns obs true true) <;> simp

/-- **get_action_pipeline (sampling)**: with an rng, `policy.get_action(obs, rng)` is exactly the action trajectory
collection applies to the base environment when it draws from the Actor's Gaussian with the same key. -/
theorem get_action_eq_train_path (E : Env α L ρ) (h : StrInOk E.strIn) (name : String) (hidden : List L) (out : L)
    (ls : List α) (ns : Option (NormState α)) (sq : SquashState α) (zeros obs : List α) (rng : ρ) :
    getAction E ⟨some sq, ns, some ⟨hidden ++ [out], ls⟩, name⟩ zeros obs (some rng) =
      trainPathAction E name (hidden.length : Int) ⟨hidden ++ [out], ls⟩ ns sq obs rng := by
  have ha := fun x => (apply_actor_eq_actor h E.dense E.interp E.sample E.exp name hidden out ls x).2
  cases ns with
  | none =>
    simp only [getAction, trainPathAction, ga_norm_obs, ga_action0, ga_action1, ga_return, wr_step_action, tr_action,
      Option.isSome_none, Option.isSome_some, if_true, Option.bind_some, Bool.false_eq_true, if_false, ha]
    cases actorPi E.dense E.interp E.exp name ⟨hidden ++ [out], ls⟩ (hidden.length : Int) obs <;> simp
  | some ns =>
    simp only [getAction, trainPathAction, ga_norm_obs, ga_action0, ga_action1, ga_return, wr_step_action, tr_action,
      wr_norm_clip, wr_norm_submean, Option.isSome_some, if_true, Option.bind_some, Option.map_some, ha]
    cases actorPi E.dense E.interp E.exp name ⟨hidden ++ [out], ls⟩ (hidden.length : Int)
      (normalize E.sqrt ns obs true true) <;> simp

end Pipeline

/-! ## §5 what the actor sees and what the environment gets, for observations arbitrarily far from the training range -/

section Field
variable {α : Type} [Field α] [LinearOrder α] [IsStrictOrderedRing α]

/-- With clipping on, a normalised observation leaf lies in `[-clip, clip]` whatever the raw value, mean and variance. -/
theorem normalized_leaf_bounded (sqrt : α → α) (mean var c x : α) (submean : Bool) (hc : 0 ≤ c) :
    -c ≤ normalizeScalar sqrt mean var c true submean x ∧ normalizeScalar sqrt mean var c true submean x ≤ c := by
  simp only [normalizeScalar, nv_if_clip, nv_clip, nv_return, Rex.clip, if_true]
  exact ⟨le_min (le_max_right _ _) (by linarith), min_le_right _ _⟩

omit [IsStrictOrderedRing α] in
/-- Inside the clip range normalisation is the affine map `(x - mean) / sqrt (var + 1e-8)`. -/
theorem normalized_leaf_in_range (sqrt : α → α) (mean var c x : α)
    (h : -c ≤ (x - mean) / sqrt (var + 1 / 100000000) ∧ (x - mean) / sqrt (var + 1 / 100000000) ≤ c) :
    normalizeScalar sqrt mean var c true true x = (x - mean) / sqrt (var + 1 / 100000000) := by
  simp only [normalizeScalar, nv_if_clip, nv_if_submean, nv_sub, nv_div, nv_clip, nv_return, Rex.clip, if_true,
    Nat.cast_one, Nat.cast_ofNat]
  rw [max_eq_left h.1, min_eq_left h.2]

/-- Outside the clip range it saturates at `±clip` (this is what distinguishes `clip=True` from `clip=False`). -/
theorem normalized_leaf_saturates (sqrt : α → α) (mean var c x : α) (hc : 0 ≤ c)
    (h : c ≤ (x - mean) / sqrt (var + 1 / 100000000)) :
    normalizeScalar sqrt mean var c true true x = c := by
  simp only [normalizeScalar, nv_if_clip, nv_if_submean, nv_sub, nv_div, nv_clip, nv_return, Rex.clip, if_true,
    Nat.cast_one, Nat.cast_ofNat]
  rw [max_eq_left (by linarith), min_eq_right h]

/-- **actor_input_bounded**: every leaf of the observation that `Policy.get_action` hands to the network is in
`[-clip, clip]`, for every raw observation (far outside the training range included). -/
theorem actor_input_bounded (sqrt : α → α) (ns : NormState α) (obs : List α) (hc : 0 ≤ ns.clip) :
    ∀ y ∈ Rex.Policy.normalize sqrt ns obs ga_norm_clip ga_norm_submean, -ns.clip ≤ y ∧ y ≤ ns.clip := by
  intro y hy
  simp only [Rex.Policy.normalize, ga_norm_clip, ga_norm_submean] at hy
  obtain ⟨i, hi, rfl⟩ := List.mem_iff_getElem.mp hy
  simp only [List.getElem_zipWith]
  exact normalized_leaf_bounded sqrt _ _ _ _ _ hc

/-- The action leaf handed to the environment is inside the action box, squashed or clipped. -/
theorem unsquash_leaf_in_bounds (tanh : α → α) (squash : Bool) (low high x : α) (hlh : low ≤ high)
    (ht : -1 ≤ tanh x ∧ tanh x ≤ 1) :
    low ≤ unsquashScalar tanh squash low high x ∧ unsquashScalar tanh squash low high x ≤ high := by
  cases squash with
  | false =>
    simp only [unsquashScalar, us_if_squash, us_clip, us_return, Rex.clip, Bool.false_eq_true, if_false]
    exact ⟨le_min (le_max_right _ _) hlh, min_le_right _ _⟩
  | true =>
    simp only [unsquashScalar, us_if_squash, us_scale, us_tanh, us_return, if_true, Nat.cast_one, Nat.cast_ofNat]
    have h0 : 0 ≤ high - low := sub_nonneg.mpr hlh
    constructor <;> nlinarith [ht.1, ht.2, mul_nonneg (by linarith : (0:α) ≤ tanh x + 1) h0,
      mul_nonneg (by linarith : (0:α) ≤ 1 - tanh x) h0]

/-- Orientation of the squashing: `tanh = -1 ↦ low`, `tanh = 0 ↦ midpoint`, `tanh = 1 ↦ high`. -/
theorem unsquash_leaf_endpoints (tanh : α → α) (low high x : α) :
    (tanh x = -1 → unsquashScalar tanh true low high x = low) ∧
    (tanh x = 0 → unsquashScalar tanh true low high x = (low + high) / 2) ∧
    (tanh x = 1 → unsquashScalar tanh true low high x = high) := by
  simp only [unsquashScalar, us_if_squash, us_scale, us_tanh, us_return, if_true, Nat.cast_one, Nat.cast_ofNat]
  refine ⟨fun h => ?_, fun h => ?_, fun h => ?_⟩ <;> rw [h] <;> ring

/-- … and it is monotone in the pre-squash action when `low ≤ high` (so a larger actor output is a larger env action). -/
theorem unsquash_leaf_mono (tanh : α → α) (low high x y : α) (hlh : low ≤ high) (hxy : tanh x ≤ tanh y) :
    unsquashScalar tanh true low high x ≤ unsquashScalar tanh true low high y := by
  simp only [unsquashScalar, us_if_squash, us_scale, us_tanh, us_return, if_true, Nat.cast_one, Nat.cast_ofNat]
  have h0 : 0 ≤ high - low := sub_nonneg.mpr hlh
  nlinarith [mul_le_mul_of_nonneg_right hxy h0]

omit [IsStrictOrderedRing α] in
/-- Without squashing an in-range actor output is passed through unchanged. -/
theorem unsquash_leaf_clip_id (tanh : α → α) (low high x : α) (h : low ≤ x ∧ x ≤ high) :
    unsquashScalar tanh false low high x = x := by
  simp only [unsquashScalar, us_if_squash, us_clip, us_return, Rex.clip, Bool.false_eq_true, if_false]
  rw [max_eq_left h.1, min_eq_left h.2]

end Field

/-- over ℝ with the real `tanh`: the bounds hypothesis of `unsquash_leaf_in_bounds` holds for every actor output -/
theorem unsquash_real_in_bounds (squash : Bool) (low high x : ℝ) (hlh : low ≤ high) :
    low ≤ unsquashScalar Real.tanh squash low high x ∧ unsquashScalar Real.tanh squash low high x ≤ high :=
  unsquash_leaf_in_bounds Real.tanh squash low high x hlh ⟨(Real.neg_one_lt_tanh x).le, (Real.tanh_lt_one x).le⟩

/-- hypotheses are satisfiable -/
example : (0 : ℚ) ≤ 10 ∧ (-2 : ℚ) ≤ 1 := by norm_num

/-! ## §6 `PPOResult.policy` → `Policy` wiring -/

/-- The exported policy is built from the configuration fields the Actor was built with in `train`, from the parameter
tree the train state was created with, from the aux entries the wrappers wrote (the action scaling is vectorised over the
environments: the first environment's row `x[..., 0, :]` is selected), and always with the gaussian head. -/
theorem policy_wiring :
    pr_hidden_activation = "self" :: tr_actor_hidden_activation ∧
    pr_state_independent_std = "self" :: tr_actor_state_independent_std ∧
    pr_output_activation = "gaussian" ∧
    pr_model = ["self", "runner_state", "train_state", "params", "['params']"] ∧
    tr_train_state_params = ["network_params"] ∧
    pr_obs_scaling = ["self", "obs_scaling"] ∧ [pr_obs_key] = wr_obs_keys ∧
    pr_act_scaling = ["self", "act_scaling"] ∧ [pr_act_key] = wr_act_keys ∧
    pr_act_select = "x[..., 0, :]" := by
  refine ⟨rfl, rfl, rfl, rfl, rfl, rfl, rfl, rfl, rfl, rfl⟩

end Rex.C20
