import RexModel.Lib.Transform
import Mathlib.Algebra.Order.Field.Basic
import Mathlib.Analysis.SpecialFunctions.Log.Basic
import Mathlib.Tactic.Ring
import Mathlib.Tactic.FieldSimp
import Mathlib.Tactic.Linarith

/-! # C17 — parameter transforms are invertible and compose in order

All statements are about the definitions in `RexModel/Gen/Transform.lean` (regenerated from
`rex/base.py` on every run) and the plumbing in `RexModel/Lib/Transform.lean`. -/

namespace Rex.C17

open Rex.Gen.Transform Rex.Transform

section Field
variable {α : Type} [Field α] [LinearOrder α] [IsStrictOrderedRing α]

/-- `inv (apply x) = x` for Denormalize built from bounds with `mn < mx`. -/
theorem denorm_inv_apply (mn mx x : α) (h : mn < mx) :
    denorm_normalize (denorm_denormalize x (denorm_offset mn mx) (denorm_scale mn mx))
      (denorm_offset mn mx) (denorm_scale mn mx) = x := by
  have h2 : mx - mn ≠ 0 := sub_ne_zero.mpr (ne_of_gt h)
  simp only [denorm_normalize, denorm_denormalize, denorm_offset, denorm_scale, Nat.cast_ofNat]
  field_simp
  ring

/-- `apply (inv y) = y`. -/
theorem denorm_apply_inv (mn mx y : α) (h : mn < mx) :
    denorm_denormalize (denorm_normalize y (denorm_offset mn mx) (denorm_scale mn mx))
      (denorm_offset mn mx) (denorm_scale mn mx) = y := by
  have h2 : mx - mn ≠ 0 := sub_ne_zero.mpr (ne_of_gt h)
  simp only [denorm_normalize, denorm_denormalize, denorm_offset, denorm_scale, Nat.cast_ofNat]
  field_simp
  ring

/-- `-1 ↦ min`, `+1 ↦ max`. -/
theorem denorm_endpoints (mn mx : α) :
    denorm_denormalize (-1) (denorm_offset mn mx) (denorm_scale mn mx) = mn ∧
    denorm_denormalize 1 (denorm_offset mn mx) (denorm_scale mn mx) = mx := by
  simp only [denorm_denormalize, denorm_offset, denorm_scale, Nat.cast_ofNat]
  constructor <;> ring

/-- strictly monotone in between (hence monotone). -/
theorem denorm_strict_mono (mn mx x y : α) (h : mn < mx) (hxy : x < y) :
    denorm_denormalize x (denorm_offset mn mx) (denorm_scale mn mx)
      < denorm_denormalize y (denorm_offset mn mx) (denorm_scale mn mx) := by
  have hs : 0 < (mx - mn) / 2 := by
    have : 0 < mx - mn := sub_pos.mpr h
    positivity
  simp only [denorm_denormalize, denorm_offset, denorm_scale, Nat.cast_ofNat]
  have := mul_lt_mul_of_pos_right hxy hs
  linarith

/-- values in [-1, 1] land in [min, max]. -/
theorem denorm_range (mn mx x : α) (h : mn < mx) (hx : -1 ≤ x ∧ x ≤ 1) :
    mn ≤ denorm_denormalize x (denorm_offset mn mx) (denorm_scale mn mx) ∧
    denorm_denormalize x (denorm_offset mn mx) (denorm_scale mn mx) ≤ mx := by
  have hs : 0 < (mx - mn) / 2 := by
    have : 0 < mx - mn := sub_pos.mpr h
    positivity
  simp only [denorm_denormalize, denorm_offset, denorm_scale, Nat.cast_ofNat]
  constructor
  · have := mul_le_mul_of_nonneg_right hx.1 hs.le
    linarith
  · have := mul_le_mul_of_nonneg_right hx.2 hs.le
    linarith

example : (0 : ℚ) < 3 ∧ (-1 : ℚ) ≤ 0 ∧ (0 : ℚ) ≤ 1 := by norm_num  -- hypotheses are satisfiable

/-- leafwise version over whole (flattened) parameter trees of equal structure. -/
theorem denorm_tree_inv_apply (mins maxs xs : List α)
    (hlen : mins.length = xs.length) (hlen' : maxs.length = xs.length)
    (h : ∀ i (h1 : i < mins.length) (h2 : i < maxs.length), mins[i] < maxs[i]) :
    denormInv (denormInit mins maxs) (denormApply (denormInit mins maxs) xs) = xs := by
  apply List.ext_getElem
  · simp [denormInv, denormApply, denormInit, hlen, hlen']
  · intro i h1 h2
    simp only [denormInv, denormApply, denormInit, List.getElem_zipWith]
    exact denorm_inv_apply _ _ _ (h i (by omega) (by omega))

end Field

/-- Exponential: `inv (apply x) = x` for every real `x`. -/
theorem exp_inv_apply (x : ℝ) : exp_inv Real.log (exp_apply Real.exp x) = x := by
  simp [exp_inv, exp_apply]

/-- Exponential: `apply (inv y) = y` on its domain `y > 0`. -/
theorem exp_apply_inv (y : ℝ) (hy : 0 < y) : exp_apply Real.exp (exp_inv Real.log y) = y := by
  simp [exp_inv, exp_apply, Real.exp_log hy]

/-- Chain applies its members first-to-last … -/
theorem chain_order_apply {P} (ts : List (T P)) (x : P) :
    chainApplyOver (chain_apply_iter ts) x = ts.foldl (fun acc t => t.apply acc) x := rfl

/-- … and inverts them last-to-first. -/
theorem chain_order_inv {P} (ts : List (T P)) (y : P) :
    chainInvOver (chain_inv_iter ts) y = ts.foldr (fun t acc => t.inv acc) y := by
  simp [chainInvOver, chain_inv_iter, List.foldl_reverse]

/-- If every member is invertible on a domain `D` that the members preserve, so is the chain. -/
theorem chain_inv_apply {P} (D : P → Prop) (ts : List (T P))
    (hinv : ∀ t ∈ ts, ∀ x, D x → t.inv (t.apply x) = x)
    (hdom : ∀ t ∈ ts, ∀ x, D x → D (t.apply x)) (x : P) (hx : D x) :
    chainInvOver (chain_inv_iter ts) (chainApplyOver (chain_apply_iter ts) x) = x := by
  rw [chain_order_inv, chain_order_apply]
  induction ts generalizing x with
  | nil => rfl
  | cons t ts ih =>
    simp only [List.foldl_cons, List.foldr_cons]
    rw [ih (fun t' h' => hinv t' (List.mem_cons_of_mem _ h')) (fun t' h' => hdom t' (List.mem_cons_of_mem _ h'))
      (t.apply x) (hdom t List.mem_cons_self x hx)]
    exact hinv t List.mem_cons_self x hx

/-- Non-vacuity: a chain [Denormalize(0,4), Denormalize(1,3)] on ℚ. -/
example : chainInvOver (chain_inv_iter
      [⟨fun x => denorm_denormalize x (denorm_offset (0:ℚ) 4) (denorm_scale (0:ℚ) 4),
        fun x => denorm_normalize x (denorm_offset (0:ℚ) 4) (denorm_scale (0:ℚ) 4)⟩,
       ⟨fun x => denorm_denormalize x (denorm_offset (1:ℚ) 3) (denorm_scale (1:ℚ) 3),
        fun x => denorm_normalize x (denorm_offset (1:ℚ) 3) (denorm_scale (1:ℚ) 3)⟩])
    (chainApplyOver (chain_apply_iter
      [⟨fun x => denorm_denormalize x (denorm_offset (0:ℚ) 4) (denorm_scale (0:ℚ) 4),
        fun x => denorm_normalize x (denorm_offset (0:ℚ) 4) (denorm_scale (0:ℚ) 4)⟩,
       ⟨fun x => denorm_denormalize x (denorm_offset (1:ℚ) 3) (denorm_scale (1:ℚ) 3),
        fun x => denorm_normalize x (denorm_offset (1:ℚ) 3) (denorm_scale (1:ℚ) 3)⟩]) (1/2)) = 1/2 := by
  apply chain_inv_apply (fun _ => True)
  · intro t ht x _
    simp only [List.mem_cons, List.not_mem_nil, or_false] at ht
    rcases ht with rfl | rfl
    · exact denorm_inv_apply 0 4 x (by norm_num)
    · exact denorm_inv_apply 1 3 x (by norm_num)
  · intros; trivial
  · trivial

theorem identity_noop {P} (x : P) : (⟨id, id⟩ : T P).inv ((⟨id, id⟩ : T P).apply x) = x := rfl

/-- Extend fills exactly the missing leaves from the base tree … -/
theorem extend_fills_missing {α} (base : List α) (opt : List (Option α)) (i : Nat)
    (hb : i < base.length) (ho : i < opt.length) (hnone : opt[i] = none) :
    (extend base opt)[i]'(by simp [extend]; omega) = base[i] := by
  simp [extend, hnone]

/-- … and leaves supplied leaves untouched. -/
theorem extend_keeps_supplied {α} (base : List α) (opt : List (Option α)) (i : Nat) (v : α)
    (hb : i < base.length) (ho : i < opt.length) (hsome : opt[i] = some v) :
    (extend base opt)[i]'(by simp [extend]; omega) = v := by
  simp [extend, hsome]

/-- `Extend.inv (Extend.apply opt) = opt` when the partial tree is aligned with the base tree. -/
theorem extend_inv_apply {α} (base : List α) (opt : List (Option α)) (hlen : base.length = opt.length) :
    filter (maskOf opt) (extend base opt) = opt := by
  apply List.ext_getElem
  · simp [filter, maskOf, extend, hlen]
  · intro i h1 h2
    simp only [filter, maskOf, extend, List.getElem_zipWith, List.getElem_map]
    cases h : opt[i] <;> simp

/-- Shared: `inv (apply x) = x` on trees whose shared leaf `i` is `none` (the form `inv` returns). -/
theorem shared_inv_apply {α} (i j : Nat) (xs : List (Option α)) (hi : i < xs.length) (hnone : xs[i] = none) :
    sharedInv i (sharedApply i j xs) = xs := by
  simp only [sharedInv, sharedApply, treeAt, List.set_set]
  apply List.ext_getElem
  · simp
  · intro k h1 h2
    by_cases hk : i = k
    · subst hk; simp [hnone]
    · simp [List.getElem_set_of_ne hk]

/-- Shared.apply writes the replacement at the shared leaf and nothing else. -/
theorem shared_apply_spec {α} (i j : Nat) (xs : List (Option α)) (hi : i < xs.length) :
    (sharedApply i j xs)[i]'(by simp [sharedApply, treeAt]; exact hi) = xs.getD j none ∧
    ∀ k (hk : k < xs.length), k ≠ i → (sharedApply i j xs)[k]'(by simp [sharedApply, treeAt]; exact hk) = xs[k] := by
  constructor
  · simp [sharedApply, treeAt]
  · intro k hk hne
    simp [sharedApply, treeAt, List.getElem_set_of_ne (Ne.symm hne)]

end Rex.C17
