import RexModel.Lib.Generator
import Mathlib.Algebra.Order.Field.Basic
import Mathlib.Tactic.Linarith
import Mathlib.Logic.Relation

/-! # C12 — generated and augmented graphs are well-formed

Statements about the model of `rex.artificial._generate_graphs` in `RexModel/Lib/Generator.lean`, whose arithmetic,
comparisons and masking `where`s are the kernels regenerated from the current source (`RexModel/Gen/Generator.lean`).
Times live in an arbitrary linearly ordered field; sampled delays are arbitrary lists (non-negative where stated:
`StaticDist.sample` clips at 0); list sizes, horizons, rates are unbounded. -/

namespace Rex.C12

open Rex.Gen.Generator Rex.Generator

set_option linter.unusedSectionVars false

variable {α : Type} [Field α] [LinearOrder α] [IsStrictOrderedRing α]

/-! ## 1. vertices: the per-node scan -/

theorem scan_length (rate tsMax : α) : ∀ (ds : List α) (p : α) (i : Int), (scanSteps rate tsMax p i ds).length = ds.length
  | [], _, _ => rfl
  | _ :: ds, _, _ => by simp [scanSteps, scan_length rate tsMax ds]

theorem scan_succ (rate tsMax p : α) (i : Int) (d : α) (ds : List α) (k : Nat) :
    (scanSteps rate tsMax p i (d :: ds))[k + 1]? =
      (scanSteps rate tsMax (step_ts_next (step_ts_start p) (step_ts_end p (step_ts_start p) d) p rate) (i + 1) ds)[k]? := by
  simp [scanSteps]

theorem scan_zero (rate tsMax p : α) (i : Int) (d : α) (ds : List α) :
    (scanSteps rate tsMax p i (d :: ds))[0]? =
      some ⟨step_seq (step_ts_start p) (step_ts_end p (step_ts_start p) d) tsMax i, step_ts_start p,
        step_ts_end p (step_ts_start p) d⟩ := by
  simp [scanSteps]

/-- **Starts at the phase**: the first vertex of a node starts at the node's phase (the initial carry of the scan). -/
theorem gen_starts_at_phase (rate tsMax phase : α) (i : Int) (ds : List α) (v : Vtx α)
    (h : (scanSteps rate tsMax phase i ds)[0]? = some v) : v.tsStart = phase := by
  cases ds with
  | nil => simp [scanSteps] at h
  | cons d ds => rw [scan_zero] at h; cases h; rfl

/-- **Duration**: vertex `k` lasts exactly the `k`-th sampled computation delay. -/
theorem gen_duration (rate tsMax : α) : ∀ (ds : List α) (p : α) (i : Int) (k : Nat) (v : Vtx α) (d : α),
    (scanSteps rate tsMax p i ds)[k]? = some v → ds[k]? = some d → v.tsEnd = v.tsStart + d
  | [], _, _, _, _, _, h, _ => by simp [scanSteps] at h
  | d0 :: ds, p, i, 0, v, d, h, hd => by
      rw [scan_zero] at h; cases h
      simp only [List.getElem?_cons_zero, Option.some.injEq] at hd; subst hd
      rfl
  | d0 :: ds, p, i, k + 1, v, d, h, hd => by
      rw [scan_succ] at h
      rw [List.getElem?_cons_succ] at hd
      exact gen_duration rate tsMax ds _ _ k v d h hd

/-- **Next-start law**: a node's next vertex starts at the later of the end of the current one and one period after
its start. -/
theorem gen_next_start (rate tsMax : α) : ∀ (ds : List α) (p : α) (i : Int) (k : Nat) (v w : Vtx α),
    (scanSteps rate tsMax p i ds)[k]? = some v → (scanSteps rate tsMax p i ds)[k + 1]? = some w →
      w.tsStart = max v.tsEnd (v.tsStart + 1 / rate)
  | [], _, _, _, _, _, h, _ => by simp [scanSteps] at h
  | [_], _, _, _, _, _, _, h => by simp [scanSteps] at h
  | d0 :: d1 :: ds, p, i, 0, v, w, h, h' => by
      rw [scan_zero] at h; cases h
      rw [scan_succ, scan_zero] at h'; cases h'
      simp [step_ts_start, step_ts_next, step_ts_end]
  | d0 :: d1 :: ds, p, i, k + 1, v, w, h, h' => by
      rw [scan_succ] at h h'
      exact gen_next_start rate tsMax (d1 :: ds) _ _ k v w h h'

/-- **Spacing**: consecutive vertices of a node start at least one period apart. -/
theorem gen_spacing (rate tsMax phase : α) (i : Int) (ds : List α) (k : Nat) (v w : Vtx α)
    (h : (scanSteps rate tsMax phase i ds)[k]? = some v) (h' : (scanSteps rate tsMax phase i ds)[k + 1]? = some w) :
    v.tsStart + 1 / rate ≤ w.tsStart := by
  rw [gen_next_start rate tsMax ds phase i k v w h h']; exact le_max_right _ _

/-- **No overlap**: a vertex never starts before the previous vertex of the same node has ended. -/
theorem gen_no_overlap (rate tsMax phase : α) (i : Int) (ds : List α) (k : Nat) (v w : Vtx α)
    (h : (scanSteps rate tsMax phase i ds)[k]? = some v) (h' : (scanSteps rate tsMax phase i ds)[k + 1]? = some w) :
    v.tsEnd ≤ w.tsStart := by
  rw [gen_next_start rate tsMax ds phase i k v w h h']; exact le_max_left _ _

/-- With a positive rate the start times of a node strictly increase (the potential used for acyclicity). -/
theorem gen_starts_strict (rate tsMax phase : α) (hr : 0 < rate) (i : Int) (ds : List α) (k : Nat) (v w : Vtx α)
    (h : (scanSteps rate tsMax phase i ds)[k]? = some v) (h' : (scanSteps rate tsMax phase i ds)[k + 1]? = some w) :
    v.tsStart < w.tsStart := by
  have := gen_spacing rate tsMax phase i ds k v w h h'
  have : 0 < 1 / rate := one_div_pos.mpr hr
  linarith

/-- **Sequence numbers**: vertex `k` is numbered `i + k` unless it ends after the horizon, in which case it is `-1`. -/
theorem gen_seq_spec (rate tsMax : α) : ∀ (ds : List α) (p : α) (i : Int) (k : Nat) (v : Vtx α),
    (scanSteps rate tsMax p i ds)[k]? = some v → v.seq = if tsMax < v.tsEnd then -1 else i + k
  | [], _, _, _, _, h => by simp [scanSteps] at h
  | d0 :: ds, p, i, 0, v, h => by
      rw [scan_zero] at h; cases h
      simp [step_seq]
  | d0 :: ds, p, i, k + 1, v, h => by
      rw [scan_succ] at h
      rw [gen_seq_spec rate tsMax ds _ _ k v h]
      push_cast
      rw [show i + 1 + (k : Int) = i + ((k : Int) + 1) by omega]

/-- **Horizon**: nothing valid ends after the requested horizon, and valid vertices are numbered by their position. -/
theorem gen_nothing_after_horizon (rate tsMax phase : α) (ds : List α) (k : Nat) (v : Vtx α)
    (h : (scanSteps rate tsMax phase 0 ds)[k]? = some v) (hv : v.seq ≠ -1) : v.tsEnd ≤ tsMax ∧ v.seq = k := by
  have := gen_seq_spec rate tsMax ds phase 0 k v h
  split at this
  · exact absurd this hv
  · exact ⟨not_lt.mp ‹_›, by simpa using this⟩

/-- with non-negative computation delays the end times of a node never decrease -/
theorem gen_ends_mono (rate tsMax phase : α) (i : Int) (ds : List α) (hd : ∀ d ∈ ds, 0 ≤ d) (k : Nat) :
    ∀ (m : Nat) (v w : Vtx α), (scanSteps rate tsMax phase i ds)[k]? = some v →
      (scanSteps rate tsMax phase i ds)[k + m]? = some w → v.tsEnd ≤ w.tsEnd
  | 0, v, w, h, h' => by rw [Nat.add_zero, h] at h'; cases h'; exact le_refl _
  | m + 1, v, w, h, h' => by
      have hlen : k + m < (scanSteps rate tsMax phase i ds).length := by
        have := (List.getElem?_eq_some_iff.mp h').1; omega
      obtain ⟨u, hu⟩ : ∃ u, (scanSteps rate tsMax phase i ds)[k + m]? = some u := ⟨_, List.getElem?_eq_getElem hlen⟩
      have h1 := gen_ends_mono rate tsMax phase i ds hd k m v u h hu
      have h2 := gen_no_overlap rate tsMax phase i ds (k + m) u w hu h'
      have hl : k + (m + 1) < ds.length := by
        have := (List.getElem?_eq_some_iff.mp h').1; rwa [scan_length] at this
      have h3 := gen_duration rate tsMax ds phase i (k + (m + 1)) w _ h' (List.getElem?_eq_getElem hl)
      have h4 : 0 ≤ ds[k + (m + 1)] := hd _ (List.getElem_mem hl)
      linarith

/-- **Valid prefix**: with non-negative computation delays, once a vertex is masked (`seq = -1`, it ends after the
horizon) every later vertex of the node is masked too; the valid vertices form a prefix. -/
theorem gen_valid_prefix (rate tsMax phase : α) (ds : List α) (hd : ∀ d ∈ ds, 0 ≤ d) (k m : Nat) (v w : Vtx α)
    (h : (scanSteps rate tsMax phase 0 ds)[k]? = some v) (h' : (scanSteps rate tsMax phase 0 ds)[k + m]? = some w)
    (hv : v.seq = -1) : w.seq = -1 := by
  have hle := gen_ends_mono rate tsMax phase 0 ds hd k m v w h h'
  have hs := gen_seq_spec rate tsMax ds phase 0 k v h
  have hw := gen_seq_spec rate tsMax ds phase 0 (k + m) w h'
  split at hs
  · rw [hw, if_pos (lt_of_lt_of_le ‹_› hle)]
  · rw [hv] at hs; omega

/-- The non-negativity of the delays is needed for `gen_valid_prefix`: with a negative sample a later vertex can end
before the horizon although an earlier one did not (integers as the time domain, rate 1, horizon 2). -/
theorem gen_valid_prefix_needs_nonneg_witness :
    (scanSteps (1 : Int) 2 0 0 [3, -2]).map (·.seq) = [-1, 1] := by decide

example : (scanSteps (1 : Int) 2 0 0 [1, 0, 1, 1]).map (·.seq) = [0, 1, -1, -1] := by decide

/-! ## 2. arrival times: sender end + sampled delay, then the FIFO running maximum -/

theorem scanl_max_spec : ∀ (r : List α) (m : α) (k : Nat) (b : α), (List.scanl max m r)[k]? = some b →
    m ≤ b ∧ (∀ j a, r[j]? = some a → j < k → a ≤ b) ∧ (b = m ∨ ∃ j, j < k ∧ r[j]? = some b)
  | [], m, 0, b, h => by
      simp at h; subst h; exact ⟨le_refl _, by intro j a _ hj; omega, Or.inl rfl⟩
  | [], m, k + 1, b, h => by simp at h
  | y :: ys, m, 0, b, h => by
      simp [List.scanl_cons] at h; subst h; exact ⟨le_refl _, by intro j a _ hj; omega, Or.inl rfl⟩
  | y :: ys, m, k + 1, b, h => by
      rw [List.scanl_cons, List.getElem?_cons_succ] at h
      obtain ⟨h1, h2, h3⟩ := scanl_max_spec ys (max m y) k b h
      refine ⟨le_trans (le_max_left _ _) h1, ?_, ?_⟩
      · intro j a hj hjk
        cases j with
        | zero => simp at hj; subst hj; exact le_trans (le_max_right _ _) h1
        | succ j => rw [List.getElem?_cons_succ] at hj; exact h2 j a hj (by omega)
      · rcases h3 with h3 | ⟨j, hj, hb⟩
        · rcases max_choice m y with hm | hm
          · exact Or.inl (by rw [h3, hm])
          · exact Or.inr ⟨0, by omega, by simp [h3, hm]⟩
        · exact Or.inr ⟨j + 1, by omega, by simpa using hb⟩

theorem fifo_length (xs : List α) : (ep_ts_recv_fifo xs).length = xs.length := by
  cases xs <;> simp [ep_ts_recv_fifo, List.length_scanl]

/-- **Running maximum**: the `k`-th arrival time is the largest of the first `k + 1` raw arrival times (and is one of
them). -/
theorem gen_recv_running_max (xs : List α) (k : Nat) (b : α) (h : (ep_ts_recv_fifo xs)[k]? = some b) :
    (∀ j a, j ≤ k → xs[j]? = some a → a ≤ b) ∧ ∃ j, j ≤ k ∧ xs[j]? = some b := by
  cases xs with
  | nil => simp [ep_ts_recv_fifo] at h
  | cons x r =>
    obtain ⟨h1, h2, h3⟩ := scanl_max_spec r x k b h
    constructor
    · intro j a hjk hj
      cases j with
      | zero => simp at hj; subst hj; exact h1
      | succ j => rw [List.getElem?_cons_succ] at hj; exact h2 j a hj (by omega)
    · rcases h3 with h3 | ⟨j, hj, hb⟩
      · exact ⟨0, by omega, by simp [h3]⟩
      · exact ⟨j + 1, by omega, by simpa using hb⟩

/-- **FIFO**: arrival times never decrease along a connection. -/
theorem gen_recv_fifo (xs : List α) (k k' : Nat) (a b : α) (hk : k ≤ k') (h : (ep_ts_recv_fifo xs)[k]? = some a)
    (h' : (ep_ts_recv_fifo xs)[k']? = some b) : a ≤ b := by
  obtain ⟨_, j, hj, ha⟩ := gen_recv_running_max xs k a h
  exact (gen_recv_running_max xs k' b h').1 j a (by omega) ha

theorem scanl_max_sorted : ∀ (r : List α) (m : α), Adj (· ≤ ·) (m :: r) → List.scanl max m r = m :: r
  | [], _, _ => by simp
  | y :: ys, m, h => by
      obtain ⟨hmy, h'⟩ := h
      rw [List.scanl_cons, max_eq_right hmy, scanl_max_sorted ys y h']

/-- The running maximum changes nothing when the raw arrival times are already in order (e.g. a constant delay). -/
theorem gen_recv_exact_when_fifo (xs : List α) (h : Adj (· ≤ ·) xs) : ep_ts_recv_fifo xs = xs := by
  cases xs with
  | nil => rfl
  | cons x r => exact scanl_max_sorted r x h

/-- **Receive after send**: with a non-negative sampled communication delay a message is received no earlier than
its sender finished (`inf` stands for `jnp.inf`, used for vertices that never ran). -/
theorem gen_recv_after_send (inf : α) (sender : List (Vtx α)) (delays : List α) (hd : ∀ d ∈ delays, 0 ≤ d)
    (hinf : ∀ v ∈ sender, v.tsEnd ≤ inf) (k : Nat) (v : Vtx α) (r : α)
    (hv : sender[k]? = some v) (hr : (arrivals inf sender delays)[k]? = some r) : v.tsEnd ≤ r := by
  have hlen : k < (List.zipWith ep_ts_recv_raw (maskedEnds inf sender) delays).length := by
    have := (List.getElem?_eq_some_iff.mp hr).1
    rwa [arrivals, fifo_length] at this
  have hk1 : k < sender.length := (List.getElem?_eq_some_iff.mp hv).1
  have hk2 : k < delays.length := by simp [maskedEnds] at hlen; omega
  have hraw : (List.zipWith ep_ts_recv_raw (maskedEnds inf sender) delays)[k]? =
      some (ep_ts_recv_raw (ep_ts_end_masked (ep_unsent v.seq) inf v.tsEnd) delays[k]) := by
    simp [List.getElem?_zipWith, maskedEnds, hv, List.getElem?_eq_getElem hk2]
  have h1 := (gen_recv_running_max _ k r hr).1 k _ (le_refl _) hraw
  have h2 : 0 ≤ delays[k] := hd _ (List.getElem_mem hk2)
  have h3 : v.tsEnd ≤ ep_ts_end_masked (ep_unsent v.seq) inf v.tsEnd := by
    unfold ep_ts_end_masked; split
    · exact hinf v (List.mem_of_getElem? hv)
    · exact le_refl _
  unfold ep_ts_recv_raw at h1
  linarith

example : ep_ts_recv_fifo [(3 : Int), 1, 2, 5, 4] = [3, 3, 3, 5, 5] := by decide

/-! ## 3. edge assignment: the carried while-loop finds the first receiver step that can take the message -/

/-- Specification (hand-written, not generated): a receiver step starting at `t` can take a message arriving at `r`
when it starts at or after the arrival — strictly after for a skipped connection. -/
def takes (skip : Bool) (t r : α) : Prop := if skip then r < t else r ≤ t

instance (skip : Bool) (t r : α) : Decidable (takes skip t r) := by unfold takes; infer_instance

/-- Specification: the index of the first receiver step that can take a message arriving at `r`, `-1` if none. -/
def firstStep (skip : Bool) (starts : List α) (r : α) : Int :=
  match starts.findIdx? (fun t => decide (takes skip t r)) with
  | some j => (j : Int)
  | none => -1

theorem while_is_larger_spec (skip : Bool) (t r : α) : while_is_larger skip t r = decide (takes skip t r) := by
  cases skip <;> simp [while_is_larger, takes]

theorem post_is_larger_spec (skip : Bool) (t r : α) : post_is_larger skip t r = decide (takes skip t r) := by
  cases skip <;> simp [post_is_larger, takes]

theorem takes_antitone (skip : Bool) (t r r' : α) (h : r ≤ r') (ht : takes skip t r') : takes skip t r := by
  cases skip
  · simp only [takes, Bool.false_eq_true, if_false] at *; exact le_trans h ht
  · simp only [takes, if_true] at *; exact lt_of_le_of_lt h ht

theorem condAt_eq (skip : Bool) (starts : List α) (dflt r : α) (s : Nat) (hs : s < starts.length) :
    condAt skip starts dflt r (s : Int) = (!(decide (takes skip (starts.getD s dflt) r) || decide (starts.length ≤ s + 1))) := by
  have hmod : while_seq_mod (s : Int) (starts.length : Int) = (s : Int) := Int.emod_eq_of_lt (by omega) (by omega)
  have hlast : while_is_last (starts.length : Int) (s : Int) = decide (starts.length ≤ s + 1) := by
    unfold while_is_last
    by_cases h : starts.length ≤ s + 1
    · rw [decide_eq_true h]; exact decide_eq_true (by omega)
    · rw [decide_eq_false h]; exact decide_eq_false (by omega)
  simp only [condAt, hmod, hlast, while_cond, while_is_larger_spec, getAt, Int.toNat_natCast]

/-- **The loop**: started at a step `s` such that no earlier step can take the message, with at least
`length - 1 - s` fuel, the while-loop stops at the first step from `s` on that can take it, or at the last step. -/
theorem whileLoop_spec (skip : Bool) (starts : List α) (dflt r : α) :
    ∀ (fuel s : Nat), s < starts.length → starts.length ≤ s + fuel + 1 →
      (∀ j t, j < s → starts[j]? = some t → ¬ takes skip t r) →
      ∃ s' : Nat, whileLoop skip starts dflt r fuel (s : Int) = (s' : Int) ∧ s ≤ s' ∧ s' < starts.length ∧
        (∀ j t, j < s' → starts[j]? = some t → ¬ takes skip t r) ∧
        (takes skip (starts.getD s' dflt) r ∨ s' + 1 = starts.length)
  | 0, s, hs, hf, hp => ⟨s, rfl, le_refl _, hs, hp, Or.inr (by omega)⟩
  | fuel + 1, s, hs, hf, hp => by
      unfold whileLoop
      rw [condAt_eq skip starts dflt r s hs]
      by_cases ht : takes skip (starts.getD s dflt) r
      · simp only [ht, decide_true, Bool.true_or, Bool.not_true, Bool.false_eq_true, if_false]
        exact ⟨s, rfl, le_refl _, hs, hp, Or.inl ht⟩
      · by_cases hl : starts.length ≤ s + 1
        · simp only [hl, decide_true, Bool.or_true, Bool.not_true, Bool.false_eq_true, if_false]
          exact ⟨s, rfl, le_refl _, hs, hp, Or.inr (by omega)⟩
        · simp only [ht, hl, decide_false, Bool.or_false, Bool.not_false, if_true]
          have hb : while_body (s : Int) = ((s + 1 : Nat) : Int) := by unfold while_body; omega
          rw [hb]
          obtain ⟨s', h1, h2, h3, h4, h5⟩ := whileLoop_spec skip starts dflt r fuel (s + 1) (by omega) (by omega) (by
            intro j t hj hjt
            by_cases hjs : j < s
            · exact hp j t hjs hjt
            · have : j = s := by omega
              subst this
              have : starts.getD j dflt = t := by simp [List.getD_eq_getElem?_getD, hjt]
              rw [← this]; exact ht)
          exact ⟨s', h1, by omega, h3, h4, h5⟩

/-- **Fuel suffices**: with fuel = number of receiver steps the modelled loop has really exited (its condition is
false at the result), so it is the `jax.lax.while_loop` and not a truncation of it. -/
theorem gen_while_fuel_sufficient (skip : Bool) (starts : List α) (dflt r : α) (s : Nat) (hs : s < starts.length) :
    condAt skip starts dflt r (whileLoop skip starts dflt r starts.length (s : Int)) = false := by
  -- run the loop on the suffix only: no claim about earlier steps is needed for termination
  have key : ∀ (fuel s : Nat), s < starts.length → starts.length ≤ s + fuel + 1 →
      condAt skip starts dflt r (whileLoop skip starts dflt r fuel (s : Int)) = false := by
    intro fuel
    induction fuel with
    | zero =>
      intro s hs hf
      simp only [whileLoop]
      rw [condAt_eq skip starts dflt r s hs]
      have : starts.length ≤ s + 1 := by omega
      simp [this]
    | succ fuel ih =>
      intro s hs hf
      unfold whileLoop
      by_cases hc : condAt skip starts dflt r (s : Int) = true
      · rw [if_pos hc]
        have hl : ¬ starts.length ≤ s + 1 := by
          rw [condAt_eq skip starts dflt r s hs] at hc
          intro hl; simp [hl] at hc
        have hb : while_body (s : Int) = ((s + 1 : Nat) : Int) := by unfold while_body; omega
        rw [hb]
        exact ih (s + 1) (by omega) (by omega)
      · rw [if_neg hc]; simpa using hc
  exact key starts.length s hs (by omega)

theorem firstStep_of_found (skip : Bool) (starts : List α) (dflt r : α) (s' : Nat) (hs : s' < starts.length)
    (hp : ∀ j t, j < s' → starts[j]? = some t → ¬ takes skip t r) (ht : takes skip (starts.getD s' dflt) r) :
    firstStep skip starts r = (s' : Int) := by
  have : starts.findIdx? (fun t => decide (takes skip t r)) = some s' := by
    rw [List.findIdx?_eq_some_iff_getElem]
    refine ⟨hs, ?_, ?_⟩
    · rw [List.getD_eq_getElem?_getD, List.getElem?_eq_getElem hs, Option.getD_some] at ht; simpa using ht
    · intro j hj
      have hjl : j < starts.length := by omega
      have := hp j (starts[j]'hjl) hj (List.getElem?_eq_getElem hjl)
      simpa using this
  simp [firstStep, this]

theorem firstStep_of_none (skip : Bool) (starts : List α) (r : α)
    (hp : ∀ (j : Nat) (t : α), starts[j]? = some t → ¬ takes skip t r) : firstStep skip starts r = -1 := by
  have : starts.findIdx? (fun t => decide (takes skip t r)) = none := by
    rw [List.findIdx?_eq_none_iff]
    intro x hx
    obtain ⟨j, hj, rfl⟩ := List.getElem_of_mem hx
    simpa using hp j _ (List.getElem?_eq_getElem hj)
  simp [firstStep, this]

theorem scanAssign_first (skip : Bool) (starts : List α) (dflt : α) :
    ∀ (recvs : List α) (s : Nat), s < starts.length → Adj (· ≤ ·) recvs →
      (∀ r0, recvs.head? = some r0 → ∀ j t, j < s → starts[j]? = some t → ¬ takes skip t r0) →
      scanAssign skip starts dflt (s : Int) recvs = recvs.map (firstStep skip starts)
  | [], _, _, _, _ => rfl
  | r :: rs, s, hs, hadj, hp => by
      obtain ⟨s', h1, h2, h3, h4, h5⟩ :=
        whileLoop_spec skip starts dflt r starts.length s hs (by omega) (hp r rfl)
      have hfirst : (scanBodySeq skip starts dflt (s : Int) r).1 = (s' : Int) := h1
      have hsecond : (scanBodySeq skip starts dflt (s : Int) r).2 = firstStep skip starts r := by
        simp only [scanBodySeq, h1, post_is_larger_spec, getAt, Int.toNat_natCast, post_seq_clipped]
        by_cases ht : takes skip (starts.getD s' dflt) r
        · rw [firstStep_of_found skip starts dflt r s' h3 h4 ht]
          rw [List.getD_eq_getElem?_getD] at ht; simp [ht]
        · have hl : s' + 1 = starts.length := h5.resolve_left ht
          rw [firstStep_of_none skip starts r]
          · rw [List.getD_eq_getElem?_getD] at ht; simp [ht]
          · intro j t hjt
            have hj : j < starts.length := (List.getElem?_eq_some_iff.mp hjt).1
            by_cases hjs : j < s'
            · exact h4 j t hjs hjt
            · have : j = s' := by omega
              subst this
              have : starts.getD j dflt = t := by simp [List.getD_eq_getElem?_getD, hjt]
              rw [← this]; exact ht
      have htail : scanAssign skip starts dflt (s' : Int) rs = rs.map (firstStep skip starts) := by
        apply scanAssign_first skip starts dflt rs s' h3
        · cases rs with
          | nil => trivial
          | cons r1 rs => exact hadj.2
        · intro r1 hr1 j t hj hjt htk
          cases rs with
          | nil => simp at hr1
          | cons r1' rs =>
            simp only [List.head?_cons, Option.some.injEq] at hr1; subst hr1
            exact h4 j t hj hjt (takes_antitone skip t r r1' hadj.1 htk)
      simp only [scanAssign, List.map_cons, hfirst, hsecond, htail]

/-- **First-step assignment (needs arrivals in order)**: if the arrival times handed to the scan are non-decreasing,
every message is assigned to the first receiver step starting at or after (strictly after, for a skipped connection)
its arrival, and to `-1` if there is no such step. The hypothesis is missing from the scan itself — see
`gen_assign_reorder_witness` — and is supplied by the running maximum (`gen_assign_first`). -/
theorem gen_assign_first_partial (skip : Bool) (starts : List α) (dflt : α) (hn : starts ≠ []) (recvs : List α)
    (hfifo : Adj (· ≤ ·) recvs) :
    scanAssign skip starts dflt ep_scan_init recvs = recvs.map (firstStep skip starts) := by
  have h0 : (ep_scan_init : Int) = ((0 : Nat) : Int) := rfl
  rw [h0]
  apply scanAssign_first skip starts dflt recvs 0 (List.length_pos_iff.mpr hn) hfifo
  intro r0 _ j t hj; omega

theorem adj_of_consecutive {β : Type} (R : β → β → Prop) :
    ∀ (l : List β), (∀ k a b, l[k]? = some a → l[k + 1]? = some b → R a b) → Adj R l
  | [], _ => trivial
  | [_], _ => trivial
  | a :: b :: l, h => ⟨h 0 a b rfl rfl, adj_of_consecutive R (b :: l) (fun k x y hx hy => h (k + 1) x y hx hy)⟩

/-- **First-step assignment** for the arrival times the generator really uses (after the FIFO running maximum):
no hypothesis on the sampled delays is needed. -/
theorem gen_assign_first (skip : Bool) (starts : List α) (dflt inf : α) (hn : starts ≠ []) (sender : List (Vtx α))
    (delays : List α) :
    scanAssign skip starts dflt ep_scan_init (arrivals inf sender delays) =
      (arrivals inf sender delays).map (firstStep skip starts) := by
  apply gen_assign_first_partial skip starts dflt hn
  apply adj_of_consecutive
  intro k a b ha hb
  exact gen_recv_fifo _ k (k + 1) a b (by omega) ha hb

/-- Out-of-order arrivals break the carried loop: receiver steps start at 0,1,2,3; the first message arrives at 25/10
(→ step 3), the second, overtaking it, at 15/10 and should go to step 2, but the carry makes the loop start at step 3
(times in tenths, integers as the time domain). This is what the running maximum repairs. -/
theorem gen_assign_reorder_witness :
    scanAssign false [(0 : Int), 10, 20, 30] 0 ep_scan_init [25, 15] = [3, 3] ∧
    [(25 : Int), 15].map (firstStep false [(0 : Int), 10, 20, 30]) = [3, 2] ∧
    scanAssign false [(0 : Int), 10, 20, 30] 0 ep_scan_init (ep_ts_recv_fifo [25, 15]) =
      (ep_ts_recv_fifo [25, 15]).map (firstStep false [(0 : Int), 10, 20, 30]) := by decide

/-- non-vacuity and the tie rule: an arrival exactly at a step start goes to that step, to the next one if skipped -/
example : scanAssign false [(0 : Int), 10, 20, 30] 0 ep_scan_init [10, 10, 25, 31] = [1, 1, 3, -1] ∧
    scanAssign true [(0 : Int), 10, 20, 30] 0 ep_scan_init [10, 10, 25, 31] = [2, 2, 3, -1] := by decide

/-! ## 4. the finished edge, the potential, acyclicity -/

theorem arrivals_length (inf : α) (sender : List (Vtx α)) (delays : List α) (hlen : delays.length = sender.length) :
    (arrivals inf sender delays).length = sender.length := by
  simp [arrivals, fifo_length, maskedEnds, hlen]

/-- **The edge as a whole** (sender vertex `k`, its arrival time `r` after the running maximum):
* `seq_out` is the sender's sequence number, `-1` if that vertex never ran / ends after the horizon;
* `ts_recv` is the arrival time, `-1` for a vertex that never ran;
* `seq_in` is the first receiver step starting at or after the arrival (strictly after, if skipped) when the message
  was sent and that receiver step is a valid one (`≤ seq_max` of the receiver), and `-1` otherwise. -/
theorem gen_edge_spec (skip : Bool) (inf tsMax dflt : α) (sender : List (Vtx α)) (delays starts : List α)
    (seqMaxIn : Int) (hn : starts ≠ []) (hlen : delays.length = sender.length) (hinf : tsMax < inf)
    (k : Nat) (v : Vtx α) (hv : sender[k]? = some v) :
    ∃ r, (arrivals inf sender delays)[k]? = some r ∧
      (genEdge skip inf tsMax dflt sender delays starts seqMaxIn).seqOut[k]? =
        some (if v.seq = -1 ∨ tsMax < v.tsEnd then -1 else v.seq) ∧
      (genEdge skip inf tsMax dflt sender delays starts seqMaxIn).tsRecv[k]? = some (if v.seq = -1 then -1 else r) ∧
      (genEdge skip inf tsMax dflt sender delays starts seqMaxIn).seqIn[k]? =
        some (if v.seq = -1 ∨ tsMax < v.tsEnd ∨ seqMaxIn < firstStep skip starts r then -1
              else firstStep skip starts r) := by
  have hk : k < sender.length := (List.getElem?_eq_some_iff.mp hv).1
  have hka : k < (arrivals inf sender delays).length := by rw [arrivals_length inf sender delays hlen]; exact hk
  refine ⟨(arrivals inf sender delays)[k], List.getElem?_eq_getElem hka, ?_, ?_, ?_⟩
  · simp only [genEdge, List.getElem?_zipWith, maskedEnds, List.getElem?_map, hv, Option.map_some]
    simp only [ep_seq_out_masked, ep_ts_end_masked, ep_unsent]
    by_cases h1 : v.seq = -1
    · simp [h1, hinf]
    · simp [h1]
  · simp only [genEdge, List.getElem?_zipWith, List.getElem?_map, hv, Option.map_some, List.getElem?_eq_getElem hka]
    simp only [ep_ts_recv_masked, ep_unsent]
    by_cases h1 : v.seq = -1
    · simp [h1]
    · simp [h1]
  · simp only [genEdge, gen_assign_first skip starts dflt inf hn, List.getElem?_zipWith, maskedEnds, List.getElem?_map,
      hv, Option.map_some, List.getElem?_eq_getElem hka]
    simp only [ep_seq_in_valid, ep_seq_in_horizon, ep_ts_end_masked, ep_unsent]
    by_cases h1 : v.seq = -1
    · simp [h1, hinf]
    · by_cases h2 : tsMax < v.tsEnd
      · simp [h1, h2]
      · by_cases h3 : seqMaxIn < firstStep skip starts (arrivals inf sender delays)[k]
        · simp [h1, h2, h3]
        · simp [h1, h2, h3]

theorem firstStep_eq_nat (skip : Bool) (starts : List α) (r : α) (j : Nat) (h : firstStep skip starts r = (j : Int)) :
    ∃ hj : j < starts.length, takes skip starts[j] r ∧ ∀ i (hi : i < j), ¬ takes skip starts[i] r := by
  unfold firstStep at h
  split at h
  · rename_i j' hf
    have : j' = j := by omega
    subst this
    obtain ⟨hj, h1, h2⟩ := List.findIdx?_eq_some_iff_getElem.mp hf
    exact ⟨hj, by simpa using h1, fun i hi => by simpa using h2 i hi⟩
  · omega

/-- **Potential along a message edge**: if message `k` is connected to receiver vertex `j`, that vertex starts no
earlier than the sender vertex started (strictly later for a skipped connection) — for non-negative delays. -/
theorem gen_edge_potential (skip : Bool) (inf tsMax dflt : α) (sender : List (Vtx α)) (delays starts : List α)
    (seqMaxIn : Int) (hlen : delays.length = sender.length) (hinf : tsMax < inf)
    (hd : ∀ d ∈ delays, 0 ≤ d) (hinf' : ∀ v ∈ sender, v.tsEnd ≤ inf) (hse : ∀ v ∈ sender, v.tsStart ≤ v.tsEnd)
    (k j : Nat) (v : Vtx α) (t : α) (hv : sender[k]? = some v) (ht : starts[j]? = some t)
    (hin : (genEdge skip inf tsMax dflt sender delays starts seqMaxIn).seqIn[k]? = some (j : Int)) :
    takes skip t v.tsStart := by
  have hn : starts ≠ [] := by intro h; rw [h] at ht; simp at ht
  obtain ⟨r, hr, _, _, h3⟩ := gen_edge_spec skip inf tsMax dflt sender delays starts seqMaxIn hn hlen hinf k v hv
  rw [hin] at h3
  have hfs : firstStep skip starts r = (j : Int) := by
    have := Option.some.inj h3
    split at this
    · omega
    · exact this.symm
  obtain ⟨hj, htk, _⟩ := firstStep_eq_nat skip starts r j hfs
  have : starts[j] = t := by
    have := List.getElem?_eq_getElem hj; rw [ht] at this; exact (Option.some.inj this).symm
  rw [this] at htk
  have h1 := gen_recv_after_send inf sender delays hd hinf' k v r hv hr
  exact takes_antitone skip t v.tsStart r (le_trans (hse v (List.mem_of_getElem? hv)) h1) htk

/-- the hypotheses of `gen_edge_spec` / `gen_edge_potential` are satisfiable (integers as the time domain, horizon 20,
`inf` = 1000): two sent messages over a skipped connection and one vertex that never ran. -/
example :
    let e := genEdge true (1000 : Int) 20 0 [⟨0, 0, 1⟩, ⟨1, 10, 11⟩, ⟨-1, 20, 21⟩] [0, 4, 0] [0, 10, 20, 30] 2
    (e.seqOut, e.seqIn, e.tsRecv) = ([0, 1, -1], [1, 2, -1], [1, 15, -1]) := by decide

/-- lexicographic potential `(start time, rank of the node)` -/
def potLt (a b : α × Nat) : Prop := a.1 < b.1 ∨ (a.1 ≤ b.1 ∧ a.2 < b.2)

theorem potLt_trans (a b c : α × Nat) (h1 : potLt a b) (h2 : potLt b c) : potLt a c := by
  rcases h1 with h1 | ⟨h1, h1'⟩ <;> rcases h2 with h2 | ⟨h2, h2'⟩
  · exact Or.inl (lt_trans h1 h2)
  · exact Or.inl (lt_of_lt_of_le h1 h2)
  · exact Or.inl (lt_of_le_of_lt h1 h2)
  · exact Or.inr ⟨le_trans h1 h2, by omega⟩

theorem potLt_irrefl (a : α × Nat) : ¬ potLt a a := by
  rintro (h | ⟨_, h⟩)
  · exact lt_irrefl _ h
  · omega

/-- A relation whose every edge increases a lexicographic potential has no cycle. -/
theorem acyclic_of_potential {V : Type} (E : V → V → Prop) (f : V → α × Nat) (h : ∀ u v, E u v → potLt (f u) (f v)) :
    ∀ x, ¬ Relation.TransGen E x x := by
  have key : ∀ x y, Relation.TransGen E x y → potLt (f x) (f y) := by
    intro x y hxy
    induction hxy with
    | single e => exact h _ _ e
    | tail _ e ih => exact potLt_trans _ _ _ ih (h _ _ e)
  intro x hx
  exact potLt_irrefl _ (key x x hx)

/-- **Acyclic (from the facts about vertices)**: let every node's start times strictly increase and every vertex end
no earlier than it starts (existing vertices of an augmented graph are only assumed to satisfy this; generated ones
do, `gen_acyclic`), let every connection's `seq_in` be produced by the generator with non-negative delays, and let
the non-skipped connections admit a ranking of the nodes (no algebraic loop: `BaseNode.phase` raises otherwise). Then
`ts_start` is non-decreasing along message edges and strictly increasing along stateful and skipped edges, and the
graph has no cycle. -/
theorem gen_acyclic_of_vertex_facts {N : Type} (verts : N → List (Vtx α)) (conns : List (Conn N))
    (seqIn : Conn N → List Int) (rank : N → Nat)
    (hrank : ∀ c ∈ conns, c.skip = false → rank c.out < rank c.inp)
    (hstrict : ∀ n k v w, (verts n)[k]? = some v → (verts n)[k + 1]? = some w → v.tsStart < w.tsStart)
    (hse : ∀ n, ∀ v ∈ verts n, v.tsStart ≤ v.tsEnd)
    (hedges : ∀ c ∈ conns, ∃ (inf tsMax dflt : α) (delays : List α) (seqMaxIn : Int),
        (∀ d ∈ delays, 0 ≤ d) ∧ delays.length = (verts c.out).length ∧ tsMax < inf ∧
        (∀ v ∈ verts c.out, v.tsEnd ≤ inf) ∧
        seqIn c = (genEdge c.skip inf tsMax dflt (verts c.out) delays ((verts c.inp).map (·.tsStart)) seqMaxIn).seqIn) :
    ∀ x, ¬ Relation.TransGen (GEdge verts conns seqIn) x x := by
  apply acyclic_of_potential (GEdge verts conns seqIn)
    (fun x => ((((verts x.1)[x.2]?).map (·.tsStart)).getD 0, rank x.1))
  intro u v e
  cases e with
  | stateful n k hk =>
    have h0 : k < (verts n).length := by omega
    have := hstrict n k _ _ (List.getElem?_eq_getElem h0) (List.getElem?_eq_getElem hk)
    exact Or.inl (by simpa [List.getElem?_eq_getElem h0, List.getElem?_eq_getElem hk] using this)
  | message c k j hc hk hj hin =>
    obtain ⟨inf, tsMax, dflt, delays, seqMaxIn, hd, hlen, hinf, hinf', hseq⟩ := hedges c hc
    rw [hseq] at hin
    have hv := List.getElem?_eq_getElem hk
    have ht : ((verts c.inp).map (·.tsStart))[j]? = some ((verts c.inp)[j]).tsStart := by
      simp [List.getElem?_eq_getElem hj]
    have := gen_edge_potential c.skip inf tsMax dflt (verts c.out) delays _ seqMaxIn hlen hinf hd hinf'
      (hse c.out) k j _ _ hv ht hin
    simp only [List.getElem?_eq_getElem hk, List.getElem?_eq_getElem hj, Option.map_some, Option.getD_some]
    cases hskip : c.skip
    · rw [hskip] at this
      exact Or.inr ⟨by simpa [takes] using this, hrank c hc hskip⟩
    · rw [hskip] at this
      exact Or.inl (by simpa [takes] using this)

/-- **Acyclic**: every graph generated from scratch (positive rates, non-negative sampled delays, no algebraic loop
among the non-skipped connections) has no cycle. -/
theorem gen_acyclic {N : Type} (verts : N → List (Vtx α)) (conns : List (Conn N))
    (seqIn : Conn N → List Int) (rank : N → Nat)
    (hrank : ∀ c ∈ conns, c.skip = false → rank c.out < rank c.inp)
    (hverts : ∀ n, ∃ (rate tsMax phase : α) (ds : List α), 0 < rate ∧ (∀ d ∈ ds, 0 ≤ d) ∧
        verts n = scanSteps rate tsMax phase 0 ds)
    (hedges : ∀ c ∈ conns, ∃ (inf tsMax dflt : α) (delays : List α) (seqMaxIn : Int),
        (∀ d ∈ delays, 0 ≤ d) ∧ delays.length = (verts c.out).length ∧ tsMax < inf ∧
        (∀ v ∈ verts c.out, v.tsEnd ≤ inf) ∧
        seqIn c = (genEdge c.skip inf tsMax dflt (verts c.out) delays ((verts c.inp).map (·.tsStart)) seqMaxIn).seqIn) :
    ∀ x, ¬ Relation.TransGen (GEdge verts conns seqIn) x x := by
  apply gen_acyclic_of_vertex_facts verts conns seqIn rank hrank ?_ ?_ hedges
  · intro n k v w hv hw
    obtain ⟨rate, tsMax, phase, ds, hr, _, hn⟩ := hverts n
    rw [hn] at hv hw
    exact gen_starts_strict rate tsMax phase hr 0 ds k v w hv hw
  · intro n v hvm
    obtain ⟨rate, tsMax, phase, ds, _, hd, hn⟩ := hverts n
    rw [hn] at hvm
    obtain ⟨k, hk, rfl⟩ := List.getElem_of_mem hvm
    have hk' : k < ds.length := by rwa [scan_length] at hk
    have := gen_duration rate tsMax ds phase 0 k _ _ (List.getElem?_eq_getElem hk) (List.getElem?_eq_getElem hk')
    have h0 : 0 ≤ ds[k] := hd _ (List.getElem_mem hk')
    linarith

/-- hypotheses of `gen_acyclic` are satisfiable, and a two-node loop closed by a skipped connection is covered:
`a → b` (rank 0 < 1) not skipped, `b → a` skipped. -/
example : ∃ rank : Bool → Nat, ∀ c ∈ [(⟨false, true, false⟩ : Conn Bool), ⟨true, false, true⟩],
    c.skip = false → rank c.out < rank c.inp :=
  ⟨fun b => if b then 1 else 0, by decide⟩

/-! ## 5. augmenting: existing vertices / edges are kept verbatim, exactly the missing keys are added -/

section augment
variable {K V : Type} [BEq K] [LawfulBEq K]

/-- the extracted membership tests are the plain `in` tests (a negated or dropped test changes the kernel) -/
theorem aug_exists_spec (b : Bool) : aug_vertex_exists b = b ∧ aug_edge_exists b = b := ⟨rfl, rfl⟩

theorem augStep_prefix (ex : Bool → Bool) (gen : K → V) (acc : List (K × V)) (k : K) : acc <+: augStep ex gen acc k := by
  unfold augStep; split
  · exact List.prefix_refl _
  · exact List.prefix_append _ _

/-- **Augmenting keeps**: the existing entries are a prefix of the result — every existing vertex array / edge array
is returned as it was (same key, same value, same place); holds for any membership test. -/
theorem augment_keeps (ex : Bool → Bool) (gen : K → V) : ∀ (keys : List K) (existing : List (K × V)),
    existing <+: augment ex gen existing keys
  | [], _ => List.prefix_refl _
  | k :: ks, acc => (augStep_prefix ex gen acc k).trans (augment_keeps ex gen ks (augStep ex gen acc k))

theorem hasKey_mono (acc acc' : List (K × V)) (k : K) (h : acc <+: acc') (hk : hasKey acc k = true) :
    hasKey acc' k = true := by
  obtain ⟨t, rfl⟩ := h
  simp [hasKey, List.any_append] at hk ⊢
  exact Or.inl hk

/-- **Augmenting adds the missing ones**: afterwards every requested key is present. -/
theorem augment_adds_missing (ex : Bool → Bool) (hex : ∀ b, ex b = b) (gen : K → V) :
    ∀ (keys : List K) (existing : List (K × V)) (k : K), k ∈ keys → hasKey (augment ex gen existing keys) k = true
  | [], _, _, h => by simp at h
  | k0 :: ks, acc, k, h => by
      rcases List.mem_cons.mp h with rfl | h
      · apply hasKey_mono _ _ _ (augment_keeps ex gen ks (augStep ex gen acc k))
        unfold augStep; rw [hex]
        by_cases hk : hasKey acc k = true
        · simp [hk]
        · rw [if_neg hk]
          simp [hasKey, List.any_append]
      · exact augment_adds_missing ex hex gen ks _ k h

/-- **… and nothing else**: every entry of the result is an existing entry or a freshly generated one for a requested
key that was missing. -/
theorem augment_only_missing (ex : Bool → Bool) (hex : ∀ b, ex b = b) (gen : K → V) :
    ∀ (keys : List K) (existing : List (K × V)) (p : K × V), p ∈ augment ex gen existing keys →
      p ∈ existing ∨ (p.1 ∈ keys ∧ hasKey existing p.1 = false ∧ p.2 = gen p.1)
  | [], _, _, h => Or.inl h
  | k0 :: ks, acc, p, h => by
      rcases augment_only_missing ex hex gen ks (augStep ex gen acc k0) p h with h1 | ⟨h1, h2, h3⟩
      · unfold augStep at h1; rw [hex] at h1
        by_cases hk : hasKey acc k0 = true
        · simp [hk] at h1; exact Or.inl h1
        · simp [hk] at h1
          rcases h1 with h1 | rfl
          · exact Or.inl h1
          · exact Or.inr ⟨List.mem_cons_self, by simpa using hk, rfl⟩
      · refine Or.inr ⟨List.mem_cons_of_mem _ h1, ?_, h3⟩
        cases hk : hasKey acc p.1
        · rfl
        · rw [hasKey_mono _ _ _ (augStep_prefix ex gen acc k0) hk] at h2; cases h2

/-- no key is added twice -/
theorem augment_nodup (ex : Bool → Bool) (hex : ∀ b, ex b = b) (gen : K → V) :
    ∀ (keys : List K) (existing : List (K × V)), (existing.map (·.1)).Nodup →
      ((augment ex gen existing keys).map (·.1)).Nodup
  | [], _, h => h
  | k0 :: ks, acc, h => by
      apply augment_nodup ex hex gen ks
      unfold augStep; rw [hex]
      by_cases hk : hasKey acc k0 = true
      · simpa [hk] using h
      · simp only [hk, Bool.false_eq_true, if_false, List.map_append, List.map_cons, List.map_nil]
        rw [List.nodup_append]
        refine ⟨h, by simp, ?_⟩
        intro a ha b hb
        simp only [List.mem_singleton] at hb; subst hb
        obtain ⟨q, hq, rfl⟩ := List.mem_map.mp ha
        intro heq
        apply hk
        simp only [hasKey, List.any_eq_true]
        exact ⟨q, hq, by simp [heq]⟩

example : augment aug_vertex_exists (fun k : Nat => k * 10) [(2, 7)] [1, 2, 3] = [(2, 7), (1, 10), (3, 30)] := by decide

end augment

end Rex.C12
