import RexModel.Compiled.Dataflow
import RexModel.Compiled.Window
import RexModel.Props.C03
import RexModel.Async.Payload
import RexModel.Compiled.Exec

/-! # C01 — compiled replay reproduces the recorded asynchronous execution step for step

Three ingredients, all for arbitrary graphs / schedules:
* `Rex.Dataflow.order_independent` — evaluating a computation graph along **any** valid order (no vertex twice,
  every producer and the node's previous step earlier) gives every vertex the same inputs, state and output. The
  asynchronous execution and every compiled partitioning (any supergraph mode, pruned or not) are such orders.
* `async_window_eq_last` / `applyWindow_sorted` / `C01_windows_agree` — the input window the asynchronous runtime builds
  by pushing (truncated) groups step after step, and the window `apply_window` selects from the recorded edge list for
  the same step, are the same list: the last `window` consumed messages, oldest first.
* ring-buffer reads return the scheduled payload — property C08 — and therefore (`C01_compiled_executor_refines_dataflow`) the
  compiled executor, which reads slots `seq % size` of payload buffers at the start of every generation and carries one step
  state per node, computes exactly that dataflow evaluation along its trace. -/

namespace Rex.C01

open Rex.Async Rex.Compiled Rex.Gen.Async Rex.Gen.Compiled

variable {T : Type}

/-- C01 for an abstract graph: async order and compiled order agree on every vertex both execute. -/
theorem C01_any_valid_schedule {V Val : Type} [DecidableEq V] (G : Rex.Dataflow.Graph V Val)
    (asyncOrder compiledOrder : List V) (env0 : V → Option Val)
    (ha : Rex.Dataflow.Valid G asyncOrder) (hc : Rex.Dataflow.Valid G compiledOrder) :
    ∀ v, v ∈ asyncOrder → v ∈ compiledOrder →
      Rex.Dataflow.run G asyncOrder env0 v = Rex.Dataflow.run G compiledOrder env0 v :=
  Rex.Dataflow.order_independent G asyncOrder compiledOrder env0 ha hc

/-- truncating a group to the newest `window` messages before pushing it changes nothing -/
theorem push_truncated_group (win g : List (Item T)) (h : 0 < win.length) :
    (sel_window g win.length).foldl pushItem win = g.foldl pushItem win := by
  rw [Rex.C03.window_is_last_w win g h, Rex.C03.window_is_last_w win _ h]
  simp only [sel_window, Rex.lastN, List.length_drop]
  by_cases hle : g.length ≤ win.length
  · have : g.length - win.length = 0 := by omega
    simp [this]
  · have hgt : win.length < g.length := by omega
    rw [List.drop_append, List.drop_append]
    have e1 : g.length - (g.length - win.length) - win.length = 0 := by omega
    have e2 : win.length ≤ g.length - (g.length - win.length) := by omega
    have e3 : win.length ≤ g.length := by omega
    rw [List.drop_eq_nil_of_le e2, List.drop_eq_nil_of_le e3]
    simp only [List.nil_append, List.length_drop, e1, List.drop_zero]

/-- **The asynchronous window**: after pushing the groups of steps `0..k` (each truncated as `push_selection` does), the
window holds the last `window` messages of (initial entries ++ everything consumed so far), oldest first. -/
theorem async_window_eq_last (init : List (Item T)) (gs : List (List (Item T))) (h : 0 < init.length) :
    gs.foldl (fun win g => (sel_window g init.length).foldl pushItem win) init
      = (init ++ gs.flatten).drop gs.flatten.length := by
  suffices H : ∀ (gs : List (List (Item T))) (win : List (Item T)), win.length = init.length →
      gs.foldl (fun win g => (sel_window g init.length).foldl pushItem win) win
        = (win ++ gs.flatten).drop gs.flatten.length from H gs init rfl
  intro gs
  induction gs with
  | nil => intro win _; simp
  | cons g gs ih =>
    intro win hw
    simp only [List.foldl_cons, List.flatten_cons]
    have hw0 : 0 < win.length := by omega
    have e := push_truncated_group win g hw0
    rw [hw] at e
    rw [e, Rex.C03.window_is_last_w win g hw0]
    have hlen : ((win ++ g).drop g.length).length = init.length := by simp; omega
    rw [ih _ hlen]
    have hg : g.length ≤ (win ++ g).length := by simp
    rw [List.length_append, ← List.drop_drop, ← List.append_assoc,
        List.drop_append_of_le_length hg]

theorem not_selectable_rest (k : Int) (e : Edge T) (es : List (Edge T))
    (hs : (e :: es).Pairwise (fun a b => edgeKey a ≤ edgeKey b)) (hne : selectable k e = false) :
    ∀ x ∈ es, selectable k x = false := by
  intro x hx
  have hle := (List.pairwise_cons.mp hs).1 x hx
  simp only [selectable, aw_selectable, decide_eq_false_iff_not, not_le] at hne ⊢
  omega

theorem foldl_no_select (k : Int) (es : List (Edge T)) (c b : List (Item T))
    (h : ∀ x ∈ es, selectable k x = false) :
    (es.foldl (fun (st : List (Item T) × List (Item T)) e =>
      let cur := pushItem st.1 e.1
      (cur, if selectable k e then cur else st.2)) (c, b)).2 = b := by
  induction es generalizing c with
  | nil => rfl
  | cons e es ih =>
    simp only [List.foldl_cons]
    rw [h e List.mem_cons_self]
    simp only [Bool.false_eq_true, if_false]
    exact ih _ (fun x hx => h x (List.mem_cons_of_mem _ hx))

/-- **The compiled window**: for an edge list whose consuming steps are non-decreasing (FIFO, exactly-once — C03), the
window `apply_window` selects for step `k` is obtained by pushing exactly the edges consumed up to step `k`. -/
theorem applyWindow_sorted (init : List (Item T)) (es : List (Edge T)) (k : Int)
    (hs : es.Pairwise (fun a b => edgeKey a ≤ edgeKey b)) :
    applyWindow init es k = ((es.takeWhile (selectable k)).map (·.1)).foldl pushItem init := by
  unfold applyWindow
  suffices H : ∀ (es : List (Edge T)) (c : List (Item T)), es.Pairwise (fun a b => edgeKey a ≤ edgeKey b) →
      (es.foldl (fun (st : List (Item T) × List (Item T)) e =>
        let cur := pushItem st.1 e.1
        (cur, if selectable k e then cur else st.2)) (c, c)).2
        = ((es.takeWhile (selectable k)).map (·.1)).foldl pushItem c from H es init hs
  intro es
  induction es with
  | nil => intro c _; rfl
  | cons e es ih =>
    intro c hs
    simp only [List.foldl_cons, List.takeWhile_cons]
    cases hsel : selectable k e with
    | true =>
      simp only [if_true, List.map_cons, List.foldl_cons]
      exact ih _ (List.pairwise_cons.mp hs).2
    | false =>
      simp only [Bool.false_eq_true, if_false, List.map_nil, List.foldl_nil]
      exact foldl_no_select k es _ c (not_selectable_rest k e es hs hsel)

/-- never-consumed edges (`seq_out = -1` padding or `seq_in = -1`) can not be selected for any step below 2^31 - 1 -/
theorem padding_never_selected (e : Edge T) (k : Int) (hk : k < 2147483647)
    (hpad : e.1.seq = -1 ∨ e.2 = -1) : selectable k e = false := by
  simp only [selectable, aw_selectable, edgeKey, aw_sentinel, aw_seq_in, decide_eq_false_iff_not, not_le]
  rcases hpad with h | h
  · simp [h]; omega
  · by_cases h2 : e.1.seq = -1 <;> simp [h, h2] <;> omega

/-- **Windows agree.** If the groups the asynchronous runtime consumed up to step `k` are, concatenated, the edges the
record lists with `seq_in ≤ k`, the step sees the same window in both runtimes. -/
theorem C01_windows_agree (init : List (Item T)) (es : List (Edge T)) (k : Int) (gs : List (List (Item T)))
    (h0 : 0 < init.length) (hs : es.Pairwise (fun a b => edgeKey a ≤ edgeKey b))
    (hflat : gs.flatten = (es.takeWhile (selectable k)).map (·.1)) :
    gs.foldl (fun win g => (sel_window g init.length).foldl pushItem win) init = applyWindow init es k := by
  rw [async_window_eq_last init gs h0, applyWindow_sorted init es k hs, ← hflat,
      Rex.C03.window_is_last_w init gs.flatten h0]

/-! ## Machine level: what a recorded asynchronous step saw, under every schedule -/

/-- **Every window entry a recorded step saw is the recorded output of the sender's step with that sequence number** (or a default
entry): in every state the asynchronous machine can reach — any graph, delays, step functions, interleaving of all threads — each
recorded step of a node has one window per input, and each entry of the window of input `c` either has a negative sequence number
and carries the connection's initial output, or carries exactly the output that the sender's record lists for the step with the
entry's sequence number. Together with `C13_recorded_steps_are_faithful` (output = step function of the recorded state and windows),
`C13_recorded_states_chain` (state = state returned by the previous step) and `C03_exactly_once_in_order`, the recorded episode *is*
the dataflow evaluation of its own graph — the object `C01_any_valid_schedule` quantifies over. -/
theorem C01_window_payloads_are_sender_outputs [TimeLike T] (cfg : Cfg T) (d : Nat) (nc : NodeCfg T) (hd : cfg.node d = some nc)
    {σ : List Rule} {s : MSt T} (h : Rex.Conf.Run (machine cfg).toNet.sys (initState cfg) σ s)
    (r : StepRec T) (hr : Val.stepRec r ∈ s.q (.node d .record)) :
    nc.inputs.length = r.windows.length ∧
    ∀ (k : Nat) (c : Nat) (w : List (Item T)), nc.inputs[k]? = some c → r.windows[k]? = some w → ∀ it ∈ w,
      (it.seq < 0 ∧ ∃ cc, cfg.conn c = some cc ∧ it.data = cc.initData) ∨
      ∃ r' : StepRec T, Val.stepRec r' ∈ s.q (.node (cfg.src c) .record) ∧ r'.seq = it.seq ∧ r'.output = some it.data := by
  have hi := pinv_run cfg h (pinv_init cfg)
  exact winOk_get cfg s nc.inputs r.windows (hi.records d nc hd r hr)

/-! ## The compiled executor computes the dataflow evaluation (`Compiled/Exec.lean`) -/

section Executor

open Rex.Sched

/-- **Executor refinement.** `exec` is the abstract machine of `partition_runner.py`: per generation every runnable cell
reads its windows from the payload buffers as they are when the generation starts (slot `seq % size`), reads its node's
carried step state, computes, and then all cells write. If the replay of the trace succeeds (C08: `traceOk`, implied by
`sizedOk`), no vertex is scheduled twice, no dependency of a cell sits in the cell's own generation, a generation holds
at most one cell per node and every node's steps come in sequence order, then the payload the executor computes for
every vertex is the dataflow value of the recorded graph along the trace — for every trace, any number of generations,
nodes, window sizes and buffer sizes. -/
theorem C01_compiled_executor_refines_dataflow {Val : Type} (winsOf : Wins) (step : Step Val) (B : List Nat) (Tr : List (List Vtx))
    (hok : traceOk true (B.map Ring.init) (Tr.map (genOfV winsOf)) = true)
    (hnd : Tr.flatten.Nodup)
    (hpos : ∀ v ∈ Tr.flatten, 0 ≤ v.seq)
    (hsame : ∀ vs ∈ Tr, ∀ v ∈ vs, ∀ d ∈ depsOfV winsOf v, d ∉ vs)
    (hkinds : ∀ vs ∈ Tr, ∀ v ∈ vs, ∀ w ∈ vs, w.kind = v.kind → w = v)
    (hseq : ∀ pre vs post, Tr = pre ++ vs :: post → ∀ v ∈ vs, v.seq = ((cnt v.kind pre : Nat) : Int)) :
    (exec winsOf step (initX B) Tr).env = Rex.Dataflow.run (dfGraph winsOf step) Tr.flatten (fun _ => none) :=
  exec_refines_dataflow winsOf step B Tr hok hnd hpos hsame hkinds hseq

/-- the same statement with the hypothesis C08 uses ("every node writes the consecutive sequence numbers 0, 1, 2, …") in
place of "steps in sequence order": the latter follows (`hseq_of_consec`) -/
theorem C01_compiled_executor_refines_dataflow_consec {Val : Type} (winsOf : Wins) (step : Step Val) (B : List Nat) (Tr : List (List Vtx))
    (hok : traceOk true (B.map Ring.init) (Tr.map (genOfV winsOf)) = true)
    (hnd : Tr.flatten.Nodup)
    (hpos : ∀ v ∈ Tr.flatten, 0 ≤ v.seq)
    (hsame : ∀ vs ∈ Tr, ∀ v ∈ vs, ∀ d ∈ depsOfV winsOf v, d ∉ vs)
    (hkinds : ∀ vs ∈ Tr, ∀ v ∈ vs, ∀ w ∈ vs, w.kind = v.kind → w = v)
    (hcons : ∀ κ, ∃ n, wseqs κ (allWrites (Tr.map (genOfV winsOf))) = consec 0 n) :
    (exec winsOf step (initX B) Tr).env = Rex.Dataflow.run (dfGraph winsOf step) Tr.flatten (fun _ => none) :=
  exec_refines_dataflow winsOf step B Tr hok hnd hpos hsame hkinds (hseq_of_consec winsOf Tr hcons hnd hkinds)

/-- the same on a compiled instance: `execHypOk` decides the structural hypotheses and `sizedOk` the replay hypotheses;
what both accept is evaluated by the executor exactly as the dataflow graph prescribes, for every step function. The
driver runs both on the real timings (`sched.exec`) together with the executor itself on the harness's probe nodes, whose
outputs are compared with the real compiled run. -/
theorem C01_accepted_instance_executor_refines (i : Inst) (sizes : List Nat) {Val : Type} (step : Step Val)
    (hx : execHypOk i = true) (hs : sizedOk (traceOf i 0) sizes.length sizes = true) :
    (exec (xWins i) step (initX sizes) (xTrace i)).env
      = Rex.Dataflow.run (dfGraph (xWins i) step) (xTrace i).flatten (fun _ => none) :=
  exec_instance_refines i sizes step hx hs

/-- **Compiled run = any other valid evaluation of the recorded graph** (in particular the asynchronous one). `U` is the
set of vertices of the recorded graph; window entries without a message and the "previous step" of a first step are
dependencies on vertices outside `U`, left at the initial environment by every order. If the executor's trace and another
order are both valid for the graph (`ValidIn`: no vertex twice, existing dependencies strictly earlier), every vertex
both execute gets the same payload from the compiled executor as from that other evaluation. -/
theorem C01_compiled_executor_agrees_with_any_valid_order {Val : Type} (winsOf : Wins) (step : Step Val) (B : List Nat)
    (Tr : List (List Vtx)) (U : Vtx → Prop) (other : List Vtx)
    (hok : traceOk true (B.map Ring.init) (Tr.map (genOfV winsOf)) = true)
    (hpos : ∀ v ∈ Tr.flatten, 0 ≤ v.seq)
    (hsame : ∀ vs ∈ Tr, ∀ v ∈ vs, ∀ d ∈ depsOfV winsOf v, d ∉ vs)
    (hkinds : ∀ vs ∈ Tr, ∀ v ∈ vs, ∀ w ∈ vs, w.kind = v.kind → w = v)
    (hseq : ∀ pre vs post, Tr = pre ++ vs :: post → ∀ v ∈ vs, v.seq = ((cnt v.kind pre : Nat) : Int))
    (hvc : Rex.Dataflow.ValidIn (dfGraph winsOf step) U Tr.flatten)
    (hvo : Rex.Dataflow.ValidIn (dfGraph winsOf step) U other) :
    ∀ v, v ∈ Tr.flatten → v ∈ other →
      (exec winsOf step (initX B) Tr).env v = Rex.Dataflow.run (dfGraph winsOf step) other (fun _ => none) v := by
  intro v hv1 hv2
  rw [exec_refines_dataflow winsOf step B Tr hok hvc.1 hpos hsame hkinds hseq]
  exact Rex.Dataflow.order_independent_in (dfGraph winsOf step) U Tr.flatten other (fun _ => none) hvc hvo v hv1 hv2

/-- the executor's own order is valid whenever the decision procedure `validInOk` (run by the driver on every exported
instance) says so — with `U` = the vertices the compiled horizon executes -/
theorem C01_executor_order_valid {Val : Type} (winsOf : Wins) (step : Step Val) (order : List Vtx)
    (h : validInOk winsOf order = true) : Rex.Dataflow.ValidIn (dfGraph winsOf step) (· ∈ order) order :=
  validIn_of_ok winsOf step order h

/-- non-vacuity of `ValidIn` with a non-existent dependency: vertex 1 depends on 0 and on 7, which does not exist -/
example : Rex.Dataflow.ValidIn (⟨fun v => if v = 1 then [0, 7] else [], fun _ l => l.sum, 0⟩ : Rex.Dataflow.Graph Nat Nat)
    (fun v => v < 2) [0, 1] := by
  refine ⟨by decide, by decide, ?_⟩
  intro pre v post h d hd
  rcases pre with _ | ⟨a, _ | ⟨b, pre⟩⟩
  · simp only [List.nil_append, List.cons.injEq] at h
    obtain ⟨rfl, _⟩ := h
    simp at hd
  · simp only [List.cons_append, List.nil_append, List.cons.injEq] at h
    obtain ⟨rfl, rfl, _⟩ := h
    simp at hd
    rcases hd with rfl | rfl
    · left; simp
    · right; decide
  · simp at h

/-- non-vacuity: producer 1 (two steps) feeds supervisor 0 through a window of two; the executor's value for the
supervisor's step is the step function of its (empty) carried state and the two producer outputs -/
example :
    let winsOf : Wins := fun v => if v.kind = 0 then [(1, [0, 1])] else []
    let step : Step Nat := fun v p ws => 100 * v.kind.succ + 10 * (p.getD 7) + (ws.map (·.getD 5)).sum
    (exec winsOf step (initX [1, 2]) [[⟨1, 0⟩], [⟨1, 1⟩], [⟨0, 0⟩]]).env ⟨0, 0⟩ = some (some (100 + 70 + (270 + (200 + 2700)))) := by
  decide

end Executor

end Rex.C01
