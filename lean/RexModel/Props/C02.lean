import RexModel.Async.Machine
import RexModel.Async.Guard
import RexModel.Async.Ownership
import RexModel.Async.Calls

/-! # C02 — simulated-clock episodes are deterministic across thread schedules and speed

The asynchronous runtime is modelled (`RexModel/Async/Machine.lean`) as a network of reader programs over
single-producer/single-consumer queues; its arithmetic and comparisons are the generated kernels of
`RexModel/Gen/Async.lean`. The real-time factor does not occur in the model at all (throttling only sleeps), and
`run()` and `reset()/step()` are the same `user` rule. The theorems hold for **every** graph configuration,
delay stream, node step function, number of user steps — and every pair of schedules. -/

namespace Rex.C02

open Rex.Net Rex.Conf Rex.Async Rex.Gen.Async

variable {T : Type} [TimeLike T]

/-- every handler of the machine is stable under later appends to its input queues (by construction) -/
theorem machine_stable (cfg : Cfg T) : (machine cfg).toNet.Stable := PNet.stable _

/-- the machine is persistent and commuting -/
theorem machine_good (cfg : Cfg T) : Good (machine cfg).toNet.sys := Net.good _ (machine_stable cfg)

/-- any two (partial) executions of an episode can be continued to a common state -/
theorem C02_confluent (cfg : Cfg T) {σ₁ σ₂ : List Rule} {s₁ s₂ : MSt T}
    (r1 : Run (machine cfg).toNet.sys (initState cfg) σ₁ s₁)
    (r2 : Run (machine cfg).toNet.sys (initState cfg) σ₂ s₂) :
    ∃ τ₁ τ₂ s', Run (machine cfg).toNet.sys s₁ τ₁ s' ∧ Run (machine cfg).toNet.sys s₂ τ₂ s' :=
  confluent (machine_good cfg) trivial r1 r2

/-- **Step records are schedule independent**: for any two interleavings of the node and connection threads,
what node `n` has recorded (sequence number, start/end time, delay, phase terms, rng index, state before,
input windows, output of every step) agrees on the common prefix. -/
theorem C02_step_records_schedule_independent (cfg : Cfg T) (n : Nat) {σ₁ σ₂ : List Rule} {s₁ s₂ : MSt T}
    (r1 : Run (machine cfg).toNet.sys (initState cfg) σ₁ s₁)
    (r2 : Run (machine cfg).toNet.sys (initState cfg) σ₂ s₂) :
    s₁.q (.node n .record) <+: s₂.q (.node n .record) ∨ s₂.q (.node n .record) <+: s₁.q (.node n .record) :=
  records_schedule_independent _ (machine_stable cfg) (.node n .record) rfl r1 r2

/-- **Message records are schedule independent** (send/receive time, delay and consuming step of every message). -/
theorem C02_message_records_schedule_independent (cfg : Cfg T) (c : Nat) {σ₁ σ₂ : List Rule} {s₁ s₂ : MSt T}
    (r1 : Run (machine cfg).toNet.sys (initState cfg) σ₁ s₁)
    (r2 : Run (machine cfg).toNet.sys (initState cfg) σ₂ s₂) :
    s₁.q (.conn c .record) <+: s₂.q (.conn c .record) ∨ s₂.q (.conn c .record) <+: s₁.q (.conn c .record) :=
  records_schedule_independent _ (machine_stable cfg) (.conn c .record) rfl r1 r2

/-- The number of messages a non-blocking connection hands to a step is decided by the needed prefix of the arrival queue
(proved in `Async/Guard.lean`, shared with C03). -/
theorem C02_nbCount_needed_prefix (cc : ConnCfg T) (tsStep : T) (pre rest : List (Val T))
    (h : ∃ v ∈ pre, isFuture tsStep v = true) :
    nbCount cc tsStep (pre ++ rest) = nbCount cc tsStep pre := nbCount_needed_prefix cc tsStep pre rest h

/-- **The source obeys the machine's queue discipline**: every operation of every handler on a deque (regenerated from the current
source into `Rex.Gen.Ownership`) is an append by a producer of that queue or a pop / read by its consumer, for the producers and
consumers of the machine's own tables (`prodOf_tag_*`, `consOf_tag_*`) — nobody but the consumer looks at a queue, so what a handler
does cannot depend on how far another thread has got beyond the prefix it needs. -/
theorem C02_source_queue_discipline :
    (Rex.Gen.Ownership.node_queue_ops ++ Rex.Gen.Ownership.conn_queue_ops).all opOk = true ∧
    Rex.Gen.Ownership.node_queue_ops.length + Rex.Gen.Ownership.conn_queue_ops.length ≥ 40 ∧
    -- the handlers of one wrapper run on one worker thread (one at a time, in submission order)
    Rex.Gen.Ownership.node_single_worker = true ∧ Rex.Gen.Ownership.conn_single_worker = true := by decide

/-- … and those tables are the machine's: whoever the machine lets append to (pop from) a queue is in the table -/
theorem C02_machine_ownership (cfg : Cfg T) :
    (∀ n k, (prodOf cfg (.node n k)).tag ∈ prodTags (.inl k)) ∧ (∀ c k, (prodOf cfg (.conn c k)).tag ∈ prodTags (.inr k)) ∧
    (∀ n k r, consOf cfg (.node n k) = some r → r.tag ∈ consTags (.inl k)) ∧
    (∀ c k r, consOf cfg (.conn c k) = some r → r.tag ∈ consTags (.inr k)) :=
  ⟨prodOf_tag_node cfg, prodOf_tag_conn cfg, consOf_tag_node cfg, consOf_tag_conn cfg⟩

/-- a state in which no rule is enabled admits only the empty run -/
theorem run_of_terminal {S R : Type} (M : Sys S R) {s s' : S} {σ : List R} (hterm : ∀ r, ¬ M.guard r s)
    (h : Run M s σ s') : σ = [] ∧ s' = s := by
  cases h with
  | nil => exact ⟨rfl, rfl⟩
  | cons g _ => exact absurd g (hterm _)

/-- a system whose rules are additionally gated by a predicate `P r` -/
def restrict {S R : Type} (M : Sys S R) (P : R → S → Prop) : Sys S R :=
  { guard := fun r s => M.guard r s ∧ P r s, fire := M.fire, Inv := M.Inv }

/-- gating every rule by a predicate that no *other* rule can change keeps persistence and commutation -/
theorem restrict_good {S R : Type} (M : Sys S R) (P : R → S → Prop) (G : Good M)
    (frame : ∀ s r r', M.Inv s → M.guard r s → r ≠ r' → (P r' (M.fire r s) ↔ P r' s)) : Good (restrict M P) where
  inv s r hi g := G.inv s r hi g.1
  persist s r r' hi g g' hne := ⟨G.persist s r r' hi g.1 g'.1 hne, (frame s r r' hi g.1 hne).mpr g'.2⟩
  commute s r r' hi g g' hne := G.commute s r r' hi g.1 g'.1 hne

/-- every run of the gated system is a run of the original one -/
theorem restrict_run {S R : Type} (M : Sys S R) (P : R → S → Prop) {s s' : S} {σ : List R}
    (h : Run (restrict M P) s σ s') : Run M s σ s' := by
  induction h with
  | nil s => exact .nil s
  | cons g _ ih => exact .cons g.1 ih

/-- the execution bound of an episode: node `n` is scheduled at most `maxTicks n` times (what ends a real episode: the supervisor's
last step stops every node's scheduling) -/
def tickBound (maxTicks : Nat → Nat) : Rule → MSt T → Prop
  | .sched n, s => (s.priv (.sched n)).tick < maxTicks n
  | _, _ => True

def boundedSys (cfg : Cfg T) (maxTicks : Nat → Nat) : Sys (MSt T) Rule := restrict (machine cfg).toNet.sys (tickBound maxTicks)

theorem bounded_good (cfg : Cfg T) (maxTicks : Nat → Nat) : Good (boundedSys cfg maxTicks) := by
  apply restrict_good _ _ (machine_good cfg)
  intro s r r' _ _ hne
  cases r' <;> simp only [tickBound]
  rw [show ((machine cfg).toNet.sys.fire r s) = (machine cfg).toNet.fire r s from rfl,
    fire_priv_other (machine cfg).toNet r _ s (Ne.symm hne)]

/-- **Completed episodes are schedule independent as a whole**: two interleavings of an episode in which every node is scheduled at
most `maxTicks n` times, both continued until no handler of any thread can fire any more, end in the *same* machine state — every
record, every private field, every queue. A machine with a free-running node never runs out of enabled rules by itself, which is why
the statement is about the bounded system; the executable model (`Driver/Async.lean`, `runBounded`) is this bounded system under a
scheduling policy and stops exactly when no rule is enabled, so each of its completed executions is an instance of the hypotheses. -/
theorem C02_completed_episodes_equal (cfg : Cfg T) (maxTicks : Nat → Nat) {σ₁ σ₂ : List Rule} {s₁ s₂ : MSt T}
    (r1 : Run (boundedSys cfg maxTicks) (initState cfg) σ₁ s₁)
    (r2 : Run (boundedSys cfg maxTicks) (initState cfg) σ₂ s₂)
    (t1 : ∀ r, ¬ (boundedSys cfg maxTicks).guard r s₁) (t2 : ∀ r, ¬ (boundedSys cfg maxTicks).guard r s₂) :
    s₁ = s₂ := by
  obtain ⟨τ₁, τ₂, s', a, b⟩ := confluent (bounded_good cfg maxTicks) trivial r1 r2
  rw [← (run_of_terminal _ t1 a).2, ← (run_of_terminal _ t2 b).2]

/-- … and such an episode is an execution of the unbounded machine, so everything proved about `Run (machine cfg)` holds of it -/
theorem C02_bounded_is_run (cfg : Cfg T) (maxTicks : Nat → Nat) {σ : List Rule} {s : MSt T}
    (r : Run (boundedSys cfg maxTicks) (initState cfg) σ s) : Run (machine cfg).toNet.sys (initState cfg) σ s :=
  restrict_run _ _ r

/-- non-vacuity: the initial state of any configuration admits the empty run, and a node with a token can fire -/
example (cfg : Cfg T) : Run (machine cfg).toNet.sys (initState cfg) [] (initState cfg) := .nil _

end Rex.C02
