import RexModel.Proofs.Cem
import Mathlib.Algebra.Order.Field.Basic
import Mathlib.Tactic.Linarith

/-! # C18 — CEM keeps the best candidate, respects bounds and ignores NaN losses

All statements are about the definitions in `RexModel/Gen/Cem.lean` (regenerated from `rex/cem.py` on every run) and the
plumbing in `RexModel/Lib/Cem.lean`. Losses live in `Loss Q` = NaN | −∞ | finite | +∞ over any linear order `Q`, with the
IEEE comparison (false on NaN), so the source's `jnp.where(jnp.isnan(l), jnp.inf, l)` and `bestsofar_loss < best_loss`
are used as written. `san l` abbreviates the generated `nan_to_inf Loss.isnan l Loss.pinf`; on non-NaN values `¬ a < b`
is the order `b ≤ a`. The evosax solver (`rex/evo.py`) is a black box: no theorem, monitors only. -/

namespace Rex.C18

open Rex.Gen.Cem Rex.Cem

/-! ## sampled candidates lie within the bounds -/
section Bounds
variable {K : Type} [LinearOrder K] [Add K] [Mul K]

/-- every coordinate of a sampled candidate lies in `[u_min, u_max]` (whatever mean, stdev and noise are). -/
theorem cem_sample_in_bounds (mean stdev noise lo hi : K) (h : lo ≤ hi) :
    lo ≤ sampleCoord mean stdev noise lo hi ∧ sampleCoord mean stdev noise lo hi ≤ hi := by
  simp only [sampleCoord, sample_ret, sample_clip, Rex.clip]
  exact ⟨le_min (le_max_right _ _) h, min_le_right _ _⟩

/-- the hypothesis `u_min ≤ u_max` is needed: with crossed bounds the sample is `u_max`, below `u_min`. -/
theorem cem_sample_bounds_need_le_witness (mean stdev noise lo hi : K) (h : hi < lo) :
    sampleCoord mean stdev noise lo hi = hi ∧ sampleCoord mean stdev noise lo hi < lo := by
  have : sampleCoord mean stdev noise lo hi = hi := by
    simp only [sampleCoord, sample_ret, sample_clip, Rex.clip]
    exact min_eq_right (le_trans h.le (le_max_right _ _))
  exact ⟨this, by rw [this]; exact h⟩

example : (0 : Int) ≤ 1 := by decide  -- the hypothesis is satisfiable

end Bounds

section Smooth
variable {K : Type} [Field K] [LinearOrder K] [IsStrictOrderedRing K]

/-- the smoothed mean / stdev is a convex combination: it stays within any interval containing the old value and the
elite statistic (for a smoothing factor in [0, 1]). -/
theorem cem_smooth_in_bounds (s x y lo hi : K) (hs : 0 ≤ s ∧ s ≤ 1) (hx : lo ≤ x ∧ x ≤ hi) (hy : lo ≤ y ∧ y ≤ hi) :
    (lo ≤ smooth_mean s x y ∧ smooth_mean s x y ≤ hi) ∧ (lo ≤ smooth_stdev s x y ∧ smooth_stdev s x y ≤ hi) := by
  simp only [smooth_mean, smooth_stdev, Nat.cast_one]
  have h1 := mul_nonneg hs.1 (sub_nonneg.mpr hx.1)
  have h2 := mul_nonneg (sub_nonneg.mpr hs.2) (sub_nonneg.mpr hy.1)
  have h3 := mul_nonneg hs.1 (sub_nonneg.mpr hx.2)
  have h4 := mul_nonneg (sub_nonneg.mpr hs.2) (sub_nonneg.mpr hy.2)
  refine ⟨⟨?_, ?_⟩, ⟨?_, ?_⟩⟩ <;> nlinarith

example : (0 : ℚ) ≤ 1 / 10 ∧ (1 / 10 : ℚ) ≤ 1 := by norm_num

end Smooth

/-! ## best-so-far and elites -/
section Best
variable {Q : Type} [LinearOrder Q] {C D : Type}

/-- With at least one elite, a non-empty batch and as many losses as candidates the update does not raise. -/
theorem cem_update_some (refit : D → List C → D) {numElites : Nat} (s : State (Loss Q) C D)
    {samples : List C} {raw : List (Loss Q)} (hk : 0 < numElites) (hne : raw ≠ [])
    (hlen : samples.length = raw.length) :
    ∃ s', update Loss.isnan Loss.pinf refit numElites s samples raw = some s' :=
  update_some s hk hne hlen

/-- … and `0 < num_elites` is needed: with `num_elites = 0` the source's `elite_indices[0]` raises (model: `none`). -/
theorem cem_update_zero_elites_witness (refit : D → List C → D) (s : State (Loss Q) C D)
    (samples : List C) (raw : List (Loss Q)) :
    update Loss.isnan Loss.pinf refit 0 s samples raw = none := by
  simp [update, elite_indices, best_index]

/-- the same for a whole history of batches -/
theorem cem_run_some (refit : D → List C → D) {numElites : Nat} (hk : 0 < numElites) :
    ∀ (batches : List (List C × List (Loss Q))) (s : State (Loss Q) C D),
      (∀ b ∈ batches, b.2 ≠ [] ∧ b.1.length = b.2.length) →
      ∃ s', run Loss.isnan Loss.pinf refit numElites s batches = some s'
  | [], s, _ => ⟨s, rfl⟩
  | b :: rest, s, h => by
    obtain ⟨s1, h1⟩ := update_some (refit := refit) s hk (h b List.mem_cons_self).1 (h b List.mem_cons_self).2
    obtain ⟨s', h'⟩ := cem_run_some refit hk rest s1 (fun b' hb' => h b' (List.mem_cons_of_mem _ hb'))
    exact ⟨s', by simp [run, h1, h']⟩

/-- One iteration: the stored loss stays non-NaN, does not increase, is a lower bound of the batch's sanitised losses,
and the stored pair is the old pair or a (candidate, sanitised loss) pair of the batch. -/
theorem cem_step_best {refit : D → List C → D} {numElites : Nat} {s s' : State (Loss Q) C D}
    {samples : List C} {raw : List (Loss Q)}
    (h : update Loss.isnan Loss.pinf refit numElites s samples raw = some s') (hs : s.bestLoss ≠ .nan) :
    s'.bestLoss ≠ .nan ∧ ¬ s.bestLoss < s'.bestLoss ∧ (∀ l ∈ raw, ¬ san l < s'.bestLoss) ∧
    ((s'.best = s.best ∧ s'.bestLoss = s.bestLoss) ∨
      ∃ p ∈ samples.zip raw, s'.best = p.1 ∧ s'.bestLoss = san p.2) := by
  obtain ⟨bi, l, c, hl, hc, -, hmin, hb, hbl, -⟩ := update_spec h
  by_cases hlt : s.bestLoss < san l
  · rw [if_pos hlt] at hb hbl
    refine ⟨hbl ▸ hs, hbl ▸ Loss.lt_irrefl' _, ?_, Or.inl ⟨hb, hbl⟩⟩
    intro l' hl' hcon
    obtain ⟨j, hj⟩ := List.getElem?_of_mem hl'
    rw [hbl] at hcon
    exact hmin j l' hj (Loss.lt_trans' hcon hlt)
  · rw [if_neg hlt] at hb hbl
    refine ⟨hbl ▸ san_ne_nan l, hbl ▸ hlt, ?_, Or.inr ⟨(c, l), ?_, hb, hbl⟩⟩
    · intro l' hl'
      obtain ⟨j, hj⟩ := List.getElem?_of_mem hl'
      exact hbl ▸ hmin j l' hj
    · exact List.mem_iff_getElem?.mpr ⟨bi, by simp [List.getElem?_zip_eq_some, hl, hc]⟩

/-- Any number of iterations from any state with a non-NaN stored loss (the invariant behind the next theorems). -/
theorem cem_run_best {refit : D → List C → D} {numElites : Nat} :
    ∀ (batches : List (List C × List (Loss Q))) {s s' : State (Loss Q) C D},
      run Loss.isnan Loss.pinf refit numElites s batches = some s' → s.bestLoss ≠ .nan →
      s'.bestLoss ≠ .nan ∧ ¬ s.bestLoss < s'.bestLoss ∧
      (∀ p ∈ evaluated batches, ¬ san p.2 < s'.bestLoss) ∧
      ((s'.best = s.best ∧ s'.bestLoss = s.bestLoss) ∨
        ∃ p ∈ evaluated batches, s'.best = p.1 ∧ s'.bestLoss = san p.2)
  | [], s, s', h, hs => by
    simp only [run, Option.some.injEq] at h
    subst h
    exact ⟨hs, Loss.lt_irrefl' _, by simp [evaluated], Or.inl ⟨rfl, rfl⟩⟩
  | b :: rest, s, s', h, hs => by
    simp only [run] at h
    split at h
    · exact absurd h (by simp)
    · rename_i s1 h1
      obtain ⟨n1, m1, lo1, at1⟩ := cem_step_best h1 hs
      obtain ⟨n2, m2, lo2, at2⟩ := cem_run_best rest h n1
      have hev : ∀ p, p ∈ evaluated (b :: rest) ↔ p ∈ b.1.zip b.2 ∨ p ∈ evaluated rest := by
        intro p; simp [evaluated]
      refine ⟨n2, Loss.not_lt_trans n1 m2 m1, ?_, ?_⟩
      · intro p hp
        rcases (hev p).mp hp with hp | hp
        · exact Loss.not_lt_trans n1 m2 (lo1 p.2 (List.of_mem_zip hp).2)
        · exact lo2 p hp
      · rcases at2 with ⟨e1, e2⟩ | ⟨p, hp, e1, e2⟩
        · rcases at1 with ⟨f1, f2⟩ | ⟨p, hp, f1, f2⟩
          · exact Or.inl ⟨e1.trans f1, e2.trans f2⟩
          · exact Or.inr ⟨p, (hev p).mpr (Or.inl hp), e1.trans f1, e2.trans f2⟩
        · exact Or.inr ⟨p, (hev p).mpr (Or.inr hp), e1, e2⟩

/-- **best-so-far = minimum**: after any number of iterations `bestsofar_loss` is the minimum of the loss it started
with and all evaluated losses with NaN ↦ +∞ (it is one of them and none of them is smaller). -/
theorem cem_best_is_min {refit : D → List C → D} {numElites : Nat}
    (batches : List (List C × List (Loss Q))) {s s' : State (Loss Q) C D}
    (h : run Loss.isnan Loss.pinf refit numElites s batches = some s') (hs : s.bestLoss ≠ .nan) :
    IsMinLoss s.bestLoss ((evaluated batches).map (·.2)) s'.bestLoss := by
  obtain ⟨n, m, lo, att⟩ := cem_run_best batches h hs
  refine ⟨n, ?_, m, ?_⟩
  · rcases att with ⟨-, e⟩ | ⟨p, hp, -, e⟩
    · exact Or.inl e
    · exact Or.inr ⟨p.2, List.mem_map.mpr ⟨p, hp, rfl⟩, e⟩
  · intro l hl
    obtain ⟨p, hp, rfl⟩ := List.mem_map.mp hl
    exact lo p hp

/-- … and that description determines the value: the minimum is unique. -/
theorem cem_min_unique {start : Loss Q} {ev : List (Loss Q)} {m m' : Loss Q}
    (h : IsMinLoss start ev m) (h' : IsMinLoss start ev m') : m = m' := by
  obtain ⟨n, mem, ms, lo⟩ := h
  obtain ⟨n', mem', ms', lo'⟩ := h'
  refine Loss.eq_of_not_lt n n' ?_ ?_
  · rcases mem with e | ⟨l, hl, e⟩
    · exact e ▸ ms'
    · exact e ▸ lo' l hl
  · rcases mem' with e | ⟨l, hl, e⟩
    · exact e ▸ ms
    · exact e ▸ lo l hl

/-- **monotone**: the best-so-far loss after more iterations is never larger than after fewer (and never NaN). -/
theorem cem_best_monotone {refit : D → List C → D} {numElites : Nat}
    (b1 b2 : List (List C × List (Loss Q))) {s s1 s2 : State (Loss Q) C D}
    (h1 : run Loss.isnan Loss.pinf refit numElites s b1 = some s1)
    (h2 : run Loss.isnan Loss.pinf refit numElites s (b1 ++ b2) = some s2) (hs : s.bestLoss ≠ .nan) :
    s1.bestLoss ≠ .nan ∧ s2.bestLoss ≠ .nan ∧ ¬ s1.bestLoss < s2.bestLoss := by
  have happ : ∀ (b1 : List (List C × List (Loss Q))) (s : State (Loss Q) C D),
      run Loss.isnan Loss.pinf refit numElites s (b1 ++ b2) =
        (run Loss.isnan Loss.pinf refit numElites s b1).bind
          (fun t => run Loss.isnan Loss.pinf refit numElites t b2) := by
    intro b1
    induction b1 with
    | nil => intro s; simp [run]
    | cons b rest ih =>
      intro s
      simp only [List.cons_append, run]
      split
      · simp
      · exact ih _
  rw [happ, h1] at h2
  have n1 := (cem_run_best b1 h1 hs).1
  have r := cem_run_best b2 h2 n1
  exact ⟨n1, r.1, r.2.1⟩

/-- **attained**: from the initial state (`bestsofar` = initial mean, loss +∞) the stored pair is the initial pair or an
evaluated candidate together with its sanitised loss. -/
theorem cem_best_attained {refit : D → List C → D} {numElites : Nat}
    (batches : List (List C × List (Loss Q))) (d0 : D) (c0 : C) {s' : State (Loss Q) C D}
    (h : run Loss.isnan Loss.pinf refit numElites (initState Loss.pinf d0 c0) batches = some s') :
    (s'.best = c0 ∧ s'.bestLoss = .pinf) ∨ ∃ p ∈ evaluated batches, s'.best = p.1 ∧ s'.bestLoss = san p.2 :=
  (cem_run_best batches h (by simp [initState])).2.2.2

/-- **smallest finite loss**: from the initial state the stored loss is better than +∞ exactly when some evaluated
loss was (finite or −∞); then it is that candidate's own loss, the candidate is stored and its loss is not NaN —
NaN candidates are never `best` while a finite-loss candidate exists. -/
theorem cem_nan_never_best {refit : D → List C → D} {numElites : Nat}
    (batches : List (List C × List (Loss Q))) (d0 : D) (c0 : C) {s' : State (Loss Q) C D}
    (h : run Loss.isnan Loss.pinf refit numElites (initState Loss.pinf d0 c0) batches = some s')
    (hex : ∃ p ∈ evaluated batches, p.2.better = true) :
    s'.bestLoss.better = true ∧
    ∃ p ∈ evaluated batches, s'.best = p.1 ∧ s'.bestLoss = p.2 ∧ p.2 ≠ .nan ∧
      ∀ q ∈ evaluated batches, q.2 ≠ .nan → ¬ q.2 < p.2 := by
  obtain ⟨n, -, lo, att⟩ := cem_run_best batches h (by simp [initState])
  obtain ⟨p0, hp0, hb0⟩ := hex
  have hlt : s'.bestLoss < .pinf := by
    have h0 : san p0.2 = p0.2 := san_of_ne_nan (Loss.better_ne_nan hb0)
    have := lo p0 hp0
    rw [h0] at this
    exact Loss.lt_of_not_lt_of_lt n this ((Loss.lt_pinf_iff _).mpr hb0)
  have hbetter := (Loss.lt_pinf_iff _).mp hlt
  refine ⟨hbetter, ?_⟩
  rcases att with ⟨-, e⟩ | ⟨p, hp, e1, e2⟩
  · simp only [initState] at e
    rw [e] at hlt
    exact absurd hlt (Loss.not_pinf_lt _)
  · have hpn : p.2 ≠ .nan := by
      intro hnan
      rw [hnan, san_nan] at e2
      rw [e2] at hlt
      exact Loss.not_pinf_lt _ hlt
    rw [san_of_ne_nan hpn] at e2
    refine ⟨p, hp, e1, e2, hpn, ?_⟩
    intro q hq hqn
    have := lo q hq
    rwa [san_of_ne_nan hqn, e2] at this

/-- … and when no evaluated loss is better than +∞ (all NaN or +∞) the stored loss is still +∞. -/
theorem cem_best_inf_of_none {refit : D → List C → D} {numElites : Nat}
    (batches : List (List C × List (Loss Q))) (d0 : D) (c0 : C) {s' : State (Loss Q) C D}
    (h : run Loss.isnan Loss.pinf refit numElites (initState Loss.pinf d0 c0) batches = some s')
    (hno : ∀ p ∈ evaluated batches, p.2.better = false) : s'.bestLoss = .pinf := by
  rcases cem_best_attained batches d0 c0 h with ⟨-, e⟩ | ⟨p, hp, -, e⟩
  · exact e
  · have := hno p hp
    rw [e]
    cases hp2 : p.2 <;> simp_all [san, nan_to_inf, Loss.isnan, Loss.better]

/-- **elites are the smallest**: no non-elite candidate of the batch has a smaller sanitised loss than an elite one. -/
theorem cem_elite_sorted {numElites i j : Nat} {raw : List (Loss Q)} {a b : Loss Q}
    (hi : i ∈ elites Loss.isnan Loss.pinf numElites raw) (hj : j ∉ elites Loss.isnan Loss.pinf numElites raw)
    (ha : raw[i]? = some a) (hb : raw[j]? = some b) : ¬ san b < san a := by
  have := elite_le_rest (a := san a) (b := san b) hi hj
    (by simp [sanitize, List.getElem?_map, ha]) (by simp [sanitize, List.getElem?_map, hb])
  exact (sortLe_iff (san_ne_nan a)).mp this

/-- **NaN ranks last**: a NaN-loss candidate is elite only if every candidate of that iteration whose loss is better
than +∞ (finite) is elite too — NaN never displaces a finite-loss candidate. -/
theorem cem_nan_ranks_last {numElites i j : Nat} {raw : List (Loss Q)} {b : Loss Q}
    (hi : i ∈ elites Loss.isnan Loss.pinf numElites raw) (ha : raw[i]? = some .nan)
    (hb : raw[j]? = some b) (hfin : b.better = true) : j ∈ elites Loss.isnan Loss.pinf numElites raw := by
  by_contra hj
  have := cem_elite_sorted hi hj ha hb
  rw [san_nan, san_of_ne_nan (Loss.better_ne_nan hfin)] at this
  exact this ((Loss.lt_pinf_iff _).mpr hfin)

/-- the candidate that competes for best-so-far (`elite_indices[0]`) is elite and has a smallest sanitised loss -/
theorem cem_batch_best_is_argmin {refit : D → List C → D} {numElites : Nat} {s s' : State (Loss Q) C D}
    {samples : List C} {raw : List (Loss Q)}
    (h : update Loss.isnan Loss.pinf refit numElites s samples raw = some s') :
    ∃ bi l c, raw[bi]? = some l ∧ samples[bi]? = some c ∧ bi ∈ elites Loss.isnan Loss.pinf numElites raw ∧
      (∀ (j : Nat) (l' : Loss Q), raw[j]? = some l' → ¬ san l' < san l) ∧
      s'.bestLoss = (if s.bestLoss < san l then s.bestLoss else san l) := by
  obtain ⟨bi, l, c, hl, hc, hm, hmin, -, hbl, -⟩ := update_spec h
  exact ⟨bi, l, c, hl, hc, hm, hmin, hbl⟩

end Best

/-! ## concrete witnesses (hypotheses satisfiable; interpretation of "NaN never elite"; why NaN must be sanitised) -/

/-- a two-iteration history with a NaN, a tie and an all-NaN generation: the run exists and keeps (candidate 2, loss 3). -/
example : (run Loss.isnan Loss.pinf (fun (d : Unit) (_ : List Nat) => d) 1 (initState Loss.pinf () 0)
      [([1, 2, 3], [Loss.nan, Loss.fin 3, Loss.fin 3]), ([4, 5], [Loss.nan, Loss.nan])]).map
      (fun s => (s.best, s.bestLoss)) = some (2, Loss.fin 3) := by decide

/-- with fewer finite losses than elite slots the remaining slots are filled with NaN-loss candidates (by design). -/
theorem cem_nan_fills_leftover_slots_witness :
    elites Loss.isnan (Loss.pinf : Loss Nat) 2 [Loss.nan, Loss.fin 1, Loss.nan] = [1, 0] := by decide

/-- without the NaN → +∞ step the comparison `bestsofar_loss < best_loss` would let a NaN overwrite a finite best. -/
theorem cem_unsanitised_nan_overwrites_witness :
    upd_best_loss (Loss.fin 1 : Loss Nat) Loss.nan = Loss.nan ∧
    upd_best_loss (Loss.fin 1 : Loss Nat) (nan_to_inf Loss.isnan Loss.nan Loss.pinf) = Loss.fin 1 := by decide

end Rex.C18
