import RexModel.Gen.Compiled
import RexModel.Gen.Calls
import RexModel.Compiled.Exec
import Mathlib.Logic.Function.Iterate

/-! # C09 — compiled execution is a pure function, independent of the driving API

`U` = `run_until_supervisor` (one partition, excluding the supervisor), `S a` = `run_supervisor` with optional user
override `a`. The API of `rex.graph.Graph` is the algebra below; the theorems hold for *any* `U`, `S` (hence for the
real, jit-compiled ones, whose purity is JAX's contract), so what remains to be validated on the implementation
is only that the methods are these compositions — the correspondence check. Clipping of episode/step indices is
stated about the generated kernels. -/

namespace Rex.C09

open Rex.Gen.Compiled Rex.Gen.Calls

section Algebra
variable {G A : Type} (U : G → G) (S : Option A → G → G)

def run : G → G := fun g => S none (U g)
def reset : G → G := U
def step (a : Option A) : G → G := fun g => U (S a g)

/-- `reset()` followed by `n` default `step()` calls = `n` `run()` calls followed by one more partition -/
theorem reset_steps_eq_runs (n : Nat) (g : G) :
    (step U S none)^[n] (reset U g) = U ((run U S)^[n] g) := by
  induction n generalizing g with
  | zero => rfl
  | succ n ih =>
    rw [Function.iterate_succ_apply', Function.iterate_succ_apply', ih]
    rfl

/-- `rollout(carry_only=True)` = `fori_loop` of `run` = `run` iterated -/
def rolloutCarry (n : Nat) : G → G := fun g => Nat.rec g (fun _ acc => run U S acc) n

theorem rollout_eq_iter (n : Nat) (g : G) : rolloutCarry U S n g = (run U S)^[n] g := by
  induction n with
  | zero => rfl
  | succ n ih =>
    rw [Function.iterate_succ_apply']
    show run U S (rolloutCarry U S n g) = _
    rw [ih]

/-- `rollout(carry_only=False)` = `scan` of `run`: the trajectory; its last element is the carry-only result -/
def rolloutTraj : Nat → G → List G
  | 0, _ => []
  | n + 1, g => let g' := run U S g; g' :: rolloutTraj n g'

theorem rolloutTraj_length (n : Nat) (g : G) : (rolloutTraj U S n g).length = n := by
  induction n generalizing g with
  | zero => rfl
  | succ n ih => simp [rolloutTraj, ih]

theorem rolloutTraj_last (n : Nat) (g : G) :
    (rolloutTraj U S (n + 1) g).getLast? = some ((run U S)^[n + 1] g) := by
  induction n generalizing g with
  | zero => simp [rolloutTraj]
  | succ n ih =>
    have := ih (run U S g)
    simp only [rolloutTraj] at this ⊢
    rw [List.getLast?_cons_cons]
    rw [this]
    simp only [Function.iterate_succ_apply]

/-- the k-th element of the trajectory is the state after k+1 runs -/
theorem rolloutTraj_get (n k : Nat) (g : G) (h : k < n) :
    (rolloutTraj U S n g)[k]? = some ((run U S)^[k + 1] g) := by
  induction n generalizing g k with
  | zero => omega
  | succ n ih =>
    cases k with
    | zero => simp [rolloutTraj]
    | succ k =>
      simp only [rolloutTraj, List.getElem?_cons_succ]
      rw [ih k (run U S g) (by omega)]
      simp only [Function.iterate_succ_apply]

/-- closed form of the whole trajectory: element `k` is the state after `k + 1` runs, and there are exactly `n` of them -/
theorem rolloutTraj_eq_map (n : Nat) (g : G) :
    rolloutTraj U S n g = (List.range n).map (fun k => (run U S)^[k + 1] g) := by
  apply List.ext_getElem?
  intro k
  by_cases h : k < n
  · rw [rolloutTraj_get U S n k g h, List.getElem?_map, List.getElem?_range h]; rfl
  · have h1 : (rolloutTraj U S n g).length ≤ k := by rw [rolloutTraj_length]; omega
    have h2 : ((List.range n).map (fun k => (run U S)^[k + 1] g)).length ≤ k := by simp; omega
    rw [List.getElem?_eq_none h1, List.getElem?_eq_none h2]

/-- finishing the supervisor after `reset(); step()ⁿ` is exactly `n + 1` `run()` calls: the two driving styles meet at
every supervisor boundary, for every number of steps -/
theorem reset_steps_supervisor_eq_runs (n : Nat) (g : G) :
    S none ((step U S none)^[n] (reset U g)) = (run U S)^[n + 1] g := by
  rw [reset_steps_eq_runs, Function.iterate_succ_apply']
  rfl

/-- `run()ᵐ` then `reset(); step()ⁿ` = `reset(); step()^(m+n)`: switching the driving API in the middle of an episode
changes nothing -/
theorem runs_then_reset_steps (m n : Nat) (g : G) :
    (step U S none)^[n] (reset U ((run U S)^[m] g)) = (step U S none)^[m + n] (reset U g) := by
  rw [reset_steps_eq_runs, reset_steps_eq_runs, Nat.add_comm, Function.iterate_add_apply]

/-- a rollout of `m + n` runs is a rollout of `m` followed by a rollout of `n` from where the first ended -/
theorem rollout_split (m n : Nat) (g : G) :
    rolloutCarry U S (m + n) g = rolloutCarry U S n (rolloutCarry U S m g) := by
  rw [rollout_eq_iter, rollout_eq_iter, rollout_eq_iter, Nat.add_comm, Function.iterate_add_apply]

/-- the full trajectory of `m + n` runs is the trajectory of `m` runs followed by the trajectory of `n` runs from its end -/
theorem rolloutTraj_append (m n : Nat) (g : G) :
    rolloutTraj U S (m + n) g = rolloutTraj U S m g ++ rolloutTraj U S n ((run U S)^[m] g) := by
  induction m generalizing g with
  | zero => simp [rolloutTraj]
  | succ m ih =>
    rw [Nat.succ_add]
    simp only [rolloutTraj, List.cons_append, Function.iterate_succ_apply]
    rw [ih]

/-- a vmapped batch is the pointwise rollout: element `i` of the batched result is the rollout of element `i` -/
theorem vmap_rollout_pointwise (n : Nat) (gs : List G) (i : Nat) :
    (gs.map (rolloutCarry U S n))[i]? = (gs[i]?).map (fun g => (run U S)^[n] g) := by
  rw [List.getElem?_map]
  congr 1
  funext g
  exact rollout_eq_iter U S n g

/-- passing the supervisor's own step result to `step()` is the same as letting `step()` run it -/
theorem override_eq_default (own : G → A) (hS : ∀ g, S (some (own g)) g = S none g) (g : G) :
    step U S (some (own g)) g = step U S none g := by
  simp [step, hS]

/-- … at every step of an episode, not only the first -/
theorem override_steps_eq_default (own : G → A) (hS : ∀ g, S (some (own g)) g = S none g) (n : Nat) (g : G) :
    (fun g => step U S (some (own g)) g)^[n] g = (step U S none)^[n] g := by
  have : (fun g => step U S (some (own g)) g) = step U S none := funext (override_eq_default U S own hS)
  rw [this]

end Algebra

/-- out-of-range episode indices are clipped into `[0, max_eps - 1]`, not wrapped … -/
theorem eps_clip_in_range (eps maxEps : Int) (h : 0 < maxEps) :
    0 ≤ replace_eps_clip eps maxEps ∧ replace_eps_clip eps maxEps ≤ maxEps - 1 := by
  simp only [replace_eps_clip, Rex.clip]; omega

/-- … in-range indices are what the steps see … -/
theorem eps_clip_id (eps maxEps : Int) (h0 : 0 ≤ eps) (h1 : eps ≤ maxEps - 1) : replace_eps_clip eps maxEps = eps := by
  simp only [replace_eps_clip, Rex.clip]; omega

/-- … too small goes to the first episode, too large to the last (saturation, monotone) -/
theorem eps_clip_saturates (eps maxEps : Int) (h : 0 < maxEps) :
    (eps < 0 → replace_eps_clip eps maxEps = 0) ∧ (maxEps - 1 < eps → replace_eps_clip eps maxEps = maxEps - 1) := by
  simp only [replace_eps_clip, Rex.clip]; omega

theorem eps_clip_mono (a b maxEps : Int) (h : a ≤ b) : replace_eps_clip a maxEps ≤ replace_eps_clip b maxEps := by
  simp only [replace_eps_clip, Rex.clip]; omega

theorem step_clip_in_range (step maxStep : Int) (h : 0 < maxStep) :
    0 ≤ replace_step_clip step maxStep ∧ replace_step_clip step maxStep ≤ maxStep - 1 := by
  simp only [replace_step_clip, Rex.clip]; omega

theorem step_clip_id (step maxStep : Int) (h0 : 0 ≤ step) (h1 : step ≤ maxStep - 1) : replace_step_clip step maxStep = step := by
  simp only [replace_step_clip, Rex.clip]; omega

theorem step_clip_saturates (step maxStep : Int) (h : 0 < maxStep) :
    (step < 0 → replace_step_clip step maxStep = 0) ∧ (maxStep - 1 < step → replace_step_clip step maxStep = maxStep - 1) := by
  simp only [replace_step_clip, Rex.clip]; omega

/-- the supervisor is skipped exactly when no partition has run yet -/
theorem sup_skip_iff (step : Int) : sup_skip_pred step = true ↔ step = 0 := by
  simp [sup_skip_pred]

example : replace_eps_clip 7 3 = 2 ∧ replace_eps_clip (-3) 3 = 0 ∧ replace_eps_clip 1 3 = 1 := by decide

/-! ## The same on the concrete executor model (`Compiled/Exec.lean`) -/

/-- a rollout over a horizon of partitions (each a list of generations) is the iteration of single-partition runs: the
executor's state after `run; run; …` is its state after executing all generations in one go — nothing depends on where the
driving API cuts the horizon -/
theorem C09_exec_rollout_is_iterated_run {Val : Type} (winsOf : Rex.Sched.Wins) (step : Rex.Sched.Step Val)
    (st : Rex.Sched.XSt Val) (parts : List (List (List Rex.Sched.Vtx))) :
    parts.foldl (fun s p => Rex.Sched.exec winsOf step s p) st = Rex.Sched.exec winsOf step st parts.flatten :=
  Rex.Sched.exec_partitions winsOf step st parts

/-- … and cutting it in two anywhere gives the same state -/
theorem C09_exec_split {Val : Type} (winsOf : Rex.Sched.Wins) (step : Rex.Sched.Step Val)
    (st : Rex.Sched.XSt Val) (A B : List (List Rex.Sched.Vtx)) :
    Rex.Sched.exec winsOf step st (A ++ B) = Rex.Sched.exec winsOf step (Rex.Sched.exec winsOf step st A) B :=
  Rex.Sched.exec_append winsOf step st A B

end Rex.C09
