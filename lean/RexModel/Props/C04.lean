import RexModel.Gen.Async
import RexModel.Async.Records
import RexModel.Async.Chain
import RexModel.Props.FieldTime
import Mathlib.Algebra.Order.Field.Basic
import Mathlib.Tactic.Linarith
import Mathlib.Tactic.Ring
import Mathlib.Order.Monotone.Basic

/-! # C04 — step start times obey the rate / phase / delay / scheduling law

Statements about the generated kernels of `push_scheduled_ts`, `push_phase_shift`, `push_step`, `push_ts_input`
(`RexModel/Gen/Async.lean`), for every linearly ordered field (exact arithmetic) and every monotone rounding
function `rnd` (Python's `round(·, 6)` on the simulated clock, resolution 1 µs). -/

namespace Rex.C04

open Rex.Gen.Async

variable {α : Type} [Field α] [LinearOrder α] [IsStrictOrderedRing α]

/-- **Start law.** A step starts at the latest of: scheduled time plus accumulated drift, the end of the previous
step, and the arrival of the last blocking message it waits for. -/
theorem start_law (tsSched tsMax tsEndPrev drift : α) :
    ts_start tsSched (phase false (phase_inputs tsMax tsSched) (phase_last tsEndPrev tsSched) drift)
      = max (max tsMax tsEndPrev) (tsSched + drift) := by
  simp only [ts_start, phase, phase_inputs, phase_last, Bool.false_eq_true, if_false]
  rcases le_total tsMax tsEndPrev with h1 | h1 <;>
  rcases le_total (max (tsMax - tsSched) (tsEndPrev - tsSched)) drift with h2 | h2 <;>
  simp only [max_def] at h2 ⊢ <;> split_ifs at h2 ⊢ <;> linarith

/-- **Advance with only blocking inputs**: the schedule (and drift) is ignored. -/
theorem start_law_advance (tsSched tsMax tsEndPrev drift : α) :
    ts_start tsSched (phase true (phase_inputs tsMax tsSched) (phase_last tsEndPrev tsSched) drift)
      = max tsMax tsEndPrev := by
  simp only [ts_start, phase, phase_inputs, phase_last, if_true]
  rcases le_total tsMax tsEndPrev with h1 | h1 <;>
  simp only [max_def] <;> split_ifs <;> linarith

/-- `only_blocking` is exactly "advance and every input is blocking". -/
theorem only_blocking_spec (advance allBlocking : Bool) :
    only_blocking advance allBlocking = true ↔ advance = true ∧ allBlocking = true := by
  simp [only_blocking]

/-- **Never early** (unless advancing on blocking inputs only): with non-negative drift a step does not start
before its scheduled time. -/
theorem never_early (tsSched tsMax tsEndPrev drift : α) (hd : 0 ≤ drift) :
    tsSched ≤ ts_start tsSched (phase false (phase_inputs tsMax tsSched) (phase_last tsEndPrev tsSched) drift) := by
  rw [start_law]
  exact le_trans (by linarith) (le_max_right _ _)

/-- a step never starts before its predecessor has ended, nor before its blocking inputs are in -/
theorem start_after_prev_and_inputs (ob : Bool) (tsSched tsMax tsEndPrev drift : α) :
    tsEndPrev ≤ ts_start tsSched (phase ob (phase_inputs tsMax tsSched) (phase_last tsEndPrev tsSched) drift) ∧
    tsMax ≤ ts_start tsSched (phase ob (phase_inputs tsMax tsSched) (phase_last tsEndPrev tsSched) drift) := by
  cases ob
  · rw [start_law]
    exact ⟨le_trans (le_max_right _ _) (le_max_left _ _), le_trans (le_max_left _ _) (le_max_left _ _)⟩
  · rw [start_law_advance]
    exact ⟨le_max_right _ _, le_max_left _ _⟩

/-- **End law**: a step ends one sampled computation delay after it started (both places that compute it agree). -/
theorem end_law (tsStart delay : α) : ts_output tsStart delay = tsStart + delay ∧ ts_end_sc tsStart delay = tsStart + delay :=
  ⟨rfl, rfl⟩

/-- **FREQUENCY drift**: the drift only grows, by exactly the overrun of the previous step beyond the drifted schedule. -/
theorem frequency_drift (drift tsEndPrev tsSched : α) :
    phase_scheduled_freq drift (phase_last tsEndPrev tsSched) drift = max drift (tsEndPrev - tsSched) := by
  simp only [phase_scheduled_freq, phase_last, Nat.cast_zero]
  rcases le_total (tsEndPrev - tsSched - drift) 0 with h | h
  · rw [max_eq_left h, max_eq_left (by linarith)]; ring
  · rw [max_eq_right h, max_eq_right (by linarith)]; ring

theorem frequency_drift_mono (drift tsEndPrev tsSched : α) :
    drift ≤ phase_scheduled_freq drift (phase_last tsEndPrev tsSched) drift := by
  rw [frequency_drift]; exact le_max_left _ _

theorem frequency_drift_nonneg (drift tsEndPrev tsSched : α) (h : 0 ≤ drift) :
    0 ≤ phase_scheduled_freq drift (phase_last tsEndPrev tsSched) drift :=
  le_trans h (frequency_drift_mono _ _ _)

/-- **FREQUENCY spacing.** If step k was not held back by a late blocking input beyond its own schedule shift
(`tsMax_k ≤ max (tsSched_k + drift_k) tsEndPrev_k`), then the next start is at least as far after it as the
scheduled times are apart (`1/rate`, up to the rounding of the scheduled times). -/
theorem frequency_spacing (tsSched tsSched' tsMax tsMax' tsEndPrev tsEndPrev' drift : α)
    (hin : tsMax ≤ max (tsSched + drift) tsEndPrev) :
    let start := ts_start tsSched (phase false (phase_inputs tsMax tsSched) (phase_last tsEndPrev tsSched) drift)
    let drift' := phase_scheduled_freq drift (phase_last tsEndPrev tsSched) drift
    let start' := ts_start tsSched' (phase false (phase_inputs tsMax' tsSched') (phase_last tsEndPrev' tsSched') drift')
    tsSched' - tsSched ≤ start' - start := by
  intro start drift' start'
  have h1 : start = max (max tsMax tsEndPrev) (tsSched + drift) := start_law _ _ _ _
  have h2 : start' = max (max tsMax' tsEndPrev') (tsSched' + drift') := start_law _ _ _ _
  have h3 : drift' = max drift (tsEndPrev - tsSched) := frequency_drift _ _ _
  have hs : start = tsSched + drift' := by
    rw [h1, h3]
    rcases le_total (tsSched + drift) tsEndPrev with h | h
    · rw [max_eq_right h] at hin
      rw [max_eq_right hin, max_eq_left h, max_eq_right (by linarith)]; ring
    · rw [max_eq_left h] at hin
      rw [max_eq_right (max_le hin h), max_eq_left (by linarith)]
  have : tsSched' + drift' ≤ start' := by rw [h2]; exact le_max_right _ _
  linarith

/-- **PHASE scheduling** forgets the drift: the node is back on its `k/rate + phase` grid as soon as the previous
step has ended and the blocking inputs are in by the scheduled time. -/
theorem phase_resync (tsSched tsMax tsEndPrev : α) (h1 : tsEndPrev ≤ tsSched) (h2 : tsMax ≤ tsSched) :
    ts_start tsSched (phase false (phase_inputs tsMax tsSched) (phase_last tsEndPrev tsSched)
      (phase_scheduled_phase : α)) = tsSched := by
  rw [start_law]
  simp only [phase_scheduled_phase, Nat.cast_zero, add_zero]
  exact max_eq_right (max_le h2 h1)

/-- the scheduling mode test really distinguishes FREQUENCY (0) from PHASE (1) -/
theorem sched_is_frequency_spec : sched_is_frequency 0 = true ∧ sched_is_frequency 1 = false := by
  simp [sched_is_frequency]

/-- **Scheduled time**: `k/rate + phase`, rounded to the clock resolution. -/
theorem scheduled_ts_spec (rnd : α → α) (k : Int) (rate ph : α) :
    scheduled_ts rnd k rate ph = rnd ((k : α) / rate + ph) := rfl

/-- scheduled times are non-decreasing in the tick for a positive rate and monotone rounding -/
theorem scheduled_ts_mono (rnd : α → α) (hm : Monotone rnd) (k k' : Int) (hk : k ≤ k') (rate ph : α) (hr : 0 < rate) :
    scheduled_ts rnd k rate ph ≤ scheduled_ts rnd k' rate ph := by
  simp only [scheduled_ts]
  apply hm
  have : (k : α) ≤ (k' : α) := by exact_mod_cast hk
  have := div_le_div_of_nonneg_right this hr.le
  linarith

/-- **Arrival law**: the output reaches a consumer one sampled communication delay after the step ended, never
before the previous message on that connection (FIFO), rounded to the clock resolution. -/
theorem arrival_law (rnd : α → α) (sent delay prev : α) :
    recv_sc rnd sent delay prev = rnd (max (sent + delay) prev) := rfl

theorem arrival_ge (rnd : α → α) (hm : Monotone rnd) (sent delay prev : α) (hd : 0 ≤ delay) :
    rnd sent ≤ recv_sc rnd sent delay prev := by
  simp only [recv_sc]
  exact hm (le_trans (by linarith) (le_max_left _ _))

open Rex.FieldTime

/-- **The start law holds for every recorded step, under every schedule** (machine level): in every state the asynchronous machine
can reach — any graph, delay streams, step functions, thread interleaving — each recorded step started at the latest of its
scheduled time plus accumulated drift, the end of the previous step and the arrival of its blocking inputs (the latter two only,
for `advance` with only blocking inputs), and ended one sampled computation delay later. -/
theorem C04_recorded_steps_obey_start_law (rnd : α → α) (fdiv : α → α → Int) :
    letI := fieldTime α rnd fdiv
    ∀ (cfg : Rex.Async.Cfg α) (n : Nat) (nc : Rex.Async.NodeCfg α), cfg.node n = some nc →
    ∀ (σ : List Rex.Async.Rule) (s : Rex.Async.MSt α),
      Rex.Conf.Run (Rex.Async.machine cfg).toNet.sys (Rex.Async.initState cfg) σ s →
    ∀ r : Rex.Async.StepRec α, Rex.Async.Val.stepRec r ∈ s.q (.node n .record) →
      r.tsStart = (if only_blocking nc.advance (nc.inputs.all cfg.blocking) = true then max r.hdr.tsMax r.hdr.tsEndPrev
                   else max (max r.hdr.tsMax r.hdr.tsEndPrev) (r.hdr.tsScheduled + r.hdr.phaseScheduled)) ∧
      r.tsEnd = r.tsStart + r.delay := by
  letI := fieldTime α rnd fdiv
  intro cfg n nc hnode σ s hrun r hr
  have hinv := Rex.Async.recInv_run cfg n nc hnode hrun (Rex.Async.recInv_init cfg n nc)
  have hw := hinv.2.1 _ hr
  obtain ⟨⟨h1, h2, h3, h4⟩, h5⟩ := hw
  refine ⟨?_, h5⟩
  rw [h1, h2, h3, h4]
  cases hob : only_blocking nc.advance (nc.inputs.all cfg.blocking) with
  | true => simp only [if_true]; exact start_law_advance _ _ _ _
  | false => simp only [Bool.false_eq_true, if_false]; exact start_law _ _ _ _

/-- **The timing recurrences hold along every node's record, under every schedule** (machine level): in every state the
asynchronous machine can reach, reading the recorded steps of a node in order,
* the first step's "previous end" and accumulated schedule shift are 0;
* each later step's "previous end" is its predecessor's start plus the predecessor's computation delay, and its accumulated
  shift is the predecessor's shift plus the predecessor's overrun `max 0 (ts_end_prev − ts_scheduled − shift)` under FREQUENCY
  scheduling, and 0 under PHASE scheduling;
* each step's scheduled time is `rnd (seq / rate + phase)`. -/
theorem C04_recorded_steps_obey_recurrences (rnd : α → α) (fdiv : α → α → Int) :
    letI := fieldTime α rnd fdiv
    ∀ (cfg : Rex.Async.Cfg α) (n : Nat) (nc : Rex.Async.NodeCfg α), cfg.node n = some nc →
    ∀ (σ : List Rex.Async.Rule) (s : Rex.Async.MSt α),
      Rex.Conf.Run (Rex.Async.machine cfg).toNet.sys (Rex.Async.initState cfg) σ s →
    (∀ x, (Rex.Async.recLine (s.q (.node n .record)))[0]? = some x → x.hdr.tsEndPrev = 0 ∧ x.hdr.phaseScheduled = 0) ∧
    (∀ i a b, (Rex.Async.recLine (s.q (.node n .record)))[i]? = some a →
        (Rex.Async.recLine (s.q (.node n .record)))[i + 1]? = some b →
        b.hdr.tsEndPrev = a.tsStart + a.delay ∧
        b.hdr.phaseScheduled = (if nc.scheduling = 0 then
            a.hdr.phaseScheduled + max 0 (a.hdr.tsEndPrev - a.hdr.tsScheduled - a.hdr.phaseScheduled) else 0)) ∧
    (∀ x ∈ Rex.Async.recLine (s.q (.node n .record)), x.hdr.tsScheduled = rnd ((x.tick : α) / nc.rate + nc.phase)) := by
  letI := fieldTime α rnd fdiv
  intro cfg n nc hnode σ s hrun
  have hc := Rex.Async.chainInv_run cfg n nc hnode hrun (Rex.Async.chainInv_init cfg n nc)
  have hr := Rex.Async.recInv_run cfg n nc hnode hrun (Rex.Async.recInv_init cfg n nc)
  refine ⟨?_, ?_, ?_⟩
  · intro x hx
    have h0 := Rex.Async.recLine_getElem_stepLine n s 0 x hx
    have hf := hc.first
    unfold Rex.Async.FirstOk at hf
    rw [List.head?_eq_getElem?, h0] at hf
    simpa [Rex.Async.zeroT] using hf
  · intro i a b ha hb
    obtain ⟨h1, h2⟩ := Rex.Async.linked_getElem nc _ hc.linked i a b
      (Rex.Async.recLine_getElem_stepLine n s i a ha) (Rex.Async.recLine_getElem_stepLine n s (i + 1) b hb)
    refine ⟨h1, ?_⟩
    rw [h2]
    obtain ⟨r, hm, he⟩ := Rex.Async.mem_recLine_stepRec _ a (List.mem_of_getElem? ha)
    have hw := (hr.2.1 _ hm).1.2.2.2
    subst he
    have hw' : r.hdr.phaseLast = r.hdr.tsEndPrev - r.hdr.tsScheduled := hw
    by_cases hsch : nc.scheduling = 0
    · have e : sched_is_frequency nc.scheduling = true := by simp [sched_is_frequency, hsch]
      rw [hsch] at e
      simp only [Rex.Async.driftAfter, e, if_true, phase_scheduled_freq, hsch, hw', Nat.cast_zero]
    · have e : sched_is_frequency nc.scheduling = false := by simp [sched_is_frequency, hsch]
      simp only [Rex.Async.driftAfter, e, Bool.false_eq_true, if_false, phase_scheduled_phase, hsch, Nat.cast_zero]
  · intro x hx
    have hmem : x ∈ Rex.Async.stepLine n s := by
      unfold Rex.Async.stepLine
      exact List.mem_append_left _ (List.mem_append_left _ hx)
    exact hc.sched x hmem

/-- **Steps of one node never overlap, and never start before their schedule, under every schedule** (machine level): reading the
recorded steps of a node in order, each step starts no earlier than its predecessor ended (`start + computation delay`); and unless the
node ignores its schedule (`advance` with only blocking inputs), no step starts before its scheduled time plus the accumulated shift. -/
theorem C04_recorded_steps_do_not_overlap (rnd : α → α) (fdiv : α → α → Int) :
    letI := fieldTime α rnd fdiv
    ∀ (cfg : Rex.Async.Cfg α) (n : Nat) (nc : Rex.Async.NodeCfg α), cfg.node n = some nc →
    ∀ (σ : List Rex.Async.Rule) (s : Rex.Async.MSt α),
      Rex.Conf.Run (Rex.Async.machine cfg).toNet.sys (Rex.Async.initState cfg) σ s →
    (∀ i a b, (Rex.Async.recLine (s.q (.node n .record)))[i]? = some a →
        (Rex.Async.recLine (s.q (.node n .record)))[i + 1]? = some b → a.tsStart + a.delay ≤ b.tsStart) ∧
    (only_blocking nc.advance (nc.inputs.all cfg.blocking) = false →
      ∀ x ∈ Rex.Async.recLine (s.q (.node n .record)), x.hdr.tsScheduled + x.hdr.phaseScheduled ≤ x.tsStart) := by
  letI := fieldTime α rnd fdiv
  intro cfg n nc hnode σ s hrun
  have hrec := C04_recorded_steps_obey_recurrences (α := α) rnd fdiv cfg n nc hnode σ s hrun
  have hlaw := C04_recorded_steps_obey_start_law (α := α) rnd fdiv cfg n nc hnode σ s hrun
  refine ⟨?_, ?_⟩
  · intro i a b ha hb
    obtain ⟨hprev, _⟩ := hrec.2.1 i a b ha hb
    obtain ⟨r, hm, he⟩ := Rex.Async.mem_recLine_stepRec _ b (List.mem_of_getElem? hb)
    have hs := (hlaw r hm).1
    subst he
    simp only at hprev ⊢
    rw [hs, ← hprev]
    split
    · exact le_max_right _ _
    · exact le_trans (le_max_right _ _) (le_max_left _ _)
  · intro hob x hx
    obtain ⟨r, hm, he⟩ := Rex.Async.mem_recLine_stepRec _ x hx
    have hs := (hlaw r hm).1
    subst he
    simp only at ⊢
    rw [hs, hob]
    simp only [Bool.false_eq_true, if_false]
    exact le_max_right _ _

/-- **The accumulated schedule shift never decreases under FREQUENCY scheduling and is never negative** (machine level). -/
theorem C04_shift_monotone (rnd : α → α) (fdiv : α → α → Int) :
    letI := fieldTime α rnd fdiv
    ∀ (cfg : Rex.Async.Cfg α) (n : Nat) (nc : Rex.Async.NodeCfg α), cfg.node n = some nc →
    ∀ (σ : List Rex.Async.Rule) (s : Rex.Async.MSt α),
      Rex.Conf.Run (Rex.Async.machine cfg).toNet.sys (Rex.Async.initState cfg) σ s →
    ∀ i a b, (Rex.Async.recLine (s.q (.node n .record)))[i]? = some a →
        (Rex.Async.recLine (s.q (.node n .record)))[i + 1]? = some b →
        (nc.scheduling = 0 → a.hdr.phaseScheduled ≤ b.hdr.phaseScheduled) ∧ (nc.scheduling ≠ 0 → b.hdr.phaseScheduled = 0) := by
  letI := fieldTime α rnd fdiv
  intro cfg n nc hnode σ s hrun i a b ha hb
  have hrec := C04_recorded_steps_obey_recurrences (α := α) rnd fdiv cfg n nc hnode σ s hrun
  obtain ⟨_, hd⟩ := hrec.2.1 i a b ha hb
  refine ⟨?_, ?_⟩
  · intro h0
    rw [hd]; simp only [h0, if_true]
    exact le_add_of_nonneg_right (le_max_left _ _)
  · intro h0
    rw [hd]; simp only [h0, if_false]

/-- **The arrival law holds for every recorded message, under every schedule** (machine level): in every state the asynchronous
machine can reach, reading the consumed-message record of a connection in order, the receive times are exactly the arrival
recurrence over the recorded send times and the connection's sampled delays,
`recv_k = rnd (max (sent_k + delay_k) recv_{k-1})` with `recv_{-1} = 0` — although the receive time is computed in one handler
(`push_ts_input`, from the announced end time), carried as a delay `recv − sent`, and re-assembled in another (`push_zip`, from the
message's own send time), by three different threads. Needs only that rounding is idempotent. -/
theorem C04_recorded_arrivals_obey_law (rnd : α → α) (fdiv : α → α → Int) (hidem : ∀ x, rnd (rnd x) = rnd x) :
    letI := fieldTime α rnd fdiv
    ∀ (cfg : Rex.Async.Cfg α) (c : Nat) (cc : Rex.Async.ConnCfg α), cfg.conn c = some cc → Rex.Async.WFConn cfg c →
    ∀ (σ : List Rex.Async.Rule) (s : Rex.Async.MSt α),
      Rex.Conf.Run (Rex.Async.machine cfg).toNet.sys (Rex.Async.initState cfg) σ s →
      (s.q (.conn c .record)).filterMap Rex.Async.recvRec
        = Rex.Async.recvChain cc.commDelay 0 0 ((s.q (.conn c .record)).filterMap Rex.Async.sentRec) := by
  letI := fieldTime α rnd fdiv
  intro cfg c cc hcc hwf σ s hrun
  have hi := Rex.Async.arrInv_run cfg c cc hcc hwf hrun (Rex.Async.arrInv_init cfg c cc)
  have h1 := Rex.Async.recorded_recv (s.q (.conn c .record)) hi.wfR
  have h2 := hi.recorded_delays
  have h2' : (s.q (.conn c .record)).filterMap Rex.Async.delayRec
      = List.zipWith delay_sc (Rex.Async.recvChain cc.commDelay 0 Rex.Async.zeroT ((s.q (.conn c .record)).filterMap Rex.Async.sentRec))
          ((s.q (.conn c .record)).filterMap Rex.Async.sentRec) := h2
  rw [h1, h2']
  have hz : (Rex.Async.zeroT : α) = 0 := by simp [Rex.Async.zeroT]
  rw [hz]
  exact zip_of_delay rnd fdiv hidem cc.commDelay _ 0 0

-- non-vacuity of the hypotheses used above
example : (0 : ℚ) ≤ 1 / 10 ∧ ((3 : ℚ) / 100 ≤ max (1 / 10 + 0) (2 / 100)) := by
  refine ⟨by norm_num, ?_⟩
  exact le_trans (by norm_num) (le_max_left _ _)

end Rex.C04
