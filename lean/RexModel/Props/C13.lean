import RexModel.Async.Machine

/-! # C13 — recording is faithful and never changes the execution

* `record_noninterference` (every SPSC network, hence the rex machine): queues that nobody consumes — the records —
  are write-only: two states that agree on the private states and on every consumed queue enable the same rules
  and stay in agreement after firing the same rule, whatever their records contain. Switching recording off,
  truncating it (`max_records`) or changing what is stored in a row cannot influence the execution.
* the record rows of the compiled runtime as a list: a write at the step's own sequence number, never-executed
  rows keep their initial `-1` marker, and a write beyond the allocated length is silently dropped (JAX scatter
  semantics) — so faithfulness needs the allocation hypothesis `seq < rows.length`, which the check validates per
  compiled instance. -/

namespace Rex.C13

open Rex.Net Rex.Async

variable {Q R V P : Type} [DecidableEq R]

/-- agreement on everything the execution can read -/
def Agree (N : Net Q R V P) (s s' : St Q R V P) : Prop :=
  s.priv = s'.priv ∧ ∀ q, N.cons q ≠ none → s.q q = s'.q q

theorem view_eq_of_agree (N : Net Q R V P) (r : R) (s s' : St Q R V P) (h : Agree N s s') :
    N.view r s = N.view r s' := by
  funext q
  unfold Net.view
  by_cases hc : N.cons q = some r
  · simp only [hc, if_true]
    exact h.2 q (by rw [hc]; simp)
  · simp [hc]

/-- **Non-interference of records.** -/
theorem record_noninterference (N : Net Q R V P) (r : R) (s s' : St Q R V P) (h : Agree N s s') :
    (N.guard r s ↔ N.guard r s') ∧ Agree N (N.fire r s) (N.fire r s') := by
  have hv := view_eq_of_agree N r s s' h
  have hp : s.priv r = s'.priv r := by rw [h.1]
  constructor
  · unfold Net.guard; rw [hv, hp]
  · unfold Net.fire
    rw [hv, hp]
    cases hs : N.step r (s'.priv r) (N.view r s') with
    | none => exact h
    | some res =>
      constructor
      · simp only [Net.apply]; rw [h.1]
      · intro q hq
        simp only [Net.apply]
        rw [h.2 q hq]

/-- along whole executions: the same schedule keeps two differently-recorded systems in agreement -/
theorem record_noninterference_run (N : Net Q R V P) (σ : List R) (s s' : St Q R V P) (h : Agree N s s') :
    Agree N (σ.foldl (fun st r => N.fire r st) s) (σ.foldl (fun st r => N.fire r st) s') := by
  induction σ generalizing s s' with
  | nil => exact h
  | cons r σ ih => exact ih _ _ (record_noninterference N r s s' h).2

/-- the rex machine: step records and message records are such write-only queues -/
theorem rex_records_are_write_only {T : Type} [TimeLike T] (cfg : Cfg T) (n c : Nat) :
    (machine cfg).toNet.cons (.node n .record) = none ∧ (machine cfg).toNet.cons (.conn c .record) = none :=
  ⟨rfl, rfl⟩

section Rows
variable {Row : Type}

/-- the row of the executed step holds what was written, provided the record was allocated long enough -/
theorem record_row_present (rows : List Row) (seq : Nat) (row : Row) (h : seq < rows.length) :
    (rows.set seq row)[seq]'(by simp; exact h) = row := by simp

/-- all other rows are untouched: never-executed rows keep their `-1` marker -/
theorem record_rows_untouched (rows : List Row) (seq i : Nat) (row : Row) (hi : i < rows.length) (hne : i ≠ seq) :
    (rows.set seq row)[i]'(by simp; exact hi) = rows[i] := by
  simp [List.getElem_set, Ne.symm hne]

/-- a write beyond the allocated length is dropped without any error: the row is lost -/
theorem record_write_out_of_bounds_dropped (rows : List Row) (seq : Nat) (row : Row) (h : rows.length ≤ seq) :
    rows.set seq row = rows := List.set_eq_of_length_le h

/-- truncated recording keeps the first `max_records` rows of what full recording would have kept -/
theorem max_records_keeps_first (full : List Row) (maxRecords : Nat) :
    (full.foldl (fun acc r => if acc.length < maxRecords then acc ++ [r] else acc) []) = full.take maxRecords := by
  suffices H : ∀ (full acc : List Row), acc.length ≤ maxRecords →
      full.foldl (fun acc r => if acc.length < maxRecords then acc ++ [r] else acc) acc = acc ++ full.take (maxRecords - acc.length) by
    simpa using H full [] (Nat.zero_le _)
  intro full
  induction full with
  | nil => intro acc _; simp
  | cons x xs ih =>
    intro acc hacc
    simp only [List.foldl_cons]
    split
    · rename_i hlt
      rw [ih _ (by simp; omega)]
      simp only [List.length_append, List.length_cons, List.length_nil, List.append_assoc, List.singleton_append]
      have : maxRecords - acc.length = (maxRecords - (acc.length + (0 + 1))) + 1 := by omega
      rw [this, List.take_succ_cons]
    · rename_i hge
      have : maxRecords - acc.length = 0 := by omega
      rw [ih _ hacc, this]; simp

end Rows

end Rex.C13
