import RexModel.Async.Machine
import RexModel.Async.Faithful

/-! # C13 — recording is faithful and never changes the execution

* `record_noninterference` (every SPSC network, hence the rex machine): queues that nobody consumes — the records —
  are write-only: two states that agree on the private states and on every consumed queue enable the same rules
  and stay in agreement after firing the same rule, whatever their records contain. Switching recording off,
  truncating it (`max_records`) or changing what is stored in a row cannot influence the execution.
* the record rows of the compiled runtime as a list: a write at the step's own sequence number, never-executed
  rows keep their initial `-1` marker, and a write beyond the allocated length is silently dropped (JAX scatter
  semantics) — so faithfulness needs the allocation hypothesis `seq < rows.length`, which the check validates per
  compiled instance. -/

namespace Rex.C13

open Rex.Net Rex.Async

variable {Q R V P : Type} [DecidableEq R]

/-- agreement on everything the execution can read -/
def Agree (N : Net Q R V P) (s s' : St Q R V P) : Prop :=
  s.priv = s'.priv ∧ ∀ q, N.cons q ≠ none → s.q q = s'.q q

theorem view_eq_of_agree (N : Net Q R V P) (r : R) (s s' : St Q R V P) (h : Agree N s s') :
    N.view r s = N.view r s' := by
  funext q
  unfold Net.view
  by_cases hc : N.cons q = some r
  · simp only [hc, if_true]
    exact h.2 q (by rw [hc]; simp)
  · simp [hc]

/-- **Non-interference of records.** -/
theorem record_noninterference (N : Net Q R V P) (r : R) (s s' : St Q R V P) (h : Agree N s s') :
    (N.guard r s ↔ N.guard r s') ∧ Agree N (N.fire r s) (N.fire r s') := by
  have hv := view_eq_of_agree N r s s' h
  have hp : s.priv r = s'.priv r := by rw [h.1]
  constructor
  · unfold Net.guard; rw [hv, hp]
  · unfold Net.fire
    rw [hv, hp]
    cases hs : N.step r (s'.priv r) (N.view r s') with
    | none => exact h
    | some res =>
      constructor
      · simp only [Net.apply]; rw [h.1]
      · intro q hq
        simp only [Net.apply]
        rw [h.2 q hq]

/-- along whole executions: the same schedule keeps two differently-recorded systems in agreement -/
theorem record_noninterference_run (N : Net Q R V P) (σ : List R) (s s' : St Q R V P) (h : Agree N s s') :
    Agree N (σ.foldl (fun st r => N.fire r st) s) (σ.foldl (fun st r => N.fire r st) s') := by
  induction σ generalizing s s' with
  | nil => exact h
  | cons r σ ih => exact ih _ _ (record_noninterference N r s s' h).2

/-- the rex machine: step records and message records are such write-only queues -/
theorem rex_records_are_write_only {T : Type} [TimeLike T] (cfg : Cfg T) (n c : Nat) :
    (machine cfg).toNet.cons (.node n .record) = none ∧ (machine cfg).toNet.cons (.conn c .record) = none :=
  ⟨rfl, rfl⟩

section Rows
variable {Row : Type}

/-- the row of the executed step holds what was written, provided the record was allocated long enough -/
theorem record_row_present (rows : List Row) (seq : Nat) (row : Row) (h : seq < rows.length) :
    (rows.set seq row)[seq]'(by simp; exact h) = row := by simp

/-- all other rows are untouched: never-executed rows keep their `-1` marker -/
theorem record_rows_untouched (rows : List Row) (seq i : Nat) (row : Row) (hi : i < rows.length) (hne : i ≠ seq) :
    (rows.set seq row)[i]'(by simp; exact hi) = rows[i] := by
  simp [List.getElem_set, Ne.symm hne]

/-- a write beyond the allocated length is dropped without any error: the row is lost -/
theorem record_write_out_of_bounds_dropped (rows : List Row) (seq : Nat) (row : Row) (h : rows.length ≤ seq) :
    rows.set seq row = rows := List.set_eq_of_length_le h

/-- truncated recording keeps the first `max_records` rows of what full recording would have kept -/
theorem max_records_keeps_first (full : List Row) (maxRecords : Nat) :
    (full.foldl (fun acc r => if acc.length < maxRecords then acc ++ [r] else acc) []) = full.take maxRecords := by
  suffices H : ∀ (full acc : List Row), acc.length ≤ maxRecords →
      full.foldl (fun acc r => if acc.length < maxRecords then acc ++ [r] else acc) acc = acc ++ full.take (maxRecords - acc.length) by
    simpa using H full [] (Nat.zero_le _)
  intro full
  induction full with
  | nil => intro acc _; simp
  | cons x xs ih =>
    intro acc hacc
    simp only [List.foldl_cons]
    split
    · rename_i hlt
      rw [ih _ (by simp; omega)]
      simp only [List.length_append, List.length_cons, List.length_nil, List.append_assoc, List.singleton_append]
      have : maxRecords - acc.length = (maxRecords - (acc.length + (0 + 1))) + 1 := by omega
      rw [this, List.take_succ_cons]
    · rename_i hge
      have : maxRecords - acc.length = 0 := by omega
      rw [ih _ hacc, this]; simp

end Rows

/-! ## The threaded runtime's step record is faithful, under every schedule (machine level) -/

section Faithful
variable {T : Type} [TimeLike T]

/-- **Every recorded step is faithful**: in every state the asynchronous machine can reach — any graph, delay streams, step function,
interleaving of the node, connection and user threads — each row of a node's step record has as its output the node's step function
applied to exactly what the row says the step used: its sequence number, start time, rng index, state before and input windows. For
the supervisor this holds although the result is computed by the user and travels back through the observation/action handshake. -/
theorem C13_recorded_steps_are_faithful (cfg : Cfg T) (n : Nat) (nc : NodeCfg T) (hnode : cfg.node n = some nc)
    {σ : List Rule} {s : MSt T} (h : Rex.Conf.Run (machine cfg).toNet.sys (initState cfg) σ s) :
    ∀ r : StepRec T, Val.stepRec r ∈ s.q (.node n .record) → r.output = some (cfg.f (sinOf n r)).output := by
  intro r hr
  have hi := finv_run cfg n nc hnode h (finv_init cfg n nc hnode)
  apply hi.faithful r
  show r ∈ stepsOf (s.q (.node n .record))
  simp only [stepsOf, List.mem_filterMap]
  exact ⟨Val.stepRec r, hr, rfl⟩

/-- **The recorded states chain**: the state recorded before the first step is the node's initial state, the state recorded before
every later step is the state the previous recorded step returned, and the node's current state is the one returned by its last
recorded step — no step ever starts from a stale or foreign state, whatever the schedule. -/
theorem C13_recorded_states_chain (cfg : Cfg T) (n : Nat) (nc : NodeCfg T) (hnode : cfg.node n = some nc)
    {σ : List Rule} {s : MSt T} (h : Rex.Conf.Run (machine cfg).toNet.sys (initState cfg) σ s) :
    StateChain cfg n nc.initState (stepsOf (s.q (.node n .record))) ∧
    (s.priv (.step n)).state = lastState cfg n nc.initState (stepsOf (s.q (.node n .record))) := by
  have hi := finv_run cfg n nc hnode h (finv_init cfg n nc hnode)
  exact ⟨hi.chain, hi.cur⟩

/-- non-vacuity: a chain of two rows -/
example (cfg : Cfg T) (n : Nat) (r1 r2 : StepRec T) (h1 : r1.stateBefore = 5) (h2 : r2.stateBefore = retState cfg n r1) :
    StateChain cfg n 5 [r1, r2] := ⟨h1, h2, trivial⟩

end Faithful

/-! ## Non-vacuity: a concrete machine that records a step

A one-node graph over integer time (rounding = identity): scheduling, phase shift, the supervisor's step, the user's answer and the
step's completion are enabled in this order and leave one recorded row — so the reachable states the machine-level theorems of
C01, C03, C04, C06 and C13 quantify over include states with non-empty records. -/

section NonVacuous

instance : Rex.FloorDiv Int := ⟨fun a b => a / b⟩

def intTime : TimeLike Int := { decLt := inferInstance, decLe := inferInstance, rnd := id }

attribute [local instance] intTime

def nc0 : NodeCfg Int :=
  { rate := 1, phase := 0, advance := false, scheduling := 0, inputs := [], outputs := [], compDelay := fun _ => 0, initState := 5 }

def cfg0 : Cfg Int := { nodes := [nc0], conns := [], sup := 0, f := fun sin => ⟨sin.state + 1, sin.state * 2⟩, userSteps := 3 }

def runRules (cfg : Cfg Int) (s : MSt Int) : List Rule → MSt Int
  | [] => s
  | r :: rs => runRules cfg ((machine cfg).toNet.fire r s) rs

def guardsOk (cfg : Cfg Int) (s : MSt Int) : List Rule → Bool
  | [] => true
  | r :: rs => ((machine cfg).toNet.step r (s.priv r) ((machine cfg).toNet.view r s)).isSome && guardsOk cfg ((machine cfg).toNet.fire r s) rs

theorem run_of_guardsOk (cfg : Cfg Int) : ∀ (σ : List Rule) (s : MSt Int), guardsOk cfg s σ = true →
    Rex.Conf.Run (machine cfg).toNet.sys s σ (runRules cfg s σ)
  | [], s, _ => Rex.Conf.Run.nil s
  | r :: rs, s, h => by
    simp only [guardsOk, Bool.and_eq_true] at h
    exact Rex.Conf.Run.cons h.1 (run_of_guardsOk cfg rs _ h.2)

/-- a reachable state with a recorded step -/
theorem C13_reachable_state_with_a_record :
    ∃ s, Rex.Conf.Run (machine cfg0).toNet.sys (initState cfg0) [.sched 0, .shift 0, .step 0, .user, .step 0] s ∧
      (stepsOf (s.q (.node 0 .record))).length = 1 ∧ (s.priv (.step 0)).state = 6 :=
  ⟨_, run_of_guardsOk cfg0 _ _ (by decide), by decide, by decide⟩

end NonVacuous

end Rex.C13
